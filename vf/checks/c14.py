"""C14 - the tz database binary codec is lossless and canonical.

Every value of each primitive's (bounded or complete) domain is pushed through the REAL writer and the REAL reader and
compared with an independent byte-level model of the documented encodings (vf/models/nzdcodec.py):

  bytes       writer output == the model's minimal ("compact") encoding
  roundtrip   reader(writer(v)) == v
  position    the reader consumes exactly the bytes the writer produced
  read-canonical   (only when the writer's bytes differ from the model's) reader(model bytes) == v

plus, for every zone field of the two real .nzd files: decode with the real reader -> encode with the real writer and
the file's own string pool == the original bytes, and the re-decoded zone walks identically.
"""
from __future__ import annotations

import io
import itertools
import os
import time

from vf.core.evidence import Acc, exc_origin, exc_site
from vf.core.par import chunks, pmap
from vf.models import nzdcodec as M
from vf.models import nzdframe as F

LEVEL = "model_checking"

_BIND_ERROR = None
try:
    import pyoda_time
    from pyoda_time import Instant, LocalTime, Offset
    from pyoda_time.time_zones import ZoneInterval
    from pyoda_time.time_zones._fixed_date_time_zone import _FixedDateTimeZone
    from pyoda_time.time_zones._precalculated_date_time_zone import _PrecalculatedDateTimeZone
    from pyoda_time.time_zones._standard_daylight_alternating_map import _StandardDaylightAlternatingMap
    from pyoda_time.time_zones._transition_mode import _TransitionMode
    from pyoda_time.time_zones._zone_recurrence import _ZoneRecurrence
    from pyoda_time.time_zones._zone_year_offset import _ZoneYearOffset
    from pyoda_time.time_zones.io._date_time_zone_reader import _DateTimeZoneReader
    from pyoda_time.time_zones.io._date_time_zone_writer import _DateTimeZoneWriter
except Exception as _e:  # noqa: BLE001 - private module layout drifted: the check degrades instead of alarming
    _BIND_ERROR = "%s: %s" % (type(_e).__name__, _e)

MS_DAY = M.MS_PER_DAY
HALF_HOUR = 1_800_000
SENTINEL = b"\xa5" * 12      # appended after the written bytes so that over-reading shows up as a position error


def W(buf, pool=None):
    return _DateTimeZoneWriter._ctor(buf, pool)


def R(buf, pool=None):
    return _DateTimeZoneReader._ctor(buf, pool)


# ---------------------------------------------------------------------------------------------- value adapters

def mk_inst(t):
    if t == M.NEG:
        return Instant._before_min_value()
    if t == M.POS:
        return Instant._after_max_value()
    return Instant.from_unix_time_ticks(t)


def inst_val(x):
    """Instant -> ticks | NEG | POS | ('inexact', repr) when it is not a whole number of ticks"""
    if x < Instant.min_value:
        return M.NEG
    if x > Instant.max_value:
        return M.POS
    t = x.to_unix_time_ticks()
    if Instant.from_unix_time_ticks(t) != x:
        return ("not-whole-ticks", t)
    return t


def mk_yo(y: M.YO):
    return _ZoneYearOffset._ctor(_TransitionMode(y.mode), y.month, y.dom, y.dow, y.adv,
                                 LocalTime.from_milliseconds_since_midnight(y.tod_ms), y.addday)


def yo_fields(o):
    """_ZoneYearOffset -> model tuple through its (private) fields; None when the layout drifted"""
    try:
        return M.YO(int(o.mode), o._ZoneYearOffset__day_of_week, bool(o.advance_day_of_week), bool(o._ZoneYearOffset__add_day),
                    o._ZoneYearOffset__month_of_year, o._ZoneYearOffset__day_of_month, o.time_of_day.tick_of_day // 10_000)
    except AttributeError:
        return None


def mk_map(m):
    std, sname, syo, dname, dyo, sav = m
    return _StandardDaylightAlternatingMap._ctor(
        Offset.from_seconds(std),
        _ZoneRecurrence(sname, Offset.zero, mk_yo(syo), M.INT_MIN, M.INT_MAX),
        _ZoneRecurrence(dname, Offset.from_seconds(sav), mk_yo(dyo), M.INT_MIN, M.INT_MAX))


def interval_tuple(zi):
    return (inst_val(zi.start) if zi.has_start else M.NEG, inst_val(zi.end) if zi.has_end else M.POS, zi.name,
            zi.wall_offset.seconds, zi.savings.seconds, zi.wall_offset.milliseconds, zi.savings.milliseconds)


def walk(zone, max_steps):
    """interval chain of a zone from the start of time: list of interval tuples (at most max_steps)"""
    out = []
    zi = zone.get_zone_interval(Instant.min_value)
    while True:
        out.append(interval_tuple(zi))
        if not zi.has_end or len(out) >= max_steps:
            return out
        zi = zone.get_zone_interval(zi.end)


# ---------------------------------------------------------------------------------------------- violation keys

class Keys:
    """C14/<part>/<law>/<class>[/<detail>] with at most 3 distinct details per (part, law, class) in one worker."""

    def __init__(self, acc):
        self.acc = acc
        self.seen = {}

    def v(self, part, law, cls, detail, what, case, py=None):
        base = "C14/%s/%s/%s" % (part, law, cls)
        if detail is None:
            key = base
        else:
            s = self.seen.setdefault(base, [])
            if detail in s:
                key = "%s/%s" % (base, detail)
            elif len(s) < 3:
                s.append(detail)
                key = "%s/%s" % (base, detail)
            else:
                key = base + "/more"
        if key in self.acc.violations:
            return
        self.acc.violation(key, what() if callable(what) else what, case, py() if callable(py) else py)


def _py_prim(method_w, method_r, arg_expr, expect_hex):
    return ('''import io
from pyoda_time.time_zones.io._date_time_zone_writer import _DateTimeZoneWriter
from pyoda_time.time_zones.io._date_time_zone_reader import _DateTimeZoneReader


def test_c14():
    buf = io.BytesIO()
    value = %s
    _DateTimeZoneWriter._ctor(buf, None).%s(value)
    data = buf.getvalue()
    assert _DateTimeZoneReader._ctor(io.BytesIO(data), None).%s() == value, "not read back as written"
    assert data.hex() == %r, "not the documented compact encoding"
''' % (arg_expr, method_w, method_r, expect_hex))


# ---------------------------------------------------------------------------------------------- generic batched sweep

def sweep(acc, part, values, wfn, rfn, enc, cls, same, detail=None, in_domain=None, pool=None, py=None, batch=4096):
    """values: iterable of model-level values.  wfn(writer, v) writes, rfn(reader) reads and returns a model-level value,
    enc(v) the model bytes, cls(v) the encoding class, same(read_back, v) equality on model level."""
    K = Keys(acc)
    it = iter(values)
    while True:
        vals = list(itertools.islice(it, batch))
        if not vals:
            return
        buf = io.BytesIO()
        w = W(buf, pool)
        ends = []
        ok = []
        for v in vals:
            pos = buf.tell()
            dom = in_domain(v) if in_domain else True
            try:
                wfn(w, v)
                ok.append(True)
                if not dom:
                    acc.outcome("%s: writer accepts a value outside the stated domain" % part)
            except Exception as e:  # noqa: BLE001
                if exc_origin(e) == "harness":
                    raise
                buf.seek(pos)
                buf.truncate()
                ok.append(False)
                if dom:
                    K.v(part, "writer-raises", cls(v), detail(v) if detail else None,
                        lambda: "writer raised %s(%s) at %s for the in-domain value %r" % (type(e).__name__, str(e)[:120], exc_site(e), v),
                        {"part": part, "value": v})
                else:
                    acc.outcome("%s: writer rejects out-of-domain value" % part)
            ends.append(buf.tell())
        data = buf.getvalue()
        rd = io.BytesIO(data + SENTINEL)
        r = R(rd, pool)
        start = 0
        n_states = n_trans = n_eval = n_nontriv = 0
        cls_counts = {}
        first = None
        for v, end, good in zip(vals, ends, ok):
            n_states += 1
            if not good:
                n_trans += 1
                continue
            n_trans += 2
            n_eval += 1
            chunk = data[start:end]
            dom = True if in_domain is None else in_domain(v)
            mismatch = False
            if dom:
                c = cls(v)
                exp = enc(v)
                cls_counts[c] = cls_counts.get(c, 0) + 1
                if len(exp) > 1:
                    n_nontriv += 1
                    if first is None:
                        first = (v, chunk, c)
                if chunk != exp:
                    mismatch = True
                    K.v(part, "bytes", c, detail(v) if detail else None,
                        lambda: "writer emits %s for %r, the documented compact encoding is %s (%d instead of %d bytes)"
                        % (chunk.hex(), v, exp.hex(), len(chunk), len(exp)), {"part": part, "value": v, "written": chunk, "expected": exp},
                        (lambda: py(v, exp)) if py else None)
            else:
                c = "out-of-domain"
                exp = None
            try:
                back = rfn(r)
                p = rd.tell()
                if p != end:
                    rd.seek(end)
                    K.v(part, "position", c, detail(v) if (detail and dom) else None,
                        lambda: "reader consumed %d bytes of the %d written for %r" % (p - start, end - start, v),
                        {"part": part, "value": v, "written": chunk})
                if not same(back, v):
                    K.v(part, "roundtrip", c, detail(v) if (detail and dom) else None,
                        lambda: "%r written as %s is read back as %r" % (v, chunk.hex(), back),
                        {"part": part, "value": v, "written": chunk, "read_back": back}, (lambda: py(v, exp)) if (py and dom) else None)
            except Exception as e:  # noqa: BLE001
                if exc_origin(e) == "harness":
                    raise
                rd.seek(end)
                K.v(part, "reader-raises", c, detail(v) if (detail and dom) else None,
                    lambda: "reader raised %s(%s) at %s on the bytes %s written for %r"
                    % (type(e).__name__, str(e)[:120], exc_site(e), chunk.hex(), v), {"part": part, "value": v, "written": chunk})
            if mismatch:
                # separate a reader defect from the writer defect: the reader must accept the documented form too
                n_eval += 1
                n_trans += 1
                d = detail(v) if detail else None
                rs = io.BytesIO(exp + SENTINEL)
                try:
                    back = rfn(R(rs, pool))
                    if not same(back, v) or rs.tell() != len(exp):
                        K.v(part, "read-canonical", c, d, lambda: "reader turns the documented encoding %s of %r into %r (consumed %d bytes)"
                            % (exp.hex(), v, back, rs.tell()), {"part": part, "value": v, "bytes": exp})
                except Exception as e:  # noqa: BLE001
                    if exc_origin(e) == "harness":
                        raise
                    K.v(part, "read-canonical", c, d, lambda: "reader raised %s at %s on the documented encoding %s of %r"
                        % (type(e).__name__, exc_site(e), exp.hex(), v), {"part": part, "value": v, "bytes": exp})
            start = end
        if not acc.samples and first is not None:
            acc.sample({"part": part, "value": first[0], "written": first[1], "class": first[2]})
        acc.count(states=n_states, transitions=n_trans, evaluations=n_eval, nontrivial=n_nontriv)
        for c, n in cls_counts.items():
            acc.outcome("%s:%s" % (part, c), n)


# ---------------------------------------------------------------------------------------------- parts: counts

def count_values(tier):
    dense = (1 << 21) + 1024 if tier == "thorough" else (1 << 14) + 1024
    extra = set()
    for k in range(0, 32):
        for d in (-1, 0, 1):
            extra.add((1 << k) + d)
    for j in range(0, 5):
        for d in (-1, 0, 1):
            extra.add(128 ** j + d)
    extra |= {M.INT_MAX, M.INT_MAX - 1, M.INT_MAX + 1, -1, -2, 1 << 32, (1 << 35) - 1}
    if tier != "thorough":
        extra |= set(range((1 << 21) - 1024, (1 << 21) + 1024))
    return dense, sorted(x for x in extra if x >= dense or x < 0)


def part_counts(acc, arg):
    a, b, extra = arg
    vals = itertools.chain(range(a, b), extra)
    sweep(acc, "count", vals, lambda w, v: w.write_count(v), lambda r: r.read_count(), M.enc_count,
          lambda v: "len%d" % len(M.enc_varint(v)), lambda x, v: type(x) is int and x == v,
          in_domain=lambda v: 0 <= v <= M.INT_MAX,
          py=lambda v, exp: _py_prim("write_count", "read_count", repr(v), exp.hex()))


def signed_values(tier):
    lim = 1 << 20 if tier == "thorough" else 1 << 13
    extra = set()
    for k in range(0, 32):
        for d in (-1, 0, 1):
            for s in (1, -1):
                extra.add(s * ((1 << k) + d))
    extra |= {M.INT_MAX, M.INT_MIN, M.INT_MIN + 1, M.INT_MAX - 1}
    return lim, sorted(x for x in extra if abs(x) > lim and M.INT_MIN <= x <= M.INT_MAX)


def part_signed(acc, arg):
    a, b, extra = arg
    sweep(acc, "signed-count", itertools.chain(range(a, b), extra), lambda w, v: w.write_signed_count(v),
          lambda r: r.read_signed_count(), M.enc_signed,
          lambda v: "%s/len%d" % ("neg" if v < 0 else "nonneg", len(M.enc_signed(v))), lambda x, v: type(x) is int and x == v,
          py=lambda v, exp: _py_prim("write_signed_count", "read_signed_count", repr(v), exp.hex()))


def part_reader_count_limit(acc, _arg):
    """a count above int32 on the wire: the reader must not hand it out as a count (reject), per its own contract"""
    for n in (M.INT_MAX + 1, (1 << 32) + 5, 1 << 40):
        b = M.enc_varint(n)
        acc.count(states=1, evaluations=1, transitions=1)
        try:
            x = R(io.BytesIO(b + SENTINEL)).read_count()
            if x != n:
                acc.violation("C14/count/reader-wraps/over-int32", "varint %s (= %d) is read as count %r" % (b.hex(), n, x), {"bytes": b})
            else:
                acc.outcome("count: reader returns an over-int32 value unchanged")
        except Exception as e:  # noqa: BLE001
            if exc_origin(e) == "harness":
                raise
            acc.outcome("count: reader rejects a value above int32")


# ---------------------------------------------------------------------------------------------- parts: milliseconds / offsets

def _ms_detail(v):
    return "rem%d" % ((v + MS_DAY) % HALF_HOUR)


def part_millis(acc, arg):
    kind = arg[0]
    if kind == "range":
        vals = range(arg[1], arg[2])
    else:
        vals = arg[1]
    sweep(acc, "milliseconds", vals, lambda w, v: w.write_milliseconds(v), lambda r: r.read_milliseconds(), M.enc_millis,
          M.millis_class, lambda x, v: type(x) is int and x == v, detail=_ms_detail,
          in_domain=lambda v: -MS_DAY < v < MS_DAY,
          py=lambda v, exp: _py_prim("write_milliseconds", "read_milliseconds", repr(v), exp.hex()))


def millis_quick_sets(seed):
    """quick tier: (a) every whole second, (b) +-40 ms around every half-hour multiple, (c) +-2 ms around every minute
    multiple, (d) the first / last 100 000 values and +-100 000 around zero, (e) one seed-positioned block of 2 000 000"""
    lo, hi = -MS_DAY + 1, MS_DAY - 1
    shards = []
    secs = [s * 1000 for s in range(-86399, 86400)]
    for i in range(0, len(secs), 45000):
        shards.append(("list", secs[i:i + 45000]))
    near = set()
    for h in range(-48, 49):
        for d in range(-40, 41):
            near.add(h * HALF_HOUR + d)
    for m in range(-1440, 1441):
        for d in range(-2, 3):
            near.add(m * 60_000 + d)
    near |= {lo - 1, hi + 1, lo - 2, hi + 2}
    near = sorted(x for x in near if lo - 2 <= x <= hi + 2)
    for i in range(0, len(near), 12000):
        shards.append(("list", near[i:i + 12000]))
    for a, b in ((lo, lo + 100_000), (hi - 100_000 + 1, hi + 1), (-100_000, 100_001)):
        shards.append(("range", a, b))
    span = (hi - lo + 1) - 2_000_000
    start = lo + (seed * 7_919_003 + 12_345_678) % span
    for a, b in chunks(start, start + 2_000_000, 250_000):
        shards.append(("range", a, b))
    return shards, (start, start + 2_000_000)


def part_offsets(acc, arg):
    a, b = arg
    sweep(acc, "offset", range(a, b), lambda w, v: w.write_offset(Offset.from_seconds(v)),
          lambda r: r.read_offset(), M.enc_offset, lambda v: M.millis_class(v * 1000),
          lambda x, v: isinstance(x, Offset) and x.seconds == v and x.milliseconds == v * 1000 and x == Offset.from_seconds(v))


# ---------------------------------------------------------------------------------------------- parts: transitions

TPH = M.TICKS_PER_HOUR
TPM = M.TICKS_PER_MINUTE
E1800 = M.EPOCH_1800_TICKS


def _in_range(t):
    return M.MIN_INSTANT_TICKS <= t <= M.MAX_INSTANT_TICKS


def transition_alphabet():
    y1900 = M.days_from_civil(1900, 1, 1) * M.TICKS_PER_DAY
    y2000 = M.days_from_civil(2000, 3, 26) * M.TICKS_PER_DAY + TPH
    base = {M.MIN_INSTANT_TICKS, M.MIN_INSTANT_TICKS + 1, M.MIN_INSTANT_TICKS + TPH, M.MAX_INSTANT_TICKS,
            M.MAX_INSTANT_TICKS - 1, M.MAX_INSTANT_TICKS + 1 - TPH, M.MAX_INSTANT_TICKS + 1 - TPM,
            0, 1, -1, TPH, -TPH, y1900, y2000, y2000 + 30 * TPM, y2000 + M.TICKS_PER_SECOND, y2000 + 1,
            M.days_from_civil(1750, 6, 1) * M.TICKS_PER_DAY, M.days_from_civil(1, 1, 1) * M.TICKS_PER_DAY,
            E1800 - 1, E1800 - TPM, E1800 - TPH, E1800, E1800 + 1, E1800 + TPM, E1800 + TPH}
    for m in ((1 << 21) - 1, 1 << 21, (1 << 21) + 1, (1 << 21) + 60, (1 << 28), M.INT_MAX - 1, M.INT_MAX, M.INT_MAX + 1, M.INT_MAX + 61):
        for d in (0, 1, -1, M.TICKS_PER_SECOND):
            base.add(E1800 + m * TPM + d)
    base = sorted(t for t in base if _in_range(t))
    deltas = set()
    for h in (0, 1, 2, 127, 128, 129, 4000, 5000, 6000, (1 << 14) - 1, 1 << 14, (1 << 21) - 1, 1 << 21, (1 << 21) + 1, 700_000, 3_000_000):
        for d in (0, 1, -1, TPM, -TPM, M.TICKS_PER_SECOND, 30 * TPM):
            if h * TPH + d >= 0:
                deltas.add(h * TPH + d)
    return base, sorted(deltas)


def transition_pairs():
    base, deltas = transition_alphabet()
    pairs = []
    seen = set()

    def add(p, v):
        if (p, v) not in seen:
            seen.add((p, v))
            pairs.append((p, v))
    for p in [None, M.NEG] + base:
        add(p, M.POS)
        if p in (None, M.NEG):
            add(p, M.NEG)
        for v in base:
            if p in (None, M.NEG) or v >= p:
                add(p, v)
        if p not in (None, M.NEG):
            for d in deltas:
                if _in_range(p + d):
                    add(p, p + d)
            # out of domain: moving backwards must be refused or still round-trip
            for d in (1, TPH, 128 * TPH):
                if _in_range(p - d):
                    add(p, p - d)
    add(M.POS, M.POS)
    return pairs


def _tr_same(x, v):
    return inst_val(x) == v[1] and x == mk_inst(v[1])


def _tr_domain(v):
    p, x = v
    if p is None or p == M.NEG or x == M.POS:
        return True
    if p == M.POS:
        return x == M.POS
    return x != M.NEG and x >= p


def _py_transition(v, exp):
    p, x = v

    def e(t):
        return {None: "None", M.NEG: "Instant._before_min_value()", M.POS: "Instant._after_max_value()"}.get(t) or "Instant.from_unix_time_ticks(%d)" % t
    return ('''import io
from pyoda_time import Instant
from pyoda_time.time_zones.io._date_time_zone_writer import _DateTimeZoneWriter
from pyoda_time.time_zones.io._date_time_zone_reader import _DateTimeZoneReader


def test_c14_transition():
    previous, value = %s, %s
    buf = io.BytesIO()
    _DateTimeZoneWriter._ctor(buf, None).write_zone_interval_transition(previous, value)
    data = buf.getvalue()
    assert _DateTimeZoneReader._ctor(io.BytesIO(data), None).read_zone_interval_transition(previous) == value
    assert data.hex() == %r, "not the documented compact encoding (class %s)"
''' % (e(p), e(x), exp.hex(), M.transition_class(p, x)))


def _sweep_transitions(acc, vals):
    """like sweep(), one value at a time (the reader call needs the pair's own previous instant)"""
    K = Keys(acc)
    part = "transition"
    for v in vals:
        p, x = v
        dom = _tr_domain(v)
        c = M.transition_class(p, x) if dom else "out-of-domain"
        pi = None if p is None else mk_inst(p)
        xi = mk_inst(x)
        acc.count(states=1, transitions=1)
        buf = io.BytesIO()
        try:
            W(buf).write_zone_interval_transition(pi, xi)
        except Exception as e:  # noqa: BLE001
            if exc_origin(e) == "harness":
                raise
            if dom:
                K.v(part, "writer-raises", c, None, lambda: "writer raised %s(%s) at %s for previous=%r value=%r" % (type(e).__name__, str(e)[:100], exc_site(e), p, x),
                    {"part": part, "previous": p, "value": x})
            else:
                acc.outcome("transition: writer rejects a transition that moves backwards")
            continue
        chunk = buf.getvalue()
        exp = M.enc_transition(p, x) if dom else None
        if dom:
            if not acc.samples and c == "hours":
                acc.sample({"part": part, "previous": p, "value": x, "written": chunk, "class": c})
            acc.outcome("transition:%s/prev=%s" % (c, "none" if p is None else "min-marker" if p == M.NEG else "max-marker" if p == M.POS else "instant"))
            if c in ("hours", "minutes"):
                acc.count(nontrivial=1)
            if chunk != exp:
                K.v(part, "bytes", c, None, lambda: "writer emits %s (%d bytes) for previous=%r value=%r, the documented %s form is %s (%d bytes)"
                    % (chunk.hex(), len(chunk), p, x, c, exp.hex(), len(exp)),
                    {"part": part, "previous": p, "value": x, "written": chunk, "expected": exp}, lambda: _py_transition(v, exp))
        else:
            acc.outcome("transition: writer accepts a transition that moves backwards")
        forms = [("roundtrip", chunk)]
        if dom and chunk != exp:
            forms.append(("read-canonical", exp))
        for law, b in forms:
            acc.count(evaluations=1, transitions=1)
            rs = io.BytesIO(b + SENTINEL)
            try:
                back = R(rs).read_zone_interval_transition(pi)
                if rs.tell() != len(b):
                    K.v(part, "position", c, None, lambda: "reader consumed %d of %d bytes (%s) for previous=%r value=%r" % (rs.tell(), len(b), b.hex(), p, x),
                        {"part": part, "previous": p, "value": x, "bytes": b})
                if not _tr_same(back, v):
                    K.v(part, law, c, None, lambda: "previous=%r value=%r encoded as %s is read back as %r" % (p, x, b.hex(), inst_val(back)),
                        {"part": part, "previous": p, "value": x, "bytes": b, "read_back": inst_val(back)},
                        (lambda: _py_transition(v, exp)) if dom else None)
            except Exception as e:  # noqa: BLE001
                if exc_origin(e) == "harness":
                    raise
                K.v(part, law if law == "read-canonical" else "reader-raises", c, None,
                    lambda: "reader raised %s(%s) at %s on %s (previous=%r value=%r)" % (type(e).__name__, str(e)[:100], exc_site(e), b.hex(), p, x),
                    {"part": part, "previous": p, "value": x, "bytes": b})


def part_transitions_run(acc, arg):
    kind = arg[0]
    if kind == "pairs":
        vals = transition_pairs()[arg[1]::arg[2]]
    else:
        prev = M.days_from_civil(1900, 1, 1) * M.TICKS_PER_DAY
        vals = [(prev, prev + h * TPH) for h in range(arg[1], arg[2])]
    _sweep_transitions(acc, vals)


def part_documented_forms(acc, _arg):
    """The reader decodes every documented count class at its limits (bytes built by the model, not by the writer):
    [128, 2^21) = whole hours after the previous transition, [2^21, 2^31) = whole minutes after 1800-01-01."""
    prev = M.days_from_civil(1900, 1, 1) * M.TICKS_PER_DAY
    cases = []
    for c in (128, 129, 16383, 16384, (1 << 21) - 1):
        cases.append((c, prev, prev + c * TPH, "hours"))
    for c in (1 << 21, (1 << 21) + 1, 1 << 28, M.INT_MAX):
        cases.append((c, prev, E1800 + c * TPM, "minutes"))
        cases.append((c, None, E1800 + c * TPM, "minutes"))
    for c, p, want, cls in cases:
        if not _in_range(want):
            continue
        b = M.enc_varint(c)
        acc.count(states=1, evaluations=1, transitions=1, nontrivial=1)
        acc.outcome("documented-form:%s" % cls)
        rs = io.BytesIO(b + SENTINEL)
        try:
            back = R(rs).read_zone_interval_transition(None if p is None else mk_inst(p))
            if inst_val(back) != want or rs.tell() != len(b):
                acc.violation("C14/transition/documented-form/%s/count=%d" % (cls, c),
                              "count %d (%s form, bytes %s, previous=%r) is decoded as %r, the documented meaning is %r"
                              % (c, cls, b.hex(), p, inst_val(back), want), {"count": c, "previous": p, "bytes": b, "expected": want})
        except Exception as e:  # noqa: BLE001
            if exc_origin(e) == "harness":
                raise
            acc.violation("C14/transition/documented-form/%s/count=%d" % (cls, c),
                          "reader raised %s(%s) on count %d (%s form, previous=%r)" % (type(e).__name__, str(e)[:100], c, cls, p),
                          {"count": c, "previous": p, "bytes": b, "expected": want})


# ---------------------------------------------------------------------------------------------- parts: strings, dictionaries

def string_alphabet():
    out = ["", "a", "Z" * 126, "Z" * 127, "Z" * 128, "Z" * 129, "q" * 16383, "q" * 16384, "q" * 16385,
           "é", "é" * 63 + "a", "é" * 64, "€" * 42 + "a", "€" * 43, "\U0001f600" * 32, "\U0001f600" * 31 + "abc",
           "a\x00b", "\x00", "Europe/London", "Азия/Токио", " leading and trailing ", "\x7f\x80\xff",
           "\ud800"]
    return out


def _encodable(s):
    try:
        s.encode("utf-8")
        return True
    except UnicodeEncodeError:
        return False


def part_strings(acc, _arg):
    strs = string_alphabet()
    sweep(acc, "string", strs, lambda w, v: w.write_string(v), lambda r: r.read_string(), M.enc_string,
          lambda v: "inline/len%d" % len(M.enc_varint(len(v.encode("utf-8")))), lambda x, v: type(x) is str and x == v,
          in_domain=_encodable)
    # pooled: every index class of a 16 500-entry pool, then strings the pool does not have yet
    pool = ["s%d" % i for i in range(16500)] + ["", "é"]
    K = Keys(acc)
    for idx in (0, 1, 127, 128, 129, 16383, 16384, 16499, 16500, 16501):
        s = pool[idx]
        work = list(pool)
        buf = io.BytesIO()
        acc.count(states=1, transitions=2, evaluations=1, nontrivial=1 if idx > 127 else 0)
        acc.outcome("string:pooled/len%d" % len(M.enc_varint(idx)))
        try:
            W(buf, work).write_string(s)
            chunk = buf.getvalue()
            if chunk != M.enc_count(idx) or work != pool:
                K.v("string", "bytes", "pooled", None, lambda: "pool index %d written as %s (expected %s); pool changed: %s" % (idx, chunk.hex(), M.enc_count(idx).hex(), work != pool),
                    {"index": idx})
            rs = io.BytesIO(chunk + SENTINEL)
            back = R(rs, work).read_string()
            if back != s or rs.tell() != len(chunk):
                K.v("string", "roundtrip", "pooled", None, lambda: "pool string %d %r read back as %r (consumed %d of %d)" % (idx, s, back, rs.tell(), len(chunk)), {"index": idx})
        except Exception as e:  # noqa: BLE001
            acc.lib_exception("C14/string/pooled", e, {"index": idx})
    for base_len in (0, 127, 128, 16384):
        work = ["s%d" % i for i in range(base_len)]
        seq = ["new-A", "new-B", "new-A", "s0" if base_len else "new-B", "é"]
        model_pool = list(work)
        buf = io.BytesIO()
        w = W(buf, work)
        exp = b""
        acc.count(states=1, transitions=2 * len(seq), evaluations=1, nontrivial=1)
        acc.outcome("string:pool-growth")
        try:
            for s in seq:
                w.write_string(s)
                if s not in model_pool:
                    model_pool.append(s)
                exp += M.enc_count(model_pool.index(s))
            chunk = buf.getvalue()
            if chunk != exp or work != model_pool:
                K.v("string", "bytes", "pool-growth", None, lambda: "writing %r with a %d-entry pool gives %s / pool tail %r, expected %s / %r"
                    % (seq, base_len, chunk.hex(), work[base_len:], exp.hex(), model_pool[base_len:]), {"pool_len": base_len, "seq": seq})
            rs = io.BytesIO(chunk + SENTINEL)
            r = R(rs, work)
            back = [r.read_string() for _ in seq]
            if back != seq or rs.tell() != len(chunk):
                K.v("string", "roundtrip", "pool-growth", None, lambda: "%r read back as %r" % (seq, back), {"pool_len": base_len, "seq": seq})
        except Exception as e:  # noqa: BLE001
            acc.lib_exception("C14/string/pool-growth", e, {"pool_len": base_len, "seq": seq})


def part_dicts(acc, _arg):
    K = Keys(acc)
    strs = [s for s in string_alphabet() if _encodable(s) and len(s) < 200]
    dicts = [{}, {"a": "b"}, {"": ""}, {"k": "", "": "k"}, {"b": "1", "a": "2"}, {"a": "2", "b": "1"}]
    for n in (2, 127, 128, 129, 300):
        dicts.append({"key%d" % i: "value%d" % (i % 7) for i in range(n)})
        dicts.append({"key%d" % i: "value%d" % (i % 7) for i in reversed(range(n))})
    dicts.append({s: s[::-1] for s in strs})
    dicts.append({"alias%d" % i: strs[i % len(strs)] for i in range(40)})
    for use_pool in (False, True):
        for d in dicts:
            pool = None
            if use_pool:
                pool = []
                for k, v in d.items():
                    for s in (v, k):
                        if s not in pool:
                            pool.append(s)
                pool = ["pad%d" % i for i in range(126)] + pool
            exp = M.enc_dict(d, pool)
            acc.count(states=1, transitions=2, evaluations=1, nontrivial=1 if len(d) > 1 else 0)
            acc.outcome("dictionary:%s/count-len%d" % ("pooled" if use_pool else "inline", len(M.enc_varint(len(d)))))
            case = {"dict_items": list(d.items())[:6], "size": len(d), "pool": use_pool}
            try:
                buf = io.BytesIO()
                work = None if pool is None else list(pool)
                W(buf, work).write_dictionary(d)
                chunk = buf.getvalue()
                if chunk != exp or work != pool:
                    K.v("dictionary", "bytes", "pooled" if use_pool else "inline", None,
                        lambda: "dictionary of %d entries written as %s..., expected %s..." % (len(d), chunk[:24].hex(), exp[:24].hex()), case)
                rs = io.BytesIO(chunk + SENTINEL)
                back = R(rs, work).read_dictionary()
                if back != d or list(back.items()) != list(d.items()) or rs.tell() != len(chunk):
                    K.v("dictionary", "roundtrip", "pooled" if use_pool else "inline", None,
                        lambda: "dictionary of %d entries read back differently (equal=%s, same order=%s, consumed %d of %d)"
                        % (len(d), back == d, list(back.items()) == list(d.items()), rs.tell(), len(chunk)), case)
            except Exception as e:  # noqa: BLE001
                acc.lib_exception("C14/dictionary", e, case)


# ---------------------------------------------------------------------------------------------- parts: yearly rules

TODS = (0, 1, 1000, 60_000, HALF_HOUR, 7_200_000, 43_200_500, 86_340_000, 86_399_000, 86_399_999)
DOMS = (1, 28, 29, 30, 31, -1, -28, -29, -30, -31)


def part_year_offsets(acc, arg):
    mode, dow = arg
    K = Keys(acc)
    vals = [M.YO(mode, dow, adv, addday, month, dom, tod) for adv in (False, True) for addday in (False, True)
            for month in range(1, 13) for dom in DOMS for tod in TODS]
    objs = []
    buf = io.BytesIO()
    w = W(buf)
    ends = []
    for y in vals:
        o = mk_yo(y)
        objs.append(o)
        o._write(w)
        ends.append(buf.tell())
    data = buf.getvalue()
    rd = io.BytesIO(data + SENTINEL)
    r = R(rd)
    start = 0
    for y, o, end in zip(vals, objs, ends):
        chunk = data[start:end]
        exp = M.enc_yo(y)
        cls = "rule"
        acc.count(states=1, transitions=2, evaluations=1, nontrivial=1 if (y.tod_ms % HALF_HOUR or y.dom < 0) else 0)
        if chunk != exp:
            K.v("year-offset", "bytes", cls, None, lambda: "%r written as %s, documented encoding %s" % (y, chunk.hex(), exp.hex()), {"yo": list(y)})
        rd.seek(start)
        try:
            back = _ZoneYearOffset.read(r)
            if rd.tell() != end:
                K.v("year-offset", "position", cls, None, lambda: "reader consumed %d of %d bytes for %r" % (rd.tell() - start, end - start, y), {"yo": list(y)})
            got = yo_fields(back)
            if got is None:
                acc.degrade("year-offset fields not reachable: read-back compared with == only")
            if not (back == o) or (got is not None and got != y):
                K.v("year-offset", "roundtrip", cls, None, lambda: "%r read back as %r" % (o, back), {"yo": list(y)})
        except Exception as e:  # noqa: BLE001
            if exc_origin(e) == "harness":
                raise
            K.v("year-offset", "reader-raises", cls, None, lambda: "reader raised %s(%s) at %s for %r" % (type(e).__name__, str(e)[:100], exc_site(e), y), {"yo": list(y)})
        start = end
    acc.outcome("year-offset:mode%d/dow%d" % (mode, dow), len(vals))


def _rule_yos():
    out = []
    for mode in (0, 1, 2):
        out.append(M.YO(mode, 0, False, False, 3, 31, 3_600_000))
        out.append(M.YO(mode, 7, False, False, 10, -1, 7_200_000))
        out.append(M.YO(mode, 7, True, False, 3, 8, 7_200_000))
        out.append(M.YO(mode, 5, True, True, 2, 29, 0))
        out.append(M.YO(mode, 1, False, True, 12, 31, 86_399_999))
        out.append(M.YO(mode, 3, True, False, 1, 1, 1))
        out.append(M.YO(mode, 0, False, False, 6, 30, 43_200_500))
        out.append(M.YO(mode, 6, False, False, 9, -30, 86_340_000))
    return out


def part_recurrences(acc, arg):
    use_pool, yo_lo, yo_hi = arg
    K = Keys(acc)
    names = ["", "BST", "été", "N" * 130]
    savings = [0, 3600, 1800, -3600, 1, 64800, -64800, 5400 + 7]
    froms = [M.INT_MIN, 1, 1970, 9999]
    tos = [0, 1, 1970, 9999, M.INT_MAX, -1]
    pool = (["pad%d" % i for i in range(127)] + names) if use_pool else None
    for yo in _rule_yos()[yo_lo:yo_hi]:
        yobj = mk_yo(yo)
        for name in names:
            for sav in savings:
                for fy in froms:
                    for ty in tos:
                        case = {"name": name, "savings": sav, "yo": list(yo), "from": fy, "to": ty, "pool": use_pool}
                        acc.count(states=1, transitions=2)
                        try:
                            rec = _ZoneRecurrence(name, Offset.from_seconds(sav), yobj, fy, ty)
                        except Exception as e:  # noqa: BLE001
                            if exc_origin(e) == "harness":
                                raise
                            acc.outcome("recurrence: not constructible (outside the type's domain)")
                            continue
                        buf = io.BytesIO()
                        work = None if pool is None else list(pool)
                        try:
                            rec._write(W(buf, work))
                        except Exception as e:  # noqa: BLE001
                            if exc_origin(e) == "harness":
                                raise
                            if ty < 0:
                                acc.outcome("recurrence: writer rejects a negative to-year")
                            else:
                                K.v("recurrence", "writer-raises", "any", None,
                                    lambda: "writer raised %s(%s) for %r" % (type(e).__name__, str(e)[:100], rec), case)
                            continue
                        chunk = buf.getvalue()
                        acc.count(evaluations=1, nontrivial=1)
                        acc.outcome("recurrence:from=%s/to=%s/%s" % ("min" if fy == M.INT_MIN else "year", "max" if ty == M.INT_MAX else "year", "pooled" if use_pool else "inline"))
                        cls = "any"
                        if ty >= 0:
                            exp = M.enc_recurrence(name, sav, yo, fy, ty, pool)
                            if chunk != exp or work != pool:
                                K.v("recurrence", "bytes", cls, None, lambda: "%r written as %s, documented encoding %s" % (rec, chunk.hex()[:80], exp.hex()[:80]), case)
                        rs = io.BytesIO(chunk + SENTINEL)
                        try:
                            back = _ZoneRecurrence.read(R(rs, work))
                            if rs.tell() != len(chunk):
                                K.v("recurrence", "position", cls, None, lambda: "reader consumed %d of %d bytes for %r" % (rs.tell(), len(chunk), rec), case)
                            if not (back == rec) or (back.name, back.savings.seconds, back.from_year, back.to_year, yo_fields(back.year_offset)) != (name, sav, fy, ty, yo_fields(yobj)):
                                K.v("recurrence", "roundtrip", cls, None, lambda: "%r read back as %r" % (rec, back), case)
                        except Exception as e:  # noqa: BLE001
                            if exc_origin(e) == "harness":
                                raise
                            K.v("recurrence", "reader-raises", cls, None, lambda: "reader raised %s(%s) at %s for %r" % (type(e).__name__, str(e)[:100], exc_site(e), rec), case)


def map_alphabet():
    yos = _rule_yos()
    pairs = [(yos[i], yos[j]) for i in (0, 1, 2, 9, 11, 20) for j in (1, 3, 4, 8, 13, 23) if yos[i] != yos[j]]
    out = []
    for std in (0, 3600, -18000, 20700, 45900, -43200 + 1):
        for sav in (3600, 1800, 0, -3600, 7200 + 1):
            for (a, b) in pairs:
                out.append((std, "STD", a, "DéT", b, sav))
    return out


def part_maps(acc, arg):
    use_pool = arg
    K = Keys(acc)
    pool = (["pad%d" % i for i in range(128)] + ["STD", "DéT"]) if use_pool else None
    for m in map_alphabet():
        case = {"map": [m[0], m[1], list(m[2]), m[3], list(m[4]), m[5]], "pool": use_pool}
        acc.count(states=1, transitions=2)
        try:
            obj = mk_map(m)
        except Exception as e:  # noqa: BLE001
            if exc_origin(e) == "harness":
                raise
            acc.outcome("map: not constructible")
            continue
        cls = "any"
        try:
            buf = io.BytesIO()
            work = None if pool is None else list(pool)
            obj._write(W(buf, work))
            chunk = buf.getvalue()
            acc.count(evaluations=1, nontrivial=1)
            acc.outcome("map:%s" % ("pooled" if use_pool else "inline"))
            # the map stores "the recurrence without savings" as standard; with zero savings on both either order is one value
            exps = [M.enc_map(m, pool)]
            if m[5] == 0:
                exps.append(M.enc_map((m[0], m[3], m[4], m[1], m[2], 0), pool))
            if chunk not in exps or work != pool:
                K.v("alternating-map", "bytes", cls, None, lambda: "map %r written as %s, documented encoding %s" % (m, chunk.hex(), exps[0].hex()), case)
            rs = io.BytesIO(chunk + SENTINEL)
            back = _StandardDaylightAlternatingMap._read(R(rs, work))
            if rs.tell() != len(chunk):
                K.v("alternating-map", "position", cls, None, lambda: "reader consumed %d of %d bytes" % (rs.tell(), len(chunk)), case)
            buf2 = io.BytesIO()
            back._write(W(buf2, None if pool is None else list(pool)))
            if not (back == obj) or buf2.getvalue() != chunk:
                K.v("alternating-map", "roundtrip", cls, None, lambda: "map %r is read back as a different value (equal=%s, re-encoding identical=%s)"
                    % (m, back == obj, buf2.getvalue() == chunk), case)
        except Exception as e:  # noqa: BLE001
            acc.lib_exception("C14/alternating-map", e, case)


# ---------------------------------------------------------------------------------------------- parts: synthetic precalculated zones

ZONE_DELTAS = (1, TPM, TPH, 127 * TPH, 128 * TPH, 5000 * TPH, ((1 << 21) - 1) * TPH, (1 << 21) * TPH, 700_000 * TPH + 30 * TPM)
ZONE_BASES = (M.days_from_civil(1750, 6, 1) * M.TICKS_PER_DAY, M.days_from_civil(1801, 1, 1) * M.TICKS_PER_DAY,
              M.days_from_civil(1970, 1, 1) * M.TICKS_PER_DAY + 30 * TPM, E1800 + (1 << 21) * TPM - TPH)
ZONE_NAMES = ("LMT", "", "GMT", "été")
ZONE_WALLS = (0, 3600, -17999, 34200, 64800, -64800)
ZONE_SAVS = (0, 3600, 1800, 0, -3600, 1)
ZONE_TAIL = (0, "GMT", M.YO(0, 7, False, False, 10, -1, 3_600_000), "BST", M.YO(0, 7, False, False, 3, -1, 3_600_000), 3600)


def synthetic_zones(depth):
    """(periods, tail_start, tail) for every delta sequence of length 0..depth after every base, with and without tail"""
    for bi, base in enumerate(ZONE_BASES):
        for n in range(0, depth + 1):
            for seq in itertools.product(range(len(ZONE_DELTAS)), repeat=n):
                starts = [M.NEG, base]
                t = base
                ok = True
                for di in seq:
                    t += ZONE_DELTAS[di]
                    if not _in_range(t):
                        ok = False
                        break
                    starts.append(t)
                if not ok:
                    continue
                for tailed in (False, True):
                    if tailed:
                        cut = starts[-1]
                        ps = starts[:-1]
                    else:
                        cut = M.POS
                        ps = starts
                    periods = [(s, ZONE_NAMES[(i + bi) % 4], ZONE_WALLS[(i + len(seq)) % 6], ZONE_SAVS[(i + bi + len(seq)) % 6]) for i, s in enumerate(ps)]
                    yield (bi, seq, tailed), periods, cut, (ZONE_TAIL if tailed else None)


def build_zone(zid, periods, cut, tail):
    ivs = []
    for i, (s, name, wall, sav) in enumerate(periods):
        e = periods[i + 1][0] if i + 1 < len(periods) else cut
        ivs.append(ZoneInterval(name=name, start=mk_inst(s), end=mk_inst(e), wall_offset=Offset.from_seconds(wall), savings=Offset.from_seconds(sav)))
    return _PrecalculatedDateTimeZone(zid, ivs, None if tail is None else mk_map(tail))


def _check_zone(acc, K, case, periods, cut, tail, pool, part="zone"):
    """one synthetic precalculated zone: every period written in the documented encoding, read back as the same interval
    list, re-encoded to the same bytes"""
    cls = "tail" if tail else "no-tail"
    acc.count(states=1, transitions=2)
    try:
        z = build_zone("Syn/thetic", periods, cut, tail)
    except Exception as e:  # noqa: BLE001
        if exc_origin(e) == "harness":
            raise
        acc.outcome("%s: not constructible (%s)" % (part, type(e).__name__))
        return
    try:
        buf = io.BytesIO()
        work = None if pool is None else list(pool)
        z._write(W(buf, work))
        chunk = buf.getvalue()
        exp = M.enc_precalc(periods, cut, tail, pool)
        acc.count(evaluations=1, nontrivial=1)
        acc.outcome("%s:%d-periods/%s" % (part, len(periods), cls))
        if chunk != exp or work != pool:
            try:
                wrote = M.Dec(chunk, None if pool is None else list(range(len(pool) + 8))).count()
            except M.Bad:
                wrote = None
            K.v(part, "bytes", cls, None, lambda: "synthetic zone %r with %d periods written as %s (period count on the wire: %r), documented encoding %s"
                % (case["zone"], len(periods), chunk.hex(), wrote, exp.hex()), case)
        rs = io.BytesIO(chunk)
        back = _PrecalculatedDateTimeZone._read(R(rs, work), "Syn/thetic")
        if rs.tell() != len(chunk):
            K.v(part, "position", cls, None, lambda: "reader consumed %d of %d bytes" % (rs.tell(), len(chunk)), case)
        steps = len(periods) + (3 if tail else 0)
        w1 = walk(z, steps)
        w2 = walk(back, steps)
        want = []
        for j, (s, name, wall, sav) in enumerate(periods):
            e = periods[j + 1][0] if j + 1 < len(periods) else cut
            want.append((s, e, name, wall, sav, wall * 1000, sav * 1000))
        keep = len(periods) - (1 if tail else 0)
        if w2 != w1 or w2[:keep] != want[:keep]:
            K.v(part, "roundtrip", cls, None, lambda: "zone read back walks %r, written zone walks %r, periods given %r" % (w2[:5], w1[:5], want[:5]), case)
        buf2 = io.BytesIO()
        back._write(W(buf2, None if pool is None else list(pool)))
        if buf2.getvalue() != chunk:
            K.v(part, "reencode", cls, None, lambda: "zone read back re-encodes to %s, it was read from %s" % (buf2.getvalue().hex(), chunk.hex()), case)
    except Exception as e:  # noqa: BLE001
        acc.lib_exception("C14/%s/%s" % (part, cls), e, case)


def part_synthetic_zones(acc, arg):
    depth, shard, nshards, use_pool = arg
    K = Keys(acc)
    pool = (["pad%d" % i for i in range(126)] + list(ZONE_NAMES) + ["BST"]) if use_pool else None
    for i, (ident, periods, cut, tail) in enumerate(synthetic_zones(depth)):
        if i % nshards != shard:
            continue
        case = {"zone": {"base": ident[0], "deltas": list(ident[1]), "tail": ident[2]}, "pool": use_pool}
        _check_zone(acc, K, case, periods, cut, tail, pool)


# period contents: (name, wall offset, savings).  B..D each differ from A in exactly one component; equal neighbours included
NEIGHBOUR_TRIPLES = {"A": ("AAA", 0, 0), "B": ("BBB", 0, 0), "C": ("AAA", 3600, 0), "D": ("AAA", 3600, 3600)}


def part_neighbour_zones(acc, arg):
    """every sequence of 1..maxlen period contents over NEIGHBOUR_TRIPLES (AA, ABA, AAB, ABB, AAA, ...), with and without tail"""
    maxlen, use_pool = arg
    K = Keys(acc)
    pool = (["pad%d" % i for i in range(126)] + ["AAA", "BBB", "GMT", "BST"]) if use_pool else None
    base = M.days_from_civil(1900, 1, 1) * M.TICKS_PER_DAY
    step = 5000 * TPH
    for n in range(1, maxlen + 1):
        for pat in itertools.product("ABCD", repeat=n):
            for tailed in (False, True):
                starts = [M.NEG] + [base + i * step for i in range(n - 1)]
                periods = [(st,) + NEIGHBOUR_TRIPLES[c] for st, c in zip(starts, pat)]
                cut = (base + (n - 1) * step) if tailed else M.POS
                equal_neighbours = any(pat[i] == pat[i + 1] for i in range(n - 1))
                case = {"zone": {"pattern": "".join(pat), "tail": tailed}, "pool": use_pool}
                _check_zone(acc, K, case, periods, cut, ZONE_TAIL if tailed else None, pool, part="zone-neighbours")
                if equal_neighbours:
                    acc.outcome("zone-neighbours: pattern with equal neighbouring periods")


# writer call histories with operations of the pool's owner interposed ---------------------------------------------------

WH_STRINGS = ("s0", "s1", "été")
WH_OPS = ("w0", "w1", "w2", "dict", "clear", "reverse", "insert")


def part_writer_histories(acc, arg):
    """ONE writer and ONE shared pool list; every history of <= depth operations starting with `first` over
    {write_string(s0|s1|s2), write_dictionary({s0: s1}), pool.clear(), pool.reverse(), pool.insert(0, "x")}, from an empty and
    from a pre-populated pool.  Model: the pool is a plain list - a write appends the string if it is missing and encodes the
    index the string has in the pool at that moment; the bytes of each write are decoded with the pool as it is then."""
    first, depth = arg
    n_hist = n_steps = n_nontriv = 0
    for initial in ((), ("s1", "s0", "pad")):
        for n in range(0, depth):
            for rest in itertools.product(WH_OPS, repeat=n):
                hist = (first,) + rest
                n_hist += 1
                pool = list(initial)
                model = list(initial)
                buf = io.BytesIO()
                w = W(buf, pool)
                prev = "start"
                owner_acted = False
                for op in hist:
                    n_steps += 1
                    pos = buf.tell()
                    case = {"part": "writer-history", "initial_pool": list(initial), "history": list(hist)}
                    key = "C14/writer-history/%s/after-%s" % (op, prev)
                    try:
                        if op == "clear":
                            pool.clear()
                            model.clear()
                            owner_acted = True
                        elif op == "reverse":
                            pool.reverse()
                            model.reverse()
                            owner_acted = True
                        elif op == "insert":
                            pool.insert(0, "x")
                            model.insert(0, "x")
                            owner_acted = True
                        else:
                            if op == "dict":
                                strs = [WH_STRINGS[0], WH_STRINGS[1]]
                                w.write_dictionary({strs[0]: strs[1]})
                                exp = M.enc_count(1)
                            else:
                                strs = [WH_STRINGS[int(op[1])]]
                                w.write_string(strs[0])
                                exp = b""
                            for st in strs:
                                if st not in model:
                                    model.append(st)
                                exp += M.enc_count(model.index(st))
                            got = buf.getvalue()[pos:]
                            if owner_acted:
                                n_nontriv += 1
                            if got != exp or pool != model:
                                acc.violation(key, "history %r from pool %r: %s emitted %s with the pool %r; the string(s) %r are at index(es) %r, i.e. %s"
                                              % (hist, list(initial), op, got.hex(), pool, strs, [model.index(x) for x in strs], exp.hex()), case)
                                break
                            r = R(io.BytesIO(got), list(pool))
                            back = list(r.read_dictionary().items())[0] if op == "dict" else (r.read_string(),)
                            if list(back) != strs:
                                acc.violation(key, "history %r from pool %r: the bytes %s of %s read back with the pool of that moment give %r, written %r"
                                              % (hist, list(initial), got.hex(), op, back, strs), case)
                                break
                    except Exception as e:  # noqa: BLE001
                        if exc_origin(e) == "harness":
                            raise
                        acc.violation(key, "history %r from pool %r: %s raised %s(%s)" % (hist, list(initial), op, type(e).__name__, str(e)[:80]), case)
                        break
                    prev = op
    acc.count(states=n_hist, evaluations=n_hist, transitions=n_steps, nontrivial=n_nontriv)
    acc.outcome("writer-history:first=%s" % first, n_hist)


# ---------------------------------------------------------------------------------------------- parts: the two real files

def nzd_files():
    out = []
    try:
        tzdir = os.path.dirname(os.path.abspath(pyoda_time.time_zones.__file__))
        p = os.path.join(tzdir, "Tzdb.nzd")
        if os.path.exists(p):
            out.append(("Tzdb.nzd", p))
        repo = os.environ.get("VERIF_REPO") or os.path.dirname(os.path.dirname(tzdir))
        p = os.path.join(repo, "tests", "test_data", "Tzdb2013bFromNodaTime1.1.nzd")
        if os.path.exists(p):
            out.append(("Tzdb2013bFromNodaTime1.1.nzd", p))
    except Exception:  # noqa: BLE001
        pass
    return out


_PY_REENCODE = '''import io
from pyoda_time.time_zones._precalculated_date_time_zone import _PrecalculatedDateTimeZone
from pyoda_time.time_zones.io._date_time_zone_reader import _DateTimeZoneReader
from pyoda_time.time_zones.io._date_time_zone_writer import _DateTimeZoneWriter


def _varint(b, p):
    r = s = 0
    while True:
        x = b[p]; p += 1; r |= (x & 0x7F) << s; s += 7
        if x < 0x80:
            return r, p


def test_c14_reencode():
    data = open(%r, "rb").read()
    p, fields = 4, []
    while p < len(data):
        fid = data[p]; n, q = _varint(data, p + 1); fields.append((fid, data[q:q + n])); p = q + n
    pb = fields[0][1]; cnt, q = _varint(pb, 0); pool = []
    for _ in range(cnt):
        n, q = _varint(pb, q); pool.append(pb[q:q + n].decode()); q += n
    payload = fields[%d][1]
    r = _DateTimeZoneReader._ctor(io.BytesIO(payload), pool)
    zid = r.read_string(); assert r.read_byte() == 2
    zone = _PrecalculatedDateTimeZone._read(r, zid)
    out = io.BytesIO(); w = _DateTimeZoneWriter._ctor(out, list(pool))
    w.write_string(zid); w.write_byte(2); zone._write(w)
    assert out.getvalue() == payload, "zone %%s does not re-encode to the bytes it was decoded from" %% zid
'''


def part_files(acc, arg):
    name, path, lo, hi = arg
    K = Keys(acc)
    data = open(path, "rb").read()
    _version, fields = F.split(data)
    pool = F.string_pool(data, fields)
    for f in fields[lo:hi]:
        if f.fid != 1:
            continue
        pl = F.payload(data, f)
        d = M.Dec(pl, pool)
        zid, kind, body = d.zone_field()
        case = {"file": name, "field": f.index, "zone": zid}
        acc.count(states=1, transitions=3)
        try:
            rs = io.BytesIO(pl)
            r = R(rs, pool)
            rid = r.read_string()
            typ = r.read_byte()
            if kind == "fixed":
                z = _FixedDateTimeZone.read(r, rid)
                acc.count(evaluations=1)
                acc.outcome("file-zone:fixed")
                off, nm = body
                zi = z.get_zone_interval(Instant.from_unix_time_ticks(0))
                if rid != zid or typ != 1 or zi.wall_offset.seconds != off or zi.name != (nm if nm is not None else zid) or rs.tell() != len(pl):
                    K.v("file", "read", "fixed", name, lambda: "fixed zone %s decoded as offset %r name %r, the bytes say %r %r" % (zid, zi.wall_offset.seconds, zi.name, off, nm), case)
                continue
            z = _PrecalculatedDateTimeZone._read(r, rid)
            if rs.tell() != len(pl):
                K.v("file", "position", "rule-based", name, lambda: "zone %s: reader consumed %d of %d bytes" % (zid, rs.tell(), len(pl)), case)
            periods, cut, tail = body
            steps = len(periods) + (4 if tail else 0)
            w1 = walk(z, steps)
            want = []
            for j, (s, nm, wall, sav) in enumerate(periods):
                e = periods[j + 1][0] if j + 1 < len(periods) else cut
                want.append((s, e, nm, wall, sav, wall * 1000, sav * 1000))
            keep = len(periods) - (1 if tail else 0)     # the last stored period may be merged with the first tail interval
            if w1[:keep] != want[:keep]:
                bad = next(i for i in range(keep) if i >= len(w1) or w1[i] != want[i])
                K.v("file", "read", "rule-based", name, lambda: "zone %s: decoded period %d is %r, the bytes say %r" % (zid, bad, w1[bad] if bad < len(w1) else None, want[bad]), case)
            out = io.BytesIO()
            work = list(pool)
            w = W(out, work)
            w.write_string(rid)
            w.write_byte(2)
            z._write(w)
            enc = out.getvalue()
            acc.count(evaluations=2, nontrivial=1)
            acc.outcome("file-zone:rule-based/%s" % ("tail" if tail else "no-tail"))
            if not acc.samples:
                acc.sample({"file": name, "zone": zid, "payload_bytes": len(pl), "periods": len(periods), "tail": bool(tail), "reencoded_identically": enc == pl})
            if enc != pl or work != pool:
                i = next((i for i in range(min(len(enc), len(pl))) if enc[i] != pl[i]), min(len(enc), len(pl)))
                K.v("file", "reencode", "rule-based", name,
                    lambda: "zone %s (field %d): re-encoding gives %d bytes, the file has %d; first difference at payload byte %d (file %s, writer %s)"
                    % (zid, f.index, len(enc), len(pl), i, pl[i:i + 6].hex(), enc[i:i + 6].hex()), case, lambda: _PY_REENCODE % (path, f.index))
            r2 = io.BytesIO(enc)
            rr = R(r2, work)
            rr.read_string()
            rr.read_byte()
            z2 = _PrecalculatedDateTimeZone._read(rr, rid)
            w2 = walk(z2, steps)
            if w2 != w1:
                bad = next(i for i in range(max(len(w1), len(w2))) if i >= len(w1) or i >= len(w2) or w1[i] != w2[i])
                K.v("file", "roundtrip", "rule-based", name, lambda: "zone %s: after decode->encode->decode interval %d is %r, before it was %r"
                    % (zid, bad, w2[bad] if bad < len(w2) else None, w1[bad] if bad < len(w1) else None), case)
            acc.count(transitions=2 * steps)
        except Exception as e:  # noqa: BLE001
            acc.lib_exception("C14/file/%s" % name, e, case)


# ---------------------------------------------------------------------------------------------- parts: the stream dimension

class ChunkStream:
    """a readable whose read(n) returns at most the next size of a cyclic pattern (pipe / socket / decompressor style)"""

    def __init__(self, data, sizes):
        self.d = data
        self.p = 0
        self.sizes = sizes
        self.i = 0

    def read(self, n=-1):
        if n is None or n < 0:
            n = len(self.d) - self.p
        k = self.sizes[self.i % len(self.sizes)]
        self.i += 1
        b = self.d[self.p:self.p + min(n, k)]
        self.p += len(b)
        return b

    def tell(self):
        return self.p


class RawChunks(io.RawIOBase):
    """the same behaviour through the standard raw-stream protocol (RawIOBase.read may return fewer bytes than asked)"""

    def __init__(self, data, sizes):
        super().__init__()
        self.c = ChunkStream(data, sizes)

    def readable(self):
        return True

    def readinto(self, b):
        got = self.c.read(len(b))
        b[:len(got)] = got
        return len(got)

    def tell(self):
        return self.c.p


CHUNK_PATTERNS = ((1,), (2,), (3,), (5,), (7,), (1, 2, 3), (4, 1), (1 << 30,))


def _short_read_scripts():
    """(kind, [(write(w), read(r) -> value, expected value)...]) ; every script ends with a trailer so over-reads show"""
    trailer = [(lambda w: w.write_count(300), lambda r: r.read_count(), 300),
               (lambda w: w.write_string("tr"), lambda r: r.read_string(), "tr"),
               (lambda w: w.write_byte(0), lambda r: r.read_byte(), 0)]
    out = []
    for st in string_alphabet():
        if _encodable(st):
            out.append(("string", [(lambda w, st=st: w.write_string(st), lambda r: r.read_string(), st)] + trailer))
    out.append(("string", [(lambda w, st=st: w.write_string(st), lambda r: r.read_string(), st) for st in ("UTC", "", "ab", "abcde", "é", "Europe/London")] + trailer))
    for d in ({}, {"a": "b"}, {"": ""}, {"UTC": "Etc/UTC", "Zulu": "Etc/UTC", "é": "€€"}, {"key%d" % i: "v" * (i % 9) for i in range(40)}):
        out.append(("dictionary", [(lambda w, d=d: w.write_dictionary(d), lambda r: list(r.read_dictionary().items()), list(d.items()))] + trailer))
    yo = _rule_yos()[1]
    rec = _ZoneRecurrence("été-time", Offset.from_seconds(3600), mk_yo(yo), 1970, M.INT_MAX)
    out.append(("recurrence", [(lambda w: rec._write(w), lambda r: _ZoneRecurrence.read(r) == rec, True)] + trailer))
    m = map_alphabet()[0]
    mobj = mk_map(m)
    out.append(("alternating-map", [(lambda w: mobj._write(w), lambda r: _StandardDaylightAlternatingMap._read(r) == mobj, True)] + trailer))
    for ident, periods, cut, tail in itertools.islice(synthetic_zones(2), 40, 200, 23):
        z = build_zone("Syn/thetic", periods, cut, tail)
        steps = len(periods) + (3 if tail else 0)
        want = walk(z, steps)
        out.append(("zone", [(lambda w, z=z: z._write(w), lambda r, steps=steps: walk(_PrecalculatedDateTimeZone._read(r, "Syn/thetic"), steps), want)] + trailer))
    prim = [(lambda w: w.write_milliseconds(-86399970), lambda r: r.read_milliseconds(), -86399970),
            (lambda w: w.write_signed_count(-70000), lambda r: r.read_signed_count(), -70000),
            (lambda w: w.write_zone_interval_transition(None, mk_inst(1)), lambda r: inst_val(r.read_zone_interval_transition(None)), 1)]
    out.append(("primitives", prim + trailer))
    return out


def part_short_reads(acc, _arg):
    scripts = _short_read_scripts()
    for kind, script in scripts:
        buf = io.BytesIO()
        w = W(buf)
        for wr, _rd, _exp in script:
            wr(w)
        data = buf.getvalue()
        for sizes in CHUNK_PATTERNS:
            for cls in (ChunkStream, RawChunks):
                stream = cls(data, sizes)
                acc.count(states=1, evaluations=1, transitions=len(script), nontrivial=1 if sizes[0] < 8 else 0)
                acc.outcome("short-reads:%s" % kind)
                key = "C14/short-reads/%s" % kind
                case = {"part": "short-reads", "kind": kind, "bytes": data[:200], "chunk_sizes": list(sizes), "stream": cls.__name__}
                try:
                    r = R(stream)
                    for i, (_wr, rd, exp) in enumerate(script):
                        got = rd(r)
                        if got != exp:
                            acc.violation(key, "over a stream returning at most %r bytes per read, value %d of the sequence is read back as %r instead of %r"
                                          % (sizes, i, got, exp), case)
                            break
                    else:
                        if stream.tell() != len(data) or r.has_more_data:
                            acc.violation(key, "over a stream returning at most %r bytes per read the reader consumed %d of %d bytes" % (sizes, stream.tell(), len(data)), case)
                except Exception as e:  # noqa: BLE001
                    if exc_origin(e) == "harness":
                        raise
                    acc.violation(key, "over a stream returning at most %r bytes per read the reader raised %s(%s) at %s on bytes the writer produced"
                                  % (sizes, type(e).__name__, str(e)[:100], exc_site(e)), case)
    # the string-pool field of the real files: 1638 / 1696 inline strings in a row
    for name, path in nzd_files():
        data = open(path, "rb").read()
        _v, fields = F.split(data)
        pool = F.string_pool(data, fields)
        pl = F.payload(data, fields[0])
        for sizes in CHUNK_PATTERNS:
            stream = ChunkStream(pl, sizes)
            acc.count(states=1, evaluations=1, transitions=len(pool) + 1, nontrivial=1)
            acc.outcome("short-reads:file-pool")
            key = "C14/short-reads/file-pool"
            try:
                r = R(stream)
                n = r.read_count()
                got = [r.read_string() for _ in range(n)]
                if got != pool or stream.tell() != len(pl) or r.has_more_data:
                    bad = next((i for i in range(min(len(got), len(pool))) if got[i] != pool[i]), None)
                    acc.violation(key, "string pool of %s read over a stream returning at most %r bytes per read: string %r is %r instead of %r (consumed %d of %d bytes)"
                                  % (name, sizes, bad, got[bad] if bad is not None else None, pool[bad] if bad is not None else None, stream.tell(), len(pl)),
                                  {"part": "short-reads", "file": name, "chunk_sizes": list(sizes)})
            except Exception as e:  # noqa: BLE001
                if exc_origin(e) == "harness":
                    raise
                acc.violation(key, "string pool of %s over a stream returning at most %r bytes per read: reader raised %s(%s)" % (name, sizes, type(e).__name__, str(e)[:100]),
                              {"part": "short-reads", "file": name, "chunk_sizes": list(sizes)})


# ---------------------------------------------------------------------------------------------- parts: reader call histories

HIST_OPS = ("more", "byte", "count", "signed", "string", "millis")
HIST_SYMBOLS = (0x00, 0x01, 0x7F, 0x80, 0xFF)
HIST_POOL = ["p0", "p1"]


def _hist_impl(r, op):
    if op == "more":
        return r.has_more_data
    if op == "byte":
        return r.read_byte()
    if op == "count":
        return r.read_count()
    if op == "signed":
        return r.read_signed_count()
    if op == "string":
        return r.read_string()
    return r.read_milliseconds()


def _hist_model(d, op):
    if op == "more":
        return d.more()
    if op == "byte":
        return d.byte()
    if op == "count":
        return d.count()
    if op == "signed":
        return d.signed()
    if op == "string":
        return d.string()
    return d.millis()


def part_reader_histories(acc, arg):
    """every sequence of <= 3 reader calls starting with `first`, on every stream of <= max_len bytes over HIST_SYMBOLS, against a
    cursor model: has_more_data never consumes and is idempotent, every read consumes exactly its encoding, a read the bytes
    cannot satisfy raises; afterwards the remaining bytes are drained and compared."""
    first, pooled, max_len, depth = arg
    pool = HIST_POOL if pooled else None
    streams = [bytes(t) for n in range(0, max_len + 1) for t in itertools.product(HIST_SYMBOLS, repeat=n)]
    seqs = [(first,) + t for n in range(0, depth) for t in itertools.product(HIST_OPS, repeat=n)]
    n_exec = n_steps = n_nontriv = 0
    for data in streams:
        for seq in seqs:
            n_exec += 1
            r = R(io.BytesIO(data), pool)
            d = M.Dec(data, pool)
            prev = "start"
            alive = True
            for op in seq:
                n_steps += 1
                try:
                    exp = _hist_model(d, op)
                    exp_raise = False
                except M.Bad:
                    exp_raise = True
                try:
                    got = _hist_impl(r, op)
                    raised = None
                except Exception as e:  # noqa: BLE001
                    if exc_origin(e) == "harness":
                        raise
                    raised = e
                key = "C14/reader-history/%s/after-%s" % (op, prev)
                case = {"part": "reader-history", "bytes": data, "calls": list(seq), "pool": pooled}
                if exp_raise:
                    if raised is None:
                        acc.violation(key, "on bytes %s the calls %r: %s returned %r although the bytes cannot satisfy it" % (data.hex(), seq, op, got), case)
                    alive = False
                    break
                if raised is not None:
                    acc.violation(key, "on bytes %s the calls %r: %s raised %s(%s), the cursor model gives %r"
                                  % (data.hex(), seq, op, type(raised).__name__, str(raised)[:80], exp), case)
                    alive = False
                    break
                if got != exp or type(got) is not type(exp):
                    acc.violation(key, "on bytes %s the calls %r: %s returned %r, the cursor model gives %r" % (data.hex(), seq, op, got, exp), case)
                    alive = False
                    break
                prev = op
            if alive:
                if "more" in seq and len(seq) > 1:
                    n_nontriv += 1
                rest = []
                try:
                    for _ in range(len(data) + 2):
                        if not r.has_more_data:
                            break
                        rest.append(r.read_byte())
                    if bytes(rest) != data[d.p:]:
                        acc.violation("C14/reader-history/consumed/after-%s" % prev,
                                      "on bytes %s after the calls %r the reader has %s left, the cursor model %s"
                                      % (data.hex(), seq, bytes(rest).hex() or "nothing", data[d.p:].hex() or "nothing"),
                                      {"part": "reader-history", "bytes": data, "calls": list(seq), "pool": pooled})
                except Exception as e:  # noqa: BLE001
                    if exc_origin(e) == "harness":
                        raise
                    acc.violation("C14/reader-history/consumed/after-%s" % prev, "draining after %r on %s raised %s" % (seq, data.hex(), type(e).__name__),
                                  {"part": "reader-history", "bytes": data, "calls": list(seq), "pool": pooled})
    acc.count(states=n_exec, evaluations=n_exec, transitions=n_steps, nontrivial=n_nontriv)
    acc.outcome("reader-history:first=%s/%s" % (first, "pooled" if pooled else "inline"), n_exec)


# ---------------------------------------------------------------------------------------------- driver

PARTS = {
    "counts": part_counts, "signed": part_signed, "count-limit": part_reader_count_limit, "millis": part_millis,
    "offsets": part_offsets, "transitions": part_transitions_run, "documented-forms": part_documented_forms,
    "strings": part_strings, "dicts": part_dicts, "year-offsets": part_year_offsets, "recurrences": part_recurrences,
    "maps": part_maps, "zones": part_synthetic_zones, "files": part_files,
    "short-reads": part_short_reads, "reader-histories": part_reader_histories,
    "zone-neighbours": part_neighbour_zones, "writer-histories": part_writer_histories,
}


def _work(item):
    name, arg = item
    acc = Acc()
    t0 = time.process_time()
    PARTS[name](acc, arg)
    acc.note("cpu_s", round(time.process_time() - t0, 2))
    return name, acc


def build_items(tier, seed, notes):
    items = []
    dense, extra = count_values(tier)
    for a, b in chunks(0, dense, 131072):
        items.append(("counts", (a, b, [])))
    items.append(("counts", (0, 0, extra)))
    items.append(("count-limit", None))
    lim, sextra = signed_values(tier)
    for a, b in chunks(-lim, lim + 1, 131072):
        items.append(("signed", (a, b, [])))
    items.append(("signed", (0, 0, sextra)))
    if tier == "thorough":
        lo, hi = -MS_DAY + 1, MS_DAY - 1
        for a, b in chunks(lo, hi + 1, HALF_HOUR // 2):
            items.append(("millis", ("range", a, b)))
        items.append(("millis", ("list", [lo - 1, hi + 1, lo - 2, hi + 2])))
        notes["milliseconds"] = "all %d values of (-86400000, 86400000)" % (hi - lo + 1)
    else:
        shards, block = millis_quick_sets(seed)
        items.extend(("millis", s) for s in shards)
        notes["milliseconds"] = "every whole second; +-40 ms around half-hour multiples; +-2 ms around minute multiples; both ends and zero +-100000; seed block [%d, %d)" % block
    for a, b in chunks(-64800, 64801, 16384):
        items.append(("offsets", (a, b)))
    for i in range(8):
        items.append(("transitions", ("pairs", i, 8)))
    if tier == "thorough":
        for a, b in chunks(0, (1 << 21) + 1024, 65536):
            items.append(("transitions", ("hours", a, b)))
        notes["transition_hour_counts"] = "every hour count 0..2^21+1023 after 1900-01-01"
    else:
        for a, b in ((0, 8192), ((1 << 14) - 2048, (1 << 14) + 2048), ((1 << 21) - 4096, (1 << 21) + 1024)):
            items.append(("transitions", ("hours", a, b)))
        notes["transition_hour_counts"] = "hour counts [0,8192), 2^14+-2048, [2^21-4096, 2^21+1024) after 1900-01-01"
    items.append(("documented-forms", None))
    items.append(("strings", None))
    items.append(("dicts", None))
    items.append(("short-reads", None))
    for op in WH_OPS:
        items.append(("writer-histories", (op, 5 if tier == "quick" else 6)))
    for p in (False, True):
        items.append(("zone-neighbours", (4 if tier == "quick" else 5, p)))
    for op in HIST_OPS:
        items.append(("reader-histories", (op, False, 4, 3 if tier == "quick" else 4)))
        items.append(("reader-histories", (op, True, 3, 3 if tier == "quick" else 4)))
    for mode in (0, 1, 2):
        for dow in range(8):
            items.append(("year-offsets", (mode, dow)))
    for p in (False, True):
        for a in range(0, len(_rule_yos()), 4):
            items.append(("recurrences", (p, a, a + 4)))
        items.append(("maps", p))
    depth = 3 if tier == "quick" else 4
    nsh = 8 if tier == "quick" else 32
    for s in range(nsh):
        items.append(("zones", (depth, s, nsh, s % 2 == 1)))
    notes["synthetic_zone_depth"] = depth
    files = nzd_files()
    for name, path in files:
        data = open(path, "rb").read()
        _v, fields = F.split(data)
        for a, b in chunks(0, len(fields), 32):
            items.append(("files", (name, path, a, b)))
    notes["files"] = [n for n, _ in files]
    return items, files


def run(ctx):
    ctx.rule = ("a value is non-trivial when its documented encoding needs a decision beyond the one-byte form (multi-byte varint, "
                "minute/second/millisecond form, hours or minutes transition form, negative day-of-month, composite value); "
                "outcomes are the encoding classes actually hit")
    ctx.assumptions = [
        "transition instants are whole ticks (the raw form stores a 64-bit tick count); yearly-rule times of day are whole milliseconds",
        "recurrence from-years are Int32.MinValue or >= 1 (the format documents that years <= 0 are stored as 'start of time')",
        "the two .nzd files in the repository are outputs of the reference Noda Time compiler; the model re-encodes all 788 of their "
        "zone fields byte-identically, which is what 'documented compact encoding' is calibrated against",
        "out-of-domain values (count -1 / 2^31, +-86400000 ms, transitions moving backwards) may be rejected by the writer; if accepted they must round-trip",
        "a string pool is a plain list shared with its owner, who may change it between writes: each write encodes the index the "
        "string has at that moment (writer histories bounded to 5, thorough 6, operations)",
        "streams may return fewer bytes than asked (at least one unless at the end): the read side is also run over such streams; "
        "reader call histories are bounded to 3 (thorough: 4) calls on streams of <= 4 bytes over {00, 01, 7f, 80, ff}",
    ]
    if _BIND_ERROR:
        ctx.degrade("codec classes not reachable (%s): nothing checked" % _BIND_ERROR)
        return
    # calibration of the model against the real files (independent of the library)
    cal = Acc()
    for name, path in nzd_files():
        data = open(path, "rb").read()
        _v, fields = F.split(data)
        pool = F.string_pool(data, fields)
        bad = 0
        n = 0
        for f in fields:
            if f.fid != 1:
                continue
            pl = F.payload(data, f)
            zid, kind, body = M.Dec(pl, pool).zone_field()
            if kind == "precalc":
                enc = M.enc_string(zid, pool) + b"\x02" + M.enc_precalc(*body, pool=pool)
            else:
                enc = M.enc_string(zid, pool) + b"\x01" + M.enc_offset(body[0]) + (M.enc_string(body[1], pool) if body[1] is not None else b"")
            n += 1
            bad += enc != pl
        cal.note("model_calibration_" + name, "%d of %d zone fields re-encoded byte-identically by the model" % (n - bad, n))
        if bad:
            ctx.degrade("model does not reproduce %d zone fields of %s: canonical-bytes laws for that file are not meaningful" % (bad, name))
    ctx.merge_part("calibration", cal)
    notes = {}
    items, files = build_items(ctx.tier, ctx.seed, notes)
    if len(files) < 2:
        ctx.degrade("only %d of the 2 database files found" % len(files))
    only = getattr(ctx, "only", None)
    if only:
        items = [it for it in items if it[0] in only]
    # heavy shards first (better packing); result order stays deterministic because pmap is ordered
    rot = ctx.seed % max(1, len(items))
    items = items[rot:] + items[:rot]
    cpu = {}
    for name, acc in pmap(_work, items):
        cpu[name] = cpu.get(name, 0) + acc.notes.pop("cpu_s", 0)
        ctx.merge_part(name, acc)
    ctx.note("cpu_seconds_by_part", {k: round(v, 1) for k, v in cpu.items()})
    for k, v in notes.items():
        ctx.note(k, v)
    complete = ["offsets (all 129601 second values)", "yearly rules (mode x day-of-week 0-7 x advance x add-day x month x 10 days-of-month x 10 times)",
                "every zone field of the database files found"]
    if ctx.tier == "thorough":
        complete += ["milliseconds (all 172799999 values)", "counts 0..2^21+1023", "signed counts -2^20..2^20", "hour-count transitions 0..2^21+1023"]
    ctx.note("sub_spaces_enumerated_completely", complete)
    # counts / signed counts / transition pairs / strings / composite values are bounded alphabets, not whole domains
    ctx.exhaustive = False


def replay(rec):
    case = rec.get("case") or {}
    acc = Acc()
    part = case.get("part")
    v = case.get("value")
    if part == "milliseconds":
        part_millis(acc, ("list", [v]))
    elif part == "count":
        part_counts(acc, (0, 0, [v]))
    elif part == "signed-count":
        part_signed(acc, (0, 0, [v]))
    elif part == "offset":
        part_offsets(acc, (v, v + 1))
    elif part == "transition":
        _sweep_transitions(acc, [(case.get("previous"), case.get("value"))])
    elif part == "writer-history":
        part_writer_histories(acc, (case["history"][0], len(case["history"])))
    elif part == "reader-history":
        part_reader_histories(acc, (case["calls"][0], bool(case.get("pool")), 4, len(case["calls"])))
    elif part == "short-reads":
        part_short_reads(acc, None)
    elif isinstance(case.get("zone"), dict) and "pattern" in case["zone"]:
        part_neighbour_zones(acc, (len(case["zone"]["pattern"]), bool(case.get("pool"))))
    elif "file" in case:
        for name, path in nzd_files():
            if name == case["file"]:
                part_files(acc, (name, path, case["field"], case["field"] + 1))
    else:
        print("no specific replay for this case; re-run ./run C14")
        return False
    for k, val in acc.violations.items():
        print(k, val[0])
    return bool(acc.violations)
