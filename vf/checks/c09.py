"""C09 - date arithmetic and Period.between obey their stated laws in every calendar.

explore engine; oracle = models/periodref.py (python ints on the day-number line, a linear month index built from the
calendar's public tables) - the real pyoda_time code is executed for every case.

parts
  add-days        every day of the alphabet years x amount alphabet (days, weeks): result day number == start + n(*7) and the
                  result is the canonical date of that day number, or an exception iff the calendar range is left.
  add-months      alphabet dates x amount alphabet: plus_months lands on linear month index + n, plus_years on year + n, day kept or
                  adjusted by the documented rule, canonical valid date, exception iff the range is left; YearMonth.plus_months.
  between-date    ALL ordered pairs of the between alphabet x all 15 date-unit subsets.
  between-datetime all ordered pairs of a small date-time alphabet x all 1023 unit subsets.
  between-time    all ordered pairs of the time alphabet x all 63 time-unit subsets.
  between-yearmonth all ordered pairs of the year-month alphabet x {YEARS, MONTHS, YEARS|MONTHS}.
  (apply-period also drives the adjuster routes: DateAdjusters.add_period(p) called directly and through with_date_adjuster of LocalDate, LocalDateTime,
                  OffsetDate and OffsetDateTime == date + period; add_period refuses periods with a time component; day_of_month / month / start / end of month.)
  apply-period    x + p, x.plus(p), T.add(x, p), x - p, x.minus(p), T.subtract(x, p) for LocalDate / LocalDateTime / LocalTime over a period alphabet with
                  every combination of non-zero date fields (mixed signs) and time parts crossing midnight == the documented field-by-field model
                  (years, months, weeks, days; the day carried from the time part rides on the days step), at month ends, leap days and firsts of month.
  cross-calendar  histories inside one process: the same (y, m, d) pairs asked calendar after calendar (several orders), answers vs day numbers.
  period-algebra  product alphabet of period components: normalize / to_duration preserve the fixed-length total,
                  to_builder().build() is the identity.
between laws: only requested units non-zero; r = start + p is a valid value between start and end (inclusive); r == end when the
finest unit of the value type (days / nanoseconds) is requested, |end - r| < finest requested fixed-length unit otherwise (ticks:
< 100 ns); all components share the sign of end - start; for a single unit n, start + (n +- 1) unit overshoots end (or leaves the range).
"""
from __future__ import annotations

import itertools

from pyoda_time import (CalendarSystem, DateAdjusters, LocalDate, Offset, LocalDateTime, LocalTime, Period, PeriodBuilder, PeriodUnits, YearMonth)

from vf.core.evidence import Acc, exc_origin, exc_site
from vf.core.par import pmap
from vf.models import cloneref as cr
from vf.models import dateline as dl
from vf.models import periodref as pr

LEVEL = "model_checking"
U = PeriodUnits
UNIT = {"years": U.YEARS, "months": U.MONTHS, "weeks": U.WEEKS, "days": U.DAYS, "hours": U.HOURS, "minutes": U.MINUTES,
        "seconds": U.SECONDS, "milliseconds": U.MILLISECONDS, "ticks": U.TICKS, "nanoseconds": U.NANOSECONDS}
SHORT = {"years": "Y", "months": "M", "weeks": "W", "days": "D", "hours": "h", "minutes": "min", "seconds": "s",
         "milliseconds": "ms", "ticks": "t", "nanoseconds": "ns"}
NSDAY = pr.NS["days"]


def subsets(fields):
    out = []
    for r in range(1, len(fields) + 1):
        for c in itertools.combinations(fields, r):
            mask = U.NONE
            for f in c:
                mask |= UNIT[f]
            out.append((mask, c))
    return out


def long_label(names):
    return "+".join(n.upper() for n in names)


def comps(p):
    return {f: getattr(p, f) for f in pr.FIELDS}


def pstr(p):
    c = comps(p)
    return "P(" + ",".join("%s=%d" % (SHORT[f], v) for f, v in c.items() if v) + ")"


_MODELS = {}


def model_of(cal):
    m = _MODELS.get(cal.id)
    if m is None:
        m = _MODELS[cal.id] = pr.CalModel(cal, dl.month_order)
    return m


def canonical(r, cal):
    """True when r is exactly the valid date its own day number denotes (validity without trusting r's fields)."""
    n = dl.daynum(r)
    lo, hi = dl.cal_range(cal)
    if not (lo <= n <= hi):
        return False
    return dl.ymd(dl.from_daynum(n, cal)) == dl.ymd(r) and r.calendar == cal


# ================================================================================================ alphabets
def year_alphabet(cal, tier, seed=0):
    lo, hi = cal.min_year, cal.max_year
    mid = (lo + hi) // 2
    L = dl.leap_year_near(cal, mid) or mid
    ys = {lo, hi, L - 1, L, L + 1}
    special = (0, 1, 172, 2000)
    if tier == "thorough":
        special += (-1, 4, 100, 171, 173, 1400, 1582, 1900, 2024, 5784)
        ys |= set(range(mid - 20, mid + 21)) | set(range(lo, lo + 10)) | set(range(hi - 9, hi + 1))
    else:
        # seed positions one extra block of 2 consecutive years; never decides the verdict
        off = lo + (seed * 104729) % max(1, hi - lo - 3)
        ys |= {off, off + 1}
    for y in special:
        if lo <= y <= hi:
            ys.add(y)
    return sorted(y for y in ys if lo <= y <= hi)


DAY_AMOUNTS_CORE = [1, -1, 7, 30, -30, 299, -299, 300, -300, 301, -301, 366, -366]   # applied to EVERY day of the alphabet years
DAY_AMOUNTS = [0, 1, -1, 2, -2, 6, 7, -7, 18, 19, -19, 28, 29, 30, -30, 31, -31, 59, 60, -60, 299, -299, 300, -300, 301, -301,
               354, 355, -355, 365, 366, -365, -366, 1000, -1000, 10**4, -10**4, 146097, -146097]
WEEK_AMOUNTS = [0, 1, -1, 4, -4, 42, -42, 43, -43, 52, 53, -53, 1000, -1000]
MONTH_AMOUNTS = sorted({s * a for a in (0, 1, 2, 3, 6, 11, 12, 13, 18, 19, 20, 24, 25, 36, 37, 38, 39, 57, 234, 235, 236, 1000, 10**4, 3 * 10**5) for s in (1, -1)})
YEAR_AMOUNTS = sorted({s * a for a in (0, 1, 2, 3, 4, 5, 7, 8, 11, 19, 30, 33, 100, 400, 1000, 3 * 10**4) for s in (1, -1)})


def day_picks(dim):
    return sorted({d for d in (1, 2, 19, 20, 28, 29, 30, 31, dim - 1, dim) if 1 <= d <= dim})


# ================================================================================================ part: add-days
def w_add_days(job):
    cid, tier, years = job
    acc = Acc()
    cal = CalendarSystem.for_id(cid)
    lo, hi = dl.cal_range(cal)
    P = "C09/%s" % cid
    landing = set()
    outc = {}
    for y in years:
        ys, ye = dl.year_start(cal, y), dl.year_end(cal, y)
        for n0 in range(ys, ye + 1):
            d = dl.from_daynum(n0, cal)
            dy, dm = d.year, d.month
            acc.count(states=1)
            edge = [hi - n0, hi - n0 + 1, lo - n0, lo - n0 - 1]
            full = tier == "thorough" or d.day in (1, 2, 15) or n0 in (ys, ye) or d.day >= dl_dim(cal, dy, dm) - 1
            for unit, name, amounts in ((1, "plus_days", (DAY_AMOUNTS if full else DAY_AMOUNTS_CORE) + edge), (7, "plus_weeks", WEEK_AMOUNTS + [(hi - n0) // 7, (hi - n0) // 7 + 1, -((n0 - lo) // 7), -((n0 - lo) // 7) - 1])):
                if unit == 7 and d.day not in (1, 2, 15) and n0 not in (ys, ye):
                    continue       # weeks: a thinner start set (same code path as days with days_to_add = 7n)
                fn = getattr(d, name)
                for n in amounts:
                    exp = n0 + n * unit
                    inside = lo <= exp <= hi
                    acc.count(transitions=1, evaluations=1)
                    path = "fast" if -300 < n * unit < 300 else "slow"
                    try:
                        r = fn(n)
                    except Exception as e:  # noqa: BLE001
                        if not inside:
                            acc.outcome("%s:raises-outside-range" % name)
                            continue
                        _add_exc(acc, "%s/%s" % (P, name), e, {"kind": "add-days", "calendar": cid, "start": dl.ymd(d), "op": name, "n": n},
                                 "%s-%s" % (path, _landing(cal, d, exp)), py=_py_add(cid, dl.ymd(d), name, n, dl.ymd(dl.from_daynum(exp, cal))))
                        continue
                    if not inside:
                        case = {"kind": "add-days", "calendar": cid, "start": dl.ymd(d), "op": name, "n": n, "got": _safe_ymd(r)}
                        acc.violation("%s/%s/no-raise-outside-range/%s-%s" % (P, name, path, "before-min" if exp < lo else "after-max"),
                                      "%s.%s(%d) leaves the calendar range (day %d not in [%d, %d]) but returned %s" % (dl.ymd(d), name, n, exp, lo, hi, _safe_ymd(r)), case,
                                      py=_py_add(cid, dl.ymd(d), name, n, None))
                        continue
                    t = dl.from_daynum(exp, cal)       # the canonical date of the expected day number
                    land = _landing_t(cal, dy, dm, t, exp)
                    if r == t:
                        key = (name, path, land)
                        if key not in landing:
                            landing.add(key)
                        outc[key] = outc.get(key, 0) + 1
                        continue
                    try:
                        got = dl.daynum(r)
                    except Exception:  # noqa: BLE001
                        got = None
                    case = {"kind": "add-days", "calendar": cid, "start": dl.ymd(d), "op": name, "n": n, "got": _safe_ymd(r)}
                    law = "day-line" if got != exp else "invalid-result"
                    acc.violation("%s/%s/%s/%s-%s" % (P, name, law, path, land),
                                  "%s.%s(%d) gives %s (day number %s), expected day number %d = %s" % (dl.ymd(d), name, n, _safe_ymd(r), got, exp, dl.ymd(t)),
                                  case, py=_py_add(cid, dl.ymd(d), name, n, dl.ymd(t)))
            # operator forms on a thin start set
            if d.day == 1 or n0 in (ys, ye):
                for n in (1, -1, 30, -299, 300, 366):
                    exp = n0 + n
                    if not (lo <= exp <= hi) or not (lo <= n0 - n <= hi):
                        continue
                    acc.count(transitions=4, evaluations=4)
                    try:
                        a, b = d + Period.from_days(n), d - Period.from_days(n)
                        c, e2 = d.plus(Period.from_weeks(n)) if lo <= n0 + 7 * n <= hi else None, LocalDate.add(d, Period.from_days(n))
                        if dl.daynum(a) != exp or dl.daynum(b) != n0 - n or dl.daynum(e2) != exp or (c is not None and dl.daynum(c) != n0 + 7 * n):
                            acc.violation("%s/period-operators/day-line/%s" % (P, "fast" if abs(n) < 300 else "slow"), "%s +/- Period.from_days(%d) off the day line" % (dl.ymd(d), n),
                                          {"kind": "add-days", "calendar": cid, "start": dl.ymd(d), "op": "operators", "n": n})
                    except Exception as e:  # noqa: BLE001
                        _add_exc(acc, "%s/period-operators" % P, e, {"kind": "add-days", "calendar": cid, "start": dl.ymd(d), "op": "operators", "n": n})
        if len(acc.samples) < 2:
            acc.sample({"part": "add-days", "calendar": cid, "year": y, "days": ye - ys + 1, "amounts_days": len(DAY_AMOUNTS) + 4, "amounts_weeks": len(WEEK_AMOUNTS) + 4})
    for (name, path, land), k in outc.items():
        acc.outcome("%s:%s-%s" % (name, path, land), k)
    acc.note("classes", sorted("%s/%s/%s/%s" % ((cid,) + c) for c in landing))
    return acc


_DIM = {}


def dl_dim(cal, y, m):
    k = (cal.id, y, m)
    v = _DIM.get(k)
    if v is None:
        v = _DIM[k] = cal.get_days_in_month(y, m)
    return v


def _landing_t(cal, dy, dm, t, exp):
    ty = t.year
    if ty == dy:
        return "same-month" if t.month == dm else "same-year"
    tag = "prev-year" if ty == dy - 1 else "next-year" if ty == dy + 1 else "far-year"
    return tag + ("-first-day" if exp == dl.year_start(cal, ty) else "-last-day" if exp == dl.year_end(cal, ty) else "")


def _landing(cal, d, exp):
    lo, hi = dl.cal_range(cal)
    if not (lo <= exp <= hi):
        return "outside"
    t = dl.from_daynum(exp, cal)
    if (t.year, t.month) == (d.year, d.month):
        return "same-month"
    if t.year == d.year:
        return "same-year"
    tag = "prev-year" if t.year == d.year - 1 else "next-year" if t.year == d.year + 1 else "far-year"
    ys, ye = dl.year_start(cal, t.year), dl.year_end(cal, t.year)
    return tag + ("-first-day" if exp == ys else "-last-day" if exp == ye else "")


def _safe_ymd(r):
    try:
        return dl.ymd(r)
    except Exception:  # noqa: BLE001
        return "<unreadable>"


def _add_exc(acc, prefix, e, case, cls=None, py=None):
    """library exception on a valid input: key <prefix>/raises-<Type>/<input class> (harness faults are re-raised)."""
    if exc_origin(e) == "harness":
        raise e
    key = "%s/raises-%s" % (prefix, type(e).__name__) + ("/%s" % cls if cls else "")
    acc.violation(key, "raised %s: %s [%s]" % (type(e).__name__, str(e)[:160], exc_site(e)), case, py=py)


def _py_add(cid, start, op, n, expect):
    body = ("from pyoda_time import CalendarSystem, LocalDate\n\n\ndef test_replay():\n"
            "    cal = CalendarSystem.for_id(%r)\n    d = LocalDate(%d, %d, %d, cal)\n" % ((cid,) + tuple(start)))
    if expect is None:
        return body + "    import pytest\n    with pytest.raises(Exception):\n        d.%s(%d)\n" % (op, n)
    return body + "    r = d.%s(%d)\n    assert (r.year, r.month, r.day) == %r\n    assert LocalDate(r.year, r.month, r.day, cal) == r\n" % (op, n, tuple(expect))


# ================================================================================================ part: add-months / years
def _dayclass(cm, y, m, d):
    if cm.family == "badi" and m == 18 and d > 19:
        return "ayyam-i-ha"
    return "d%d" % d if d >= 29 else "d<=28"


def _month_class(cm, y, m, d, n):
    """input class of a month move: direction, target month number, same/later/earlier year, day class."""
    try:
        ty, tm = cm.at(cm.index(y, m) + n)
    except pr.OutOfRange:
        return "%s-out-of-range-%s" % ("fwd" if n > 0 else "bwd", _dayclass(cm, y, m, d))
    rel = "same-year" if ty == y else "later-year" if ty > y else "earlier-year"
    return "%s-tm%d-%s-%s" % ("fwd" if n > 0 else "bwd" if n < 0 else "zero", tm, rel, _dayclass(cm, y, m, d))


def _year_class(cm, cal, y, m, d, n):
    ty = y + n
    if not (cal.min_year <= ty <= cal.max_year):
        return "%s-out-of-range" % ("fwd" if n > 0 else "bwd")
    lp = "%s-to-%s" % ("leap" if cal.is_leap_year(y) else "common", "leap" if cal.is_leap_year(ty) else "common")
    return "%s-%s-m%d-%s" % ("fwd" if n > 0 else "bwd" if n < 0 else "zero", lp, m, _dayclass(cm, y, m, d))


def check_move(acc, cal, cm, y, m, d, op, n, start=None):
    """one plus_months / plus_years execution against the month-line model."""
    cid = cal.id
    if start is None:
        start = LocalDate(y, m, d, cal)
    acc.count(transitions=1, evaluations=1)
    try:
        exp = (cm.add_months if op == "plus_months" else cm.add_years)(y, m, d, n)
    except pr.OutOfRange:
        exp = None
    cls = _month_class(cm, y, m, d, n) if op == "plus_months" else _year_class(cm, cal, y, m, d, n)
    P = "C09/%s/%s" % (cid, op)
    try:
        r = getattr(start, op)(n)
    except Exception as e:  # noqa: BLE001
        if exp is None:
            acc.outcome("%s:raises-outside-range" % op)
            return None
        _add_exc(acc, P, e, {"kind": "move", "calendar": cid, "start": [y, m, d], "op": op, "n": n, "expected": sorted(exp)}, cls,
                 py=_py_add(cid, (y, m, d), op, n, sorted(exp)[0]))
        return None
    if exp is not None:
        # fast accept: the fields are one of the model's answers and the value equals the validated construction of them
        try:
            got = (r.year, r.month, r.day)
            if got in exp and r == LocalDate(got[0], got[1], got[2], cal):
                acc.outcome("%s:%s" % (op, "day-adjusted" if got[2] != d else "day-kept"))
                return cls
        except Exception as e:  # noqa: BLE001
            if exc_origin(e) == "harness":
                raise
    case = {"kind": "move", "calendar": cid, "start": [y, m, d], "op": op, "n": n, "expected": None if exp is None else sorted(exp), "got": _safe_ymd(r)}
    if exp is None:
        acc.violation("%s/no-raise-outside-range/%s" % (P, cls), "%s.%s(%d) leaves the calendar range but returned %s" % ((y, m, d), op, n, _safe_ymd(r)), case,
                      py=_py_add(cid, (y, m, d), op, n, None))
        return None
    try:
        valid = canonical(r, cal)
    except Exception:  # noqa: BLE001
        valid = False
    one = sorted(exp)[0]
    if not valid:
        acc.violation("%s/invalid-result/%s" % (P, cls), "%s.%s(%d) gives %s which is not a valid date of the calendar (model: %s)" % ((y, m, d), op, n, _safe_ymd(r), sorted(exp)),
                      case, py=_py_add(cid, (y, m, d), op, n, one))
        return None
    got = dl.ymd(r)
    law = "wrong-month" if got[:2] not in {e[:2] for e in exp} else "wrong-day"
    if op == "plus_years" and got[0] != y + n:
        law = "wrong-year"
    acc.violation("%s/%s/%s" % (P, law, cls), "%s.%s(%d) gives %s, model (linear month index / documented day rule): %s" % ((y, m, d), op, n, got, sorted(exp)),
                  case, py=_py_add(cid, (y, m, d), op, n, one))
    return None


def w_add_months(job):
    cid, tier, years = job
    acc = Acc()
    cal = CalendarSystem.for_id(cid)
    cm = model_of(cal)
    classes = set()
    for y in years:
        for m in range(1, cal.get_months_in_year(y) + 1):
            dim = cal.get_days_in_month(y, m)
            idx = cm.index(y, m)
            days = range(1, dim + 1) if tier == "thorough" else day_picks(dim)
            m_amounts = MONTH_AMOUNTS + [-idx, -idx - 1, cm.total - 1 - idx, cm.total - idx]
            y_amounts = YEAR_AMOUNTS + [cal.min_year - y, cal.min_year - y - 1, cal.max_year - y, cal.max_year - y + 1]
            for d in days:
                acc.count(states=1)
                start = LocalDate(y, m, d, cal)
                for n in m_amounts:
                    c = check_move(acc, cal, cm, y, m, d, "plus_months", n, start)
                    if c:
                        classes.add(("plus_months", c))
                for n in y_amounts:
                    c = check_move(acc, cal, cm, y, m, d, "plus_years", n, start)
                    if c:
                        classes.add(("plus_years", c))
            # YearMonth.plus_months
            for n in m_amounts:
                acc.count(transitions=1, evaluations=1)
                try:
                    ty, tm = cm.at(idx + n)
                    exp = (ty, tm)
                except pr.OutOfRange:
                    exp = None
                cls = _month_class(cm, y, m, 1, n)
                case = {"kind": "ym-move", "calendar": cid, "start": [y, m], "n": n, "expected": exp}
                try:
                    r = YearMonth(year=y, month=m, calendar=cal).plus_months(n)
                except Exception as e:  # noqa: BLE001
                    if exp is not None:
                        _add_exc(acc, "C09/%s/yearmonth.plus_months" % cid, e, case, cls)
                    continue
                if exp is None:
                    acc.violation("C09/%s/yearmonth.plus_months/no-raise-outside-range/%s" % (cid, cls), "YearMonth(%d,%d).plus_months(%d) leaves the range but returned %s-%s" % (y, m, n, r.year, r.month), case)
                elif (r.year, r.month) != exp or r.calendar != cal:
                    acc.violation("C09/%s/yearmonth.plus_months/wrong-month/%s" % (cid, cls), "YearMonth(%d,%d).plus_months(%d) gives %d-%d, linear month index says %d-%d" % (y, m, n, r.year, r.month, exp[0], exp[1]), case)
        if len(acc.samples) < 2:
            acc.sample({"part": "add-months", "calendar": cid, "year": y, "month_amounts": len(MONTH_AMOUNTS) + 4, "year_amounts": len(YEAR_AMOUNTS) + 4,
                        "days_per_month": "all" if tier == "thorough" else "picks 1,2,19,20,28..31,dim-1,dim"})
    acc.note("classes", sorted("%s/%s/%s" % ((cid,) + c) for c in classes))
    return acc


# ================================================================================================ part: between (dates)
def between_alphabet(cal, tier):
    """date alphabet: range ends, and in a leap year L and L+1 the months around every seam that matters."""
    lo, hi = cal.min_year, cal.max_year
    A = set()

    def add(y, m, ds):
        if not (lo <= y <= hi) or not (1 <= m <= cal.get_months_in_year(y)):
            return
        dim = cal.get_days_in_month(y, m)
        for d in ds:
            d = dim + d if d <= 0 else d
            if 1 <= d <= dim:
                A.add((y, m, d))

    mid = (lo + hi) // 2
    L = dl.leap_year_near(cal, mid) or mid
    # range ends: first two / last two months of the calendar (chronological order)
    o = dl.month_order(cal, lo)
    add(lo, o[0], (1, 2, 0) if tier == "quick" else (1, 2, 15, 29, -1, 0))
    add(lo, o[1], (1, 0))
    add(lo, o[-1], (0,))
    o = dl.month_order(cal, hi)
    add(hi, o[-1], (1, -1, 0) if tier == "quick" else (1, 2, 15, 29, -1, 0))
    add(hi, o[-2], (1, 0))
    add(hi, o[0], (1,))
    years = (L, L + 1) if tier == "quick" else (L - 1, L, L + 1, L + 4)
    for y in years:
        if not (lo <= y <= hi):
            continue
        n = cal.get_months_in_year(y)
        months = {1, 2, 6, 7, n - 1, n}
        # months whose length depends on leap-ness (the seams of the leap rule), and their successors
        for m in range(1, n + 1):
            other = y + 1 if y + 1 <= hi else y - 1
            if m > cal.get_months_in_year(other) or cal.get_days_in_month(y, m) != cal.get_days_in_month(other, m):
                months |= {m, min(n, m + 1)}
        if tier == "thorough":
            months = set(range(1, n + 1))
        for m in sorted(months):
            picks = (1, -1, 0) if tier == "quick" else (1, 2, 15, -1, 0)
            add(y, m, picks)
            if cal.get_days_in_month(y, m) >= 30:
                add(y, m, (29, 30))
            if cal.id == "Badi" and m == 18:
                add(y, m, (19, 20))
    return sorted(A, key=lambda t: (dl.daynum(LocalDate(t[0], t[1], t[2], cal))))


DATE_SUBSETS = subsets(pr.DATE_FIELDS)


def _key(cm, t):
    return (cm.index(t[0], t[1]), t[2])


def _model_walk(cm, s, e, names):
    """Replays the documented largest-unit-first walk on the model: returns (s1, diff, n) where s1 is the start after the
    optional year step, diff the linear month-index difference s1 -> e and n the maximal month count; None when the model
    has no single answer (Badi Ayyam-i-Ha starts) or leaves the range."""
    try:
        ke = _key(cm, e)
        fwd = _key(cm, s) <= ke
        s1 = s
        if "years" in names:
            dy = e[0] - s[0]
            c = cm.add_years(s[0], s[1], s[2], dy)
            if len(c) != 1:
                return None
            c = next(iter(c))
            if (fwd and _key(cm, c) > ke) or (not fwd and _key(cm, c) < ke):
                dy += -1 if fwd else 1
                c = next(iter(cm.add_years(s[0], s[1], s[2], dy)))
            s1 = c
        if "months" not in names:
            return s1, None, None
        diff = ke[0] - cm.index(s1[0], s1[1])
        c = cm.add_months(s1[0], s1[1], s1[2], diff)
        if len(c) != 1:
            return s1, diff, "either"
        c = next(iter(c))
        n = diff
        if (fwd and _key(cm, c) > ke) or (not fwd and _key(cm, c) < ke):
            n += -1 if fwd else 1
        return s1, diff, n
    except pr.OutOfRange:
        return None


def _between_class(cm, cal, s, e, names):
    """input class of a (start, end, units) case; only public tables and the month-line model are used."""
    dirn, span, flags = _between_flags(cm, cal, s, e, names)
    sig = [f for f in flags if f != "start-day-clamps"]
    if sig:       # an edge class: the flags identify the input class, span / clamping are left to the case record
        return "%s-%s" % (dirn, "+".join(sig))
    return "%s-%s-%s" % (dirn, span, "+".join(flags) if flags else "plain")


def _between_flags(cm, cal, s, e, names):
    st, et = dl.ymd(s), dl.ymd(e)
    ks, ke = _key(cm, st), _key(cm, et)
    dirn = "fwd" if ke > ks else "bwd" if ke < ks else "same"
    span = "same-month" if ks[0] == ke[0] else "same-year" if s.year == e.year else "adjacent-year" if abs(s.year - e.year) == 1 else "multi-year"
    flags = []
    if "months" in names and dirn != "same":
        walk = _model_walk(cm, st, et, names)
        s1 = walk[0] if walk else st
        dim = cal.get_days_in_month(e.year, e.month)
        landing = min(s1[2], dim)
        # an amount of months that strictly passes `end` does not exist inside the calendar range
        same1 = _key(cm, s1) == ke          # the year step already reached end: the month walk is trivial
        if same1:
            # the month walk starts at end itself; the Hebrew search still probes one month past it
            if ke[0] == cm.total - 1:
                flags.append("no-month-after-end-in-range")
        elif dirn == "bwd" and ke[0] == 0 and landing >= e.day:
            flags.append("no-month-before-end-in-range")
        elif dirn == "fwd" and ke[0] == cm.total - 1 and landing <= e.day:
            flags.append("no-month-after-end-in-range")
        if cm.family == "badi":
            hit = False
            if walk and walk[1] is not None:
                i1 = cm.index(s1[0], s1[1])
                ks_ = {walk[1], walk[1] - 1} if walk[2] == "either" else ({walk[1], walk[2]} - {None})
                for k in ks_:
                    if k > 0 and 0 <= i1 + k < cm.total:
                        ty, tm = cm.at(i1 + k)
                        hit = hit or (tm == 19 and ty > s1[0])
            if hit:
                flags.append("month-walk-lands-on-month-19-of-later-year")
    if cm.family == "badi":
        if s.month == 18 and s.day > 19:
            flags.append("start-in-ayyam-i-ha")
        if e.month == 18 and e.day > 19:
            flags.append("end-in-ayyam-i-ha")
    if s.day > cal.get_days_in_month(e.year, e.month):
        flags.append("start-day-clamps")
    return dirn, span, flags


def _unit_step(s, f, n):
    return getattr(s, "plus_" + f)(n)


def check_between_date(acc, cal, cm, s, e, mask, names):
    cid = cal.id
    label = long_label(names)
    ds, de = dl.daynum(s), dl.daynum(e)
    sg = pr.sign(de - ds)
    cls = _between_class(cm, cal, s, e, names)
    P = "C09/%s/between/%s" % (cid, label)
    case = {"kind": "between-date", "calendar": cid, "start": dl.ymd(s), "end": dl.ymd(e), "units": list(names)}
    acc.count(transitions=1, evaluations=1)
    try:
        p = Period.between(s, e, mask)
    except Exception as ex:  # noqa: BLE001
        if exc_origin(ex) == "harness":
            raise
        acc.violation("%s/raises-%s/%s" % (P, type(ex).__name__, cls), "Period.between(%s, %s, %s) raised %s: %s [%s]" % (dl.ymd(s), dl.ymd(e), label, type(ex).__name__, str(ex)[:120], exc_site(ex)),
                      case, py=_py_between(cid, dl.ymd(s), dl.ymd(e), names))
        acc.outcome("between-date:raised")
        return cls, False
    c = comps(p)
    case["period"] = {k: v for k, v in c.items() if v}
    what = "Period.between(%s, %s, %s) = %s" % (dl.ymd(s), dl.ymd(e), label, pstr(p))
    py = _py_between(cid, dl.ymd(s), dl.ymd(e), names)
    extra = [f for f in pr.FIELDS if c[f] and f not in names]
    if extra:
        acc.violation("%s/units-not-requested/%s" % (P, cls), what + ": component(s) %s not among the requested units" % extra, case, py=py)
        return cls, False
    if any(v * sg < 0 for v in c.values()) or (sg == 0 and any(c.values())):
        acc.violation("%s/sign/%s" % (P, cls), what + ": components do not share the sign of end - start (%+d)" % sg, case, py=py)
        return cls, False
    try:
        r = s + p
        dr = dl.daynum(r)
        valid = canonical(r, cal)
    except Exception as ex:  # noqa: BLE001
        if exc_origin(ex) == "harness":
            raise
        acc.violation("%s/start-plus-period-raises-%s/%s" % (P, type(ex).__name__, cls), what + ": start + period raised %s: %s" % (type(ex).__name__, str(ex)[:120]), case, py=py)
        return cls, False
    if not valid:
        acc.violation("%s/start-plus-period-invalid/%s" % (P, cls), what + ": start + period = %s is not a valid date" % (_safe_ymd(r),), case, py=py)
        return cls, False
    if not (min(ds, de) <= dr <= max(ds, de)):
        acc.violation("%s/not-between/%s" % (P, cls), what + ": start + period = %s lies outside [start, end]" % (dl.ymd(r),), case, py=py)
        return cls, False
    if "days" in names and dr != de:
        acc.violation("%s/not-end-with-days/%s" % (P, cls), what + ": DAYS requested but start + period = %s != end" % (dl.ymd(r),), case, py=py)
        return cls, False
    if names[-1] == "weeks" and abs(de - dr) >= 7:
        acc.violation("%s/remainder-not-below-finest-unit/%s" % (P, cls), what + ": %d days remain although WEEKS is the finest unit" % abs(de - dr), case, py=py)
        return cls, False
    if len(names) == 1:
        f = names[0]
        n = c[f]
        step = sg if sg else 1
        for k in ((n + step,) if sg else (1, -1)):
            acc.count(transitions=1, evaluations=1)
            try:
                t = _unit_step(s, f, k)
                dt_ = dl.daynum(t)
            except Exception as ex:  # noqa: BLE001
                if exc_origin(ex) == "harness":
                    raise
                # leaving the range is a legitimate overshoot; a raise inside the range is a defect of plus_<unit> itself
                # (reported by the add-* parts with its own key) - here the step is then taken on the model instead
                if _step_leaves_range(cal, cm, s, ds, f, k):
                    continue
                acc.outcome("between-date:maximality-step-raised-inside-range(model step used)")
                alt = (cm.add_months if f == "months" else cm.add_years)(s.year, s.month, s.day, k) if f in ("months", "years") else None
                if not alt or len(alt) != 1:
                    continue
                t = LocalDate(*next(iter(alt)), cal)
                dt_ = dl.daynum(t)
            over = (dt_ > de) if (sg > 0 or (sg == 0 and k > 0)) else (dt_ < de)
            if not over:
                acc.violation("%s/not-maximal/%s" % (P, cls), what + ": start.plus_%s(%d) = %s does not overshoot end, so %d is not maximal" % (f, k, dl.ymd(t), n), case, py=py)
                return cls, False
    acc.outcome("between-date:%s" % ("exact" if dr == de else "rounded-towards-start"))
    return cls, True


def _step_leaves_range(cal, cm, s, ds, f, k):
    lo, hi = dl.cal_range(cal)
    if f == "days":
        return not (lo <= ds + k <= hi)
    if f == "weeks":
        return not (lo <= ds + 7 * k <= hi)
    try:
        (cm.add_months if f == "months" else cm.add_years)(s.year, s.month, s.day, k)
    except pr.OutOfRange:
        return True
    return False


def _py_between(cid, s, e, names):
    units = " | ".join("PeriodUnits.%s" % n.upper() for n in names)
    return ("from pyoda_time import CalendarSystem, LocalDate, Period, PeriodUnits\n\n\ndef test_replay():\n"
            "    cal = CalendarSystem.for_id(%r)\n    s, e = LocalDate(%d, %d, %d, cal), LocalDate(%d, %d, %d, cal)\n" % ((cid,) + tuple(s) + tuple(e)) +
            "    units = %s\n    p = Period.between(s, e, units)\n" % units +
            "    fields = ('years', 'months', 'weeks', 'days')\n    req = %r\n" % (tuple(names),) +
            "    assert all(getattr(p, f) == 0 for f in fields if f not in req), 'units not requested'\n"
            "    r = s + p\n    assert LocalDate(r.year, r.month, r.day, cal) == r\n"
            "    assert min(s, e) <= r <= max(s, e), 'start + period outside [start, end]'\n"
            "    if 'days' in req:\n        assert r == e\n"
            "    sg = (e > s) - (e < s)\n    assert all(getattr(p, f) * sg >= 0 for f in fields), 'mixed signs'\n"
            "    if len(req) == 1 and sg:\n        n = getattr(p, req[0])\n        try:\n            t = getattr(s, 'plus_' + req[0])(n + sg)\n"
            "        except OverflowError:\n            return\n        assert (t > e) if sg > 0 else (t < e), 'not maximal'\n")


def w_between_date(job):
    cid, tier, shard, nshards = job
    acc = Acc()
    cal = CalendarSystem.for_id(cid)
    cm = model_of(cal)
    A = [LocalDate(y, m, d, cal) for (y, m, d) in between_alphabet(cal, tier)]
    classes = set()
    for i, s in enumerate(A):
        if i % nshards != shard:
            continue
        acc.count(states=1)
        ds = dl.daynum(s)
        for e in A:
            acc.count(transitions=2, evaluations=2)
            try:
                if Period.days_between(s, e) != dl.daynum(e) - ds:
                    acc.violation("C09/%s/days_between/day-line" % cid, "Period.days_between(%s, %s) = %d, day numbers differ by %d" % (dl.ymd(s), dl.ymd(e), Period.days_between(s, e), dl.daynum(e) - ds),
                                  {"kind": "days-between", "calendar": cid, "start": dl.ymd(s), "end": dl.ymd(e)})
                if Period.between(s, e) != Period.between(s, e, U.YEAR_MONTH_DAY) or (e - s) != Period.between(s, e):
                    acc.violation("C09/%s/between/default-units" % cid, "Period.between(s, e) / e - s differ from the YEAR_MONTH_DAY result for %s, %s" % (dl.ymd(s), dl.ymd(e)),
                                  {"kind": "days-between", "calendar": cid, "start": dl.ymd(s), "end": dl.ymd(e)})
            except Exception:  # noqa: BLE001 - the same call is made (and reported) through the subset loop below
                pass
            for mask, names in DATE_SUBSETS:
                cls, ok = check_between_date(acc, cal, cm, s, e, mask, names)
                classes.add((long_label(names), cls))
                if "months" in names:
                    acc.outcome("edge-class[MONTHS requested]:%s:%s" % ("+".join(t for t, w in (("no-month-overshoot-in-range", "in-range"), ("start-in-ayyam-i-ha", "start-in-ayyam"), ("month-19-later-year", "month-19")) if w in cls) or "other", "ok" if ok else "violates"))
    if shard == 0:
        acc.sample({"part": "between-date", "calendar": cid, "alphabet_size": len(A), "first": dl.ymd(A[0]), "last": dl.ymd(A[-1]), "subsets": len(DATE_SUBSETS),
                    "alphabet_head": [dl.ymd(x) for x in A[:8]]})
    acc.note("classes", sorted("%s/%s/%s" % ((cid,) + c) for c in classes))
    acc.note("alphabet", len(A))
    return acc


# ================================================================================================ part: between (year-months)
YM_SUBSETS = subsets(("years", "months"))


def w_between_ym(job):
    cid, tier = job
    acc = Acc()
    cal = CalendarSystem.for_id(cid)
    cm = model_of(cal)
    lo, hi = cal.min_year, cal.max_year
    mid = (lo + hi) // 2
    L = dl.leap_year_near(cal, mid) or mid
    yms = []
    for y in sorted({lo, L - 1, L, L + 1, L + 2, hi} if tier == "quick" else {lo, lo + 1, L - 2, L - 1, L, L + 1, L + 2, L + 3, hi - 1, hi}):
        if lo <= y <= hi:
            o = dl.month_order(cal, y)
            pick = o if (tier == "thorough" or y in (L, L + 1)) else [o[0], o[1], o[-2], o[-1]]
            yms += [(y, m) for m in pick]
    classes = set()
    for (y1, m1) in yms:
        s = YearMonth(year=y1, month=m1, calendar=cal)
        i1 = cm.index(y1, m1)
        acc.count(states=1)
        for (y2, m2) in yms:
            e = YearMonth(year=y2, month=m2, calendar=cal)
            i2 = cm.index(y2, m2)
            sg = pr.sign(i2 - i1)
            span = "same" if i1 == i2 else "same-year" if y1 == y2 else "adjacent-year" if abs(y1 - y2) == 1 else "multi-year"
            cls = "%s-%s" % ("fwd" if sg > 0 else "bwd" if sg < 0 else "same", span)
            cls0 = cls
            for mask, names in YM_SUBSETS:
                label = long_label(names)
                P = "C09/%s/between-yearmonth/%s" % (cid, label)
                cls = cls0
                if "months" in names and sg:
                    flags = []
                    if sg < 0 and i2 == 0:
                        flags.append("no-month-before-end-in-range")
                    if sg > 0 and i2 == cm.total - 1:
                        flags.append("no-month-after-end-in-range")
                    if cm.family == "badi":
                        walk = _model_walk(cm, (y1, m1, 1), (y2, m2, 1), names)
                        if walk and walk[1] is not None and walk[1] > 0:
                            ty, tm = cm.at(cm.index(walk[0][0], walk[0][1]) + walk[1])
                            if tm == 19 and ty > walk[0][0]:
                                flags.append("month-walk-lands-on-month-19-of-later-year")
                    if flags:
                        cls = "%s-%s" % ("fwd" if sg > 0 else "bwd", "+".join(flags))
                case = {"kind": "between-ym", "calendar": cid, "start": [y1, m1], "end": [y2, m2], "units": list(names)}
                acc.count(transitions=1, evaluations=1)
                classes.add((label, cls))
                try:
                    p = Period.between(s, e, mask)
                    c = comps(p)
                    what = "Period.between(YearMonth %d-%02d, YearMonth %d-%02d, %s) = %s" % (y1, m1, y2, m2, label, pstr(p))
                    py = _py_between_ym(cid, (y1, m1), (y2, m2), names)
                    extra = [f for f in pr.FIELDS if c[f] and f not in names]
                    if extra:
                        # the input class of this law is the unit subset itself (one key per calendar and subset)
                        acc.violation("%s/units-not-requested" % P, what + ": component(s) %s not among the requested units" % extra, case, py=py)
                        continue
                    if any(v * sg < 0 for v in c.values()) or (sg == 0 and any(c.values())):
                        acc.violation("%s/sign/%s" % (P, cls), what + ": components do not share the sign of end - start", case, py=py)
                        continue
                    r = (s.on_day_of_month(1) + p).to_year_month()
                    ir = cm.index(r.year, r.month)
                    if not (min(i1, i2) <= ir <= max(i1, i2)):
                        acc.violation("%s/not-between/%s" % (P, cls), what + ": start + period = %d-%02d outside [start, end]" % (r.year, r.month), case, py=py)
                        continue
                    if "months" in names and ir != i2:
                        acc.violation("%s/not-end-with-months/%s" % (P, cls), what + ": MONTHS requested but start + period = %d-%02d != end" % (r.year, r.month), case, py=py)
                        continue
                    if len(names) == 1 and sg:
                        f, n = names[0], c[names[0]]
                        try:
                            t = (s.plus_months(n + sg) if f == "months" else s.on_day_of_month(1).plus_years(n + sg).to_year_month())
                            it = cm.index(t.year, t.month)
                            if not ((it > i2) if sg > 0 else (it < i2)):
                                acc.violation("%s/not-maximal/%s" % (P, cls), what + ": one more %s still does not pass end" % f[:-1], case, py=py)
                                continue
                        except Exception as ex:  # noqa: BLE001
                            if exc_origin(ex) == "harness":
                                raise
                            if not _step_leaves_range(cal, cm, s.on_day_of_month(1), None, f, n + sg):
                                acc.violation("%s/maximality-step-raises/%s" % (P, cls), what + ": the step by %d %s raised %s inside the range" % (n + sg, f, type(ex).__name__), case, py=py)
                                continue
                    acc.outcome("between-ym:%s" % ("exact" if ir == i2 else "rounded"))
                except Exception as ex:  # noqa: BLE001
                    if exc_origin(ex) == "harness":
                        raise
                    acc.violation("%s/raises-%s/%s" % (P, type(ex).__name__, cls), "Period.between(YearMonth %d-%02d, YearMonth %d-%02d, %s) or start + period raised %s: %s [%s]" % (
                        y1, m1, y2, m2, label, type(ex).__name__, str(ex)[:100], exc_site(ex)), case, py=_py_between_ym(cid, (y1, m1), (y2, m2), names))
    acc.sample({"part": "between-yearmonth", "calendar": cid, "alphabet_size": len(yms), "head": yms[:6]})
    acc.note("classes", sorted("%s/ym/%s/%s" % ((cid,) + c) for c in classes))
    return acc


def _py_between_ym(cid, s, e, names):
    units = " | ".join("PeriodUnits.%s" % n.upper() for n in names)
    return ("from pyoda_time import CalendarSystem, Period, PeriodUnits, YearMonth\n\n\ndef test_replay():\n"
            "    cal = CalendarSystem.for_id(%r)\n    s = YearMonth(year=%d, month=%d, calendar=cal)\n    e = YearMonth(year=%d, month=%d, calendar=cal)\n" % ((cid,) + tuple(s) + tuple(e)) +
            "    p = Period.between(s, e, %s)\n    req = %r\n" % (units, tuple(names)) +
            "    assert all(getattr(p, f) == 0 for f in ('years', 'months', 'weeks', 'days') if f not in req), 'units not requested: %r' % p\n"
            "    r = (s.on_day_of_month(1) + p).to_year_month()\n    assert min(s, e) <= r <= max(s, e)\n"
            "    if 'months' in req:\n        assert r == e\n")


# ================================================================================================ part: between (times)
TIME_SUBSETS = subsets(pr.TIME_FIELDS)
ALL_SUBSETS = subsets(pr.FIELDS)
TIME_ALPHABET_NS = sorted({0, 1, 99, 100, 101, 999_999, 10**6, 10**6 + 1, 10**9 - 1, 10**9, 10**9 + 100, 59 * 10**9 + 999_999_999, 60 * 10**9, 3599 * 10**9, 3600 * 10**9,
                           3600 * 10**9 + 1, 12 * 3600 * 10**9, 12 * 3600 * 10**9 + 34 * 60 * 10**9 + 56 * 10**9 + 789_012_345, 23 * 3600 * 10**9, NSDAY - 10**9, NSDAY - 101, NSDAY - 100, NSDAY - 1})


_TIME_PARTS_REDUCED = {(), ("hours",), ("nanoseconds",), ("ticks",), ("hours", "minutes", "seconds"), pr.TIME_FIELDS}
REDUCED_SUBSETS = [(m, n) for m, n in ALL_SUBSETS if tuple(f for f in n if f in pr.TIME_FIELDS) in _TIME_PARTS_REDUCED]


def _finest(names):
    return names[-1]


def _time_laws(acc, P, cls, what, case, c, names, ts, te, tr, exact_unit):
    """shared laws on a total-nanosecond axis: returns True when all hold."""
    sg = pr.sign(te - ts)
    extra = [f for f in pr.FIELDS if c[f] and f not in names]
    if extra:
        acc.violation("%s/units-not-requested/%s" % (P, cls), what + ": component(s) %s not among the requested units" % extra, case)
        return False
    if any(v * sg < 0 for v in c.values()) or (sg == 0 and any(c.values())):
        acc.violation("%s/sign/%s" % (P, cls), what + ": components do not share the sign of end - start", case)
        return False
    if not (min(ts, te) <= tr <= max(ts, te)):
        acc.violation("%s/not-between/%s" % (P, cls), what + ": start + period is outside [start, end] (off by %d ns)" % (tr - te), case)
        return False
    fin = _finest(names)
    if fin == exact_unit and tr != te:
        acc.violation("%s/not-end-with-%s/%s" % (P, fin, cls), what + ": %s requested but start + period misses end by %d ns" % (fin.upper(), te - tr), case)
        return False
    if fin in pr.NS and abs(te - tr) >= pr.NS[fin]:
        acc.violation("%s/remainder-not-below-finest-unit-%s/%s" % (P, fin, cls), what + ": %d ns remain, finest requested unit %s is %d ns" % (abs(te - tr), fin, pr.NS[fin]), case)
        return False
    return True


def w_between_time(job):
    tier, shard, nshards = job
    acc = Acc()
    alpha = TIME_ALPHABET_NS
    times = {ns: LocalTime.from_nanoseconds_since_midnight(ns) for ns in alpha}
    classes = set()
    for i, a in enumerate(alpha):
        if i % nshards != shard:
            continue
        s = times[a]
        acc.count(states=1)
        for b in alpha:
            e = times[b]
            dirn = "fwd" if b > a else "bwd" if b < a else "same"
            for mask, names in TIME_SUBSETS:
                label = "+".join(SHORT[n] for n in names)
                cls = dirn
                P = "C09/time/between/%s" % ("single-" + SHORT[names[0]] if len(names) == 1 else "multi-coarsest-" + SHORT[names[0]])
                case = {"kind": "between-time", "start_ns": a, "end_ns": b, "units": list(names)}
                acc.count(transitions=1, evaluations=1)
                classes.add((label, dirn))
                try:
                    p = Period.between(s, e, mask)
                    c = comps(p)
                    what = "Period.between(LocalTime %d ns, LocalTime %d ns, %s) = %s" % (a, b, label, pstr(p))
                    r = s + p
                    if not _time_laws(acc, P, cls, what, case, c, names, a, b, r.nanosecond_of_day, "nanoseconds"):
                        continue
                    if pr.fixed_total_ns(c) != r.nanosecond_of_day - a:
                        acc.violation("%s/total/%s" % (P, cls), what + ": components sum to %d ns but the time moved by %d ns" % (pr.fixed_total_ns(c), r.nanosecond_of_day - a), case)
                        continue
                    if len(names) == 1 and a != b:
                        sg = pr.sign(b - a)
                        t = a + (c[names[0]] + sg) * pr.NS[names[0]]
                        if not ((t > b) if sg > 0 else (t < b)):
                            acc.violation("%s/not-maximal/%s" % (P, cls), what + ": one more %s still does not pass end" % names[0], case)
                            continue
                    if not _algebra(acc, p, "from-between-time"):
                        continue
                    acc.outcome("between-time:%s" % ("exact" if r.nanosecond_of_day == b else "rounded"))
                except Exception as ex:  # noqa: BLE001
                    _add_exc(acc, P, ex, case, cls)
    if shard == 0:
        acc.sample({"part": "between-time", "alphabet_ns": alpha, "subsets": len(TIME_SUBSETS)})
    acc.note("classes", sorted("time/%s/%s" % c for c in classes))
    return acc


# ================================================================================================ part: between (date-times)
def dt_alphabet(cal, tier):
    lo, hi = cal.min_year, cal.max_year
    mid = (lo + hi) // 2
    L = dl.leap_year_near(cal, mid) or mid
    n = cal.get_months_in_year(L)
    o = dl.month_order(cal, L)
    dates = [(L, o[1], 1), (L, o[1], cal.get_days_in_month(L, o[1])), (L, o[n - 1], cal.get_days_in_month(L, o[n - 1]))]
    if L + 1 <= hi:
        o2 = dl.month_order(cal, L + 1)
        dates.append((L + 1, o2[0], 1))
    if cal.id.startswith("Hebrew"):
        of = dl.month_order(cal, lo)
        dates += [(lo, of[0], 1), (lo, of[1], 2)]
    if cal.id == "Badi":
        dates += [(L + 1, 19, 2), (L, 18, 21)]
    times = [0, 10 * 3600 * 10**9 + 100, NSDAY - 1]
    if tier == "thorough":
        dates.append((L, o[2], 1))
        times.append(12 * 3600 * 10**9 + 34 * 60 * 10**9 + 56 * 10**9 + 789_012_345)
    out = []
    for k, (y, m, d) in enumerate(dates):
        for j, t in enumerate(times):
            if tier == "thorough" or (k + j) % 2 == 0 or k == 0:
                out.append(((y, m, d), t))
    return out


def _T(x):
    return dl.daynum(x.date) * NSDAY + x.nanosecond_of_day


def w_between_dt(job):
    cid, tier, shard, nshards = job
    acc = Acc()
    cal = CalendarSystem.for_id(cid)
    cm = model_of(cal)
    lo, hi = dl.cal_range(cal)
    alpha = dt_alphabet(cal, tier)
    # quick: all 1023 subsets in the ISO calendar and in the two irregular families; elsewhere every date-unit subset combined
    # with six representative time-unit parts (time units are calendar independent).  thorough: all 1023 everywhere.
    subs = ALL_SUBSETS if (tier == "thorough" or cid in ("ISO", "Hebrew Civil", "Badi")) else REDUCED_SUBSETS
    vals = [LocalDate(y, m, d, cal).at(LocalTime.from_nanoseconds_since_midnight(t)) for (y, m, d), t in alpha]
    classes = set()
    for i, s in enumerate(vals):
        if i % nshards != shard:
            continue
        ts = _T(s)
        acc.count(states=1)
        for j, e in enumerate(vals):
            te = _T(e)
            sg = pr.sign(te - ts)
            tod = "tod-start>end" if s.nanosecond_of_day > e.nanosecond_of_day else "tod-start<end" if s.nanosecond_of_day < e.nanosecond_of_day else "tod-equal"
            dirn = "fwd" if sg > 0 else "bwd" if sg < 0 else "same"
            fcache = {}
            for mask, names in subs:
                dnames = tuple(f for f in names if f in pr.DATE_FIELDS)
                label = "+".join(SHORT[f] for f in names)
                P = "C09/%s/between-datetime/date-units-%s" % (cid, "".join(SHORT[f] for f in dnames) or "none")
                cls = "%s-%s" % (dirn, tod)
                if cm.family != "regular" and "months" in dnames:
                    fk = "years" in dnames
                    if fk not in fcache:
                        # the date walk runs from start.date to end.date moved one day towards start when the times of day are out of order
                        try:
                            ed = e.date
                            if sg > 0 and s.nanosecond_of_day > e.nanosecond_of_day:
                                ed = dl.from_daynum(dl.daynum(ed) - 1, cal)
                            elif sg < 0 and s.nanosecond_of_day < e.nanosecond_of_day:
                                ed = dl.from_daynum(dl.daynum(ed) + 1, cal)
                            fcache[fk] = [f for f in _between_flags(cm, cal, s.date, ed, dnames)[2] if f != "start-day-clamps"]
                        except Exception as ex:  # noqa: BLE001
                            if exc_origin(ex) == "harness":
                                raise
                            fcache[fk] = []
                    if fcache[fk]:
                        cls = "%s-%s" % (dirn, "+".join(fcache[fk]))
                case = {"kind": "between-dt", "calendar": cid, "start": list(alpha[i][0]) + [alpha[i][1]], "end": list(alpha[j][0]) + [alpha[j][1]], "units": list(names)}
                acc.count(transitions=1, evaluations=1)
                classes.add((label, cls))
                try:
                    p = Period.between(s, e, mask)
                    c = comps(p)
                    what = "Period.between(%s+%dns, %s+%dns, %s) = %s" % (alpha[i][0], alpha[i][1], alpha[j][0], alpha[j][1], label, pstr(p))
                    r = s + p
                    if not canonical(r.date, cal):
                        acc.violation("%s/start-plus-period-invalid/%s" % (P, cls), what + ": start + period has an invalid date", case)
                        continue
                    if not _time_laws(acc, P, cls, what, case, c, names, ts, te, _T(r), "nanoseconds"):
                        continue
                    if len(names) == 1 and sg:
                        f, n = names[0], c[names[0]]
                        k = n + sg
                        try:
                            t = _T(getattr(s, "plus_" + f)(k))
                            if not ((t > te) if sg > 0 else (t < te)):
                                acc.violation("%s/not-maximal/%s" % (P, cls), what + ": start.plus_%s(%d) does not pass end" % (f, k), case)
                                continue
                        except Exception as ex:  # noqa: BLE001
                            if exc_origin(ex) == "harness":
                                raise
                            leaves = (not (lo * NSDAY <= ts + k * pr.NS[f] < (hi + 1) * NSDAY)) if f in pr.NS else _step_leaves_range(cal, cm, s.date, dl.daynum(s.date), f, k)
                            if not leaves:
                                acc.violation("%s/maximality-step-raises/%s" % (P, cls), what + ": start.plus_%s(%d) raised %s inside the range" % (f, k, type(ex).__name__), case)
                                continue
                    if not _algebra(acc, p, "from-between-datetime"):
                        continue
                    acc.outcome("between-dt:%s" % ("exact" if _T(r) == te else "rounded"))
                except Exception as ex:  # noqa: BLE001
                    _add_exc(acc, P, ex, case, cls)
    if shard == 0:
        acc.sample({"part": "between-datetime", "calendar": cid, "alphabet": [[list(a), t] for a, t in alpha], "subsets": len(subs)})
        if len(subs) != len(ALL_SUBSETS):
            acc.cap("between-datetime: quick tier uses %d of the 1023 unit subsets (every date-unit subset x 6 time-unit parts) in 16 calendars; all 1023 in ISO, Hebrew Civil, Badi and everywhere in the thorough tier" % len(subs))
    acc.note("classes", sorted("%s/dt/%s/%s" % ((cid,) + c) for c in classes))
    return acc


# ================================================================================================ part: period algebra
def _algebra(acc, p, origin):
    """normalize / to_duration / to_builder on one period; True when the laws hold."""
    c = comps(p)
    tot = pr.fixed_total_ns(c)
    acc.count(transitions=3, evaluations=3)
    K = "C09/period/%%s/%s" % origin
    nz = "ym-nonzero" if (c["years"] or c["months"]) else "ym-zero"
    sgn = "mixed-sign" if (any(v > 0 for f, v in c.items() if f in pr.NS) and any(v < 0 for f, v in c.items() if f in pr.NS)) else "neg" if tot < 0 else "pos" if tot > 0 else "zero"
    case = {"kind": "algebra", "period": c}
    n = p.normalize()
    cn = comps(n)
    if pr.fixed_total_ns(cn) != tot or (cn["years"], cn["months"]) != (c["years"], c["months"]):
        acc.violation(K % "normalize-total" + "/%s-%s" % (sgn, nz), "%s.normalize() = %s: fixed-length total %d ns became %d ns" % (pstr(p), pstr(n), tot, pr.fixed_total_ns(cn)), case)
        return False
    if c["years"] or c["months"]:
        try:
            p.to_duration()
            acc.violation(K % "to_duration-accepts-years-months" + "/%s" % sgn, "%s.to_duration() returned although years/months are non-zero" % pstr(p), case)
            return False
        except Exception as ex:  # noqa: BLE001 - must raise (any type)
            if exc_origin(ex) == "harness":
                raise
    else:
        d = p.to_duration()
        if d.to_nanoseconds() != tot:
            acc.violation(K % "to_duration-total" + "/%s" % sgn, "%s.to_duration() is %d ns, components sum to %d ns" % (pstr(p), d.to_nanoseconds(), tot), case)
            return False
        if n.to_duration().to_nanoseconds() != tot:
            acc.violation(K % "normalize-then-to_duration" + "/%s" % sgn, "%s.normalize().to_duration() differs from the total" % pstr(p), case)
            return False
    b = p.to_builder().build()
    if b != p or comps(b) != c or hash(b) != hash(p):
        acc.violation(K % "builder-identity" + "/%s" % sgn, "%s.to_builder().build() = %s" % (pstr(p), pstr(b)), case)
        return False
    return True


ALG_VALUES = {"years": (0, 5, -7), "months": (0, 14, -1), "weeks": (0, 3, -2), "days": (0, 8, -15), "hours": (0, 25, -49), "minutes": (0, 61, -1441),
              "seconds": (0, 59, -3601), "milliseconds": (0, 1500, -86_400_001), "ticks": (0, 10_000_001, -9), "nanoseconds": (0, 1_500_750_000, -99)}


def w_algebra(job):
    tier, shard, nshards = job
    acc = Acc()
    vals = dict(ALG_VALUES)
    if tier == "thorough":
        vals["hours"] = (0, 25, -49, 24)
        vals["nanoseconds"] = (0, 1_500_750_000, -99, NSDAY)
        vals["days"] = (0, 8, -15, 10**7)
    k = 0
    classes = set()
    unsupported = set()
    for combo in itertools.product(*[vals[f] for f in pr.FIELDS]):
        k += 1
        if k % nshards != shard:
            continue
        acc.count(states=1)
        p = PeriodBuilder(**dict(zip(pr.FIELDS, combo))).build()
        try:
            ok = _algebra(acc, p, "alphabet")
            if k % 97 == 0:       # clone routes: a copied / unpickled period must be the same value
                for route, status, c in cr.clones(p):
                    acc.count(transitions=1, evaluations=1)
                    if status == "unsupported":
                        unsupported.add("Period via %s: %s" % (route, str(c)[:60]))
                    elif status == "raises" or comps(c) != comps(p) or c != p or hash(c) != hash(p) or comps(c.normalize()) != comps(p.normalize()):
                        acc.violation("C09/period/clone/%s" % (route.split("-")[0] if route.startswith("pickle") else route), "%s clone of %s is %r" % (route, pstr(p), c), {"kind": "algebra", "period": comps(p)})
            classes.add(tuple(pr.sign(v) for v in combo))
            if ok:
                acc.outcome("algebra:ok-%s" % ("ym" if combo[0] or combo[1] else "fixed"))
        except Exception as ex:  # noqa: BLE001
            _add_exc(acc, "C09/period/algebra", ex, {"kind": "algebra", "period": dict(zip(pr.FIELDS, combo))})
    if shard == 0:
        acc.sample({"part": "period-algebra", "component_values": {f: list(v) for f, v in vals.items()}})
    acc.note("unsupported", sorted(unsupported))
    acc.note("classes", sorted("alg/" + "".join("0+-"[s] if s >= 0 else "-" for s in c) for c in classes))
    return acc


# ================================================================================================ part: apply-period (+ and - routes)
_NOON = LocalTime(12, 34, 56)
_OFF = Offset.from_hours(5)


class _Ambiguous(Exception):
    pass


def _model_apply(cal, cm, t, c, sign, nod=None):
    """documented field-by-field application of sign * period: years, months, weeks, days (date-times: the day carried from the
    time part rides on the days step).  -> (day number, nanosecond of day or None, clipped?, carry).  Raises pr.OutOfRange where a
    step leaves the calendar, _Ambiguous where the model has no single answer (Badi Ayyam-i-Ha month moves)."""
    lo, hi = dl.cal_range(cal)
    clipped = False
    for f, fn in (("years", cm.add_years), ("months", cm.add_months)):
        v = sign * c[f]
        if v:
            r = fn(t[0], t[1], t[2], v)
            if len(r) != 1:
                raise _Ambiguous()
            r = next(iter(r))
            clipped = clipped or r[2] != t[2]
            t = r
    n = dl.daynum(LocalDate(t[0], t[1], t[2], cal))
    carry = 0
    if nod is not None:
        total = sign * pr.fixed_total_ns({f: c[f] for f in pr.TIME_FIELDS})
        carry, nod = divmod(nod + total, NSDAY)
    for step in (7 * sign * c["weeks"], sign * c["days"] + carry):
        if step:
            n += step
            if not (lo <= n <= hi):
                raise pr.OutOfRange()
    return n, nod, clipped, carry


_DATE_PERIODS = [dict(zip(pr.DATE_FIELDS, v)) for v in itertools.product((0, 1, -1), (0, 1, -1, 11), (0, 1, -1), (0, 1, -2, 30)) if any(v)]
_DT_DATE_PARTS = [{}, {"months": 1}, {"months": -1}, {"years": 1}, {"years": 1, "months": 1}, {"months": 1, "days": 2}, {"months": -1, "days": -2}, {"weeks": 1}]
_DT_TIME_PARTS = [{}, {"hours": 1}, {"hours": -1}, {"hours": 25}, {"minutes": -90}, {"nanoseconds": 1}, {"nanoseconds": -1}, {"hours": 1, "minutes": -61}, {"hours": 24},
                  {"seconds": 86_399, "milliseconds": 999, "ticks": 9_999, "nanoseconds": 100}]
_DT_PERIODS = [dict(d, **t) for d in _DT_DATE_PARTS for t in _DT_TIME_PARTS if d or t]
_T_PERIODS = [t for t in _DT_TIME_PARTS if t] + [{"hours": -25, "seconds": 1}, {"ticks": 1}, {"milliseconds": -1}]
_ROUTES = {
    "LocalDate": {"plus": [("+", lambda x, p: x + p), ("plus", lambda x, p: x.plus(p)), ("add", lambda x, p: LocalDate.add(x, p))],
                  "minus": [("-", lambda x, p: x - p), ("minus", lambda x, p: x.minus(p)), ("subtract", lambda x, p: LocalDate.subtract(x, p))]},
    "LocalDateTime": {"plus": [("+", lambda x, p: x + p), ("plus", lambda x, p: x.plus(p)), ("add", lambda x, p: LocalDateTime.add(x, p))],
                      "minus": [("-", lambda x, p: x - p), ("minus", lambda x, p: x.minus(p)), ("subtract", lambda x, p: LocalDateTime.subtract(x, p))]},
    "LocalTime": {"plus": [("+", lambda x, p: x + p), ("plus", lambda x, p: x.plus(p)), ("add", lambda x, p: LocalTime.add(x, p))],
                  "minus": [("-", lambda x, p: x - p), ("minus", lambda x, p: x.minus(p)), ("subtract", lambda x, p: LocalTime.subtract(x, p))]},
}


def _apply_dates(cal, tier):
    lo, hi = cal.min_year, cal.max_year
    L = dl.leap_year_near(cal, (lo + hi) // 2) or (lo + hi) // 2
    out = []
    for y in (L, L + 1) if tier == "quick" else (L - 1, L, L + 1, lo, hi):
        if not (lo <= y <= hi):
            continue
        n = cal.get_months_in_year(y)
        for m in range(1, n + 1):
            if tier == "quick" and y != L and m not in (1, 2, 3, n):
                continue
            dim = cal.get_days_in_month(y, m)
            out += [(y, m, d) for d in sorted({1, dim, min(29, dim), min(30, dim)} | ({19, 20} if cal.id == "Badi" and m == 18 else set()))]
    return out


def w_apply(job):
    cid, tier = job
    acc = Acc()
    cal = CalendarSystem.for_id(cid)
    cm = model_of(cal)
    classes = set()

    def run_case(tname, x, t, nod, c, p, k):
        for op, sign in (("plus", 1), ("minus", -1)):
            nf = sum(1 for f in pr.DATE_FIELDS if c.get(f))
            full = dict.fromkeys(pr.FIELDS, 0) | c
            try:
                n, nod2, clipped, carry = _model_apply(cal, cm, t, full, sign, nod)
                exp = (n, nod2)
            except pr.OutOfRange:
                exp, clipped, carry = None, False, 0
            except _Ambiguous:
                acc.outcome("apply:model-ambiguous(Ayyam-i-Ha month move) skipped")
                continue
            cls = "%d-date-fields%s%s" % (nf, "-day-clipped" if clipped else "", "-time-carry%+d" % carry if carry else "")
            classes.add((tname, op, cls))
            P = "C09/%s/apply-period/%s.%s" % (cid, tname, op)
            case = {"kind": "apply", "calendar": cid, "type": tname, "op": op, "start": list(t) + ([nod] if nod is not None else []), "period": c}
            routes = _ROUTES[tname][op]
            first = None
            for ri, (rname, fn) in enumerate(routes if k % 4 == 0 else routes[:1]):
                acc.count(transitions=1, evaluations=1)
                try:
                    r = fn(x, p)
                    got = (dl.daynum(r if tname == "LocalDate" else r.date), None if tname == "LocalDate" else r.nanosecond_of_day)
                    if not canonical(r if tname == "LocalDate" else r.date, cal):
                        got = ("invalid", _safe_ymd(r if tname == "LocalDate" else r.date))
                except Exception as e:  # noqa: BLE001
                    if exc_origin(e) == "harness":
                        raise
                    got = ("raises", type(e).__name__)
                if ri == 0:
                    first = got
                    if exp is None:
                        if got[0] != "raises":
                            acc.violation("%s/no-raise-outside-range/%s" % (P, cls), "%s %s %s %s leaves the calendar range at some step but returned day %r" % (tname, t, rname, pstr(p), got), case)
                        else:
                            acc.outcome("apply:raises-outside-range")
                    elif got != exp:
                        law = "raises-%s" % got[1] if got[0] == "raises" else "invalid-result" if got[0] == "invalid" else "wrong-result"
                        want = dl.ymd(dl.from_daynum(exp[0], cal))
                        acc.violation("%s/%s/%s" % (P, law, cls), "%s%s %s %s = %s, documented order (years, months, weeks, days%s) gives %s%s" % (
                            t, "" if nod is None else "+%dns" % nod, rname, pstr(p), got if got[0] in ("raises", "invalid") else (dl.ymd(dl.from_daynum(got[0], cal)), got[1]),
                            "" if nod is None else ", day carried from the time part on the days step", want, "" if nod is None else "+%dns" % exp[1]), case, py=_py_apply(cid, tname, t, nod, c, rname, want, exp[1]))
                    else:
                        acc.outcome("apply:%s.%s:%s" % (tname, op, "clipped" if clipped else "carry" if carry else "plain"))
                elif got != first:
                    acc.violation("%s/alias-differs/%s" % (P, rname), "%s %s: route %s gives %r, operator gives %r" % (t, pstr(p), rname, got, first), case)

    def adjuster_case(x, t, c, p, adj, k, wrapped):
        """the adjuster routes of `date + period`: adj(x), x.with_date_adjuster(adj) and the same through LocalDateTime / OffsetDate /
        OffsetDateTime (time of day and offset untouched) must land where x + p lands according to the field-by-field model."""
        full = dict.fromkeys(pr.FIELDS, 0) | c
        try:
            exp = _model_apply(cal, cm, t, full, 1, None)[0]
        except pr.OutOfRange:
            exp = None
        except _Ambiguous:
            return
        nf = sum(1 for f in pr.DATE_FIELDS if c.get(f))
        fields = "+".join(f for f in pr.DATE_FIELDS if c.get(f))
        routes = [("adjuster(date)", lambda: adj(x), lambda r: r), ("LocalDate.with_date_adjuster", lambda: x.with_date_adjuster(adj), lambda r: r)]
        if wrapped:
            ldt = x.at(_NOON)
            routes += [("LocalDateTime.with_date_adjuster", lambda: ldt.with_date_adjuster(adj), lambda r: r.date if r.time_of_day == _NOON else None),
                       ("OffsetDate.with_date_adjuster", lambda: x.with_offset(_OFF).with_date_adjuster(adj), lambda r: r.date if r.offset == _OFF else None),
                       ("OffsetDateTime.with_date_adjuster", lambda: ldt.with_offset(_OFF).with_date_adjuster(adj), lambda r: r.date if (r.offset == _OFF and r.time_of_day == _NOON) else None)]
        for rname, fn, pick in routes:
            acc.count(transitions=1, evaluations=1)
            classes.add(("adjuster", rname, "%d-date-fields" % nf))
            case = {"kind": "apply", "calendar": cid, "type": "adjuster", "route": rname, "start": list(t), "period": c}
            try:
                r = pick(fn())
                got = None if r is None else dl.daynum(r)
                if r is not None and not canonical(r, cal):
                    got = "invalid %s" % (_safe_ymd(r),)
            except Exception as e:  # noqa: BLE001
                if exc_origin(e) == "harness":
                    raise
                got = "raises %s" % type(e).__name__
            K = "C09/%s/apply-period/%s/%%s/fields-%s" % (cid, rname, fields)
            if exp is None:
                if not (isinstance(got, str) and got.startswith("raises")):
                    acc.violation(K % "no-raise-outside-range", "%s with add_period(%s) on %s leaves the calendar range but gave %r" % (rname, pstr(p), t, got), case)
            elif got != exp:
                acc.violation(K % ("time-or-offset-changed" if got is None else "differs-from-date-plus-period"),
                              "%s with DateAdjusters.add_period(%s) on %s gives %s, date + period (years, months, weeks, days) gives %s" % (
                                  rname, pstr(p), t, dl.ymd(dl.from_daynum(got, cal)) if isinstance(got, int) else got, dl.ymd(dl.from_daynum(exp, cal))), case,
                              py=("from pyoda_time import CalendarSystem, DateAdjusters, LocalDate, PeriodBuilder\n\n\ndef test_replay():\n    cal = CalendarSystem.for_id(%r)\n    x = LocalDate(%d, %d, %d, cal)\n"
                                  "    p = PeriodBuilder(**%r).build()\n    assert x.with_date_adjuster(DateAdjusters.add_period(p)) == x + p\n" % ((cid,) + tuple(t) + (c,))))
            else:
                acc.outcome("apply:adjuster:%s" % rname)

    dates = _apply_dates(cal, tier)
    periods = [(c, PeriodBuilder(**c).build()) for c in _DATE_PERIODS]
    adjusters = [DateAdjusters.add_period(p) for _, p in periods]
    for i, t in enumerate(dates):
        x = LocalDate(t[0], t[1], t[2], cal)
        acc.count(states=1)
        for k, (c, p) in enumerate(periods):
            run_case("LocalDate", x, t, None, c, p, k)
            adjuster_case(x, t, c, p, adjusters[k], k, (k + i) % 3 == 0)
        # the field-setting adjusters: valid target or an exception
        dim, nm = cal.get_days_in_month(t[0], t[1]), cal.get_months_in_year(t[0])
        for name, adj, want in ([("day_of_month(%d)" % d, DateAdjusters.day_of_month(d), (t[0], t[1], d) if d <= dim else None) for d in (1, 19, 29, 30, 31)]
                                + [("month(%d)" % m, DateAdjusters.month(m), (t[0], m, t[2]) if m <= nm and t[2] <= cal.get_days_in_month(t[0], m) else None) for m in (1, 2, nm, nm + 1)]
                                + [("start_of_month", DateAdjusters.start_of_month, (t[0], t[1], 1)), ("end_of_month", DateAdjusters.end_of_month, (t[0], t[1], dim))]):
            acc.count(transitions=1, evaluations=1)
            try:
                got = dl.ymd(x.with_date_adjuster(adj))
            except Exception as e:  # noqa: BLE001
                if exc_origin(e) == "harness":
                    raise
                got = None
            if got != want:
                acc.violation("C09/%s/apply-period/DateAdjusters.%s/%s" % (cid, name.split("(")[0], "accepts-invalid-target" if want is None else "wrong-result"),
                              "%s.with_date_adjuster(DateAdjusters.%s) gives %r, expected %r" % (t, name, got, want), {"kind": "apply", "calendar": cid, "type": "adjuster", "route": name, "start": list(t)})
    # add_period must refuse a period with a time component when the adjuster is created (documented eager validation)
    for c in _DT_PERIODS:
        has_time = any(c.get(f) for f in pr.TIME_FIELDS)
        acc.count(transitions=1, evaluations=1)
        try:
            DateAdjusters.add_period(PeriodBuilder(**c).build())
            made = True
        except Exception as e:  # noqa: BLE001
            if exc_origin(e) == "harness":
                raise
            made = False
        if made == has_time:
            acc.violation("C09/%s/apply-period/DateAdjusters.add_period/%s" % (cid, "accepts-time-component" if has_time else "rejects-date-only-period"),
                          "DateAdjusters.add_period(%s) %s" % (c, "was created although the period has a time component" if has_time else "raised for a date-only period"), {"kind": "apply", "calendar": cid, "type": "adjuster", "period": c})
    dtp = [(c, PeriodBuilder(**c).build()) for c in _DT_PERIODS]
    picks = [t for t in dates if t[2] in (1, cal.get_days_in_month(t[0], t[1]))]
    picks = picks[:6] + picks[-4:] if tier == "quick" else picks
    for t in picks:
        for nod in (0, 30 * 60 * 10**9, 12 * 3600 * 10**9, NSDAY - 1):
            x = LocalDate(t[0], t[1], t[2], cal).at(LocalTime.from_nanoseconds_since_midnight(nod))
            acc.count(states=1)
            for k, (c, p) in enumerate(dtp):
                run_case("LocalDateTime", x, t, nod, c, p, k)
    if cid == "ISO":
        for nod in TIME_ALPHABET_NS:
            x = LocalTime.from_nanoseconds_since_midnight(nod)
            acc.count(states=1)
            for c in _T_PERIODS:
                p = PeriodBuilder(**c).build()
                tot = pr.fixed_total_ns(c)
                for op, sign in (("plus", 1), ("minus", -1)):
                    exp = (nod + sign * tot) % NSDAY
                    for rname, fn in _ROUTES["LocalTime"][op]:
                        acc.count(transitions=1, evaluations=1)
                        try:
                            got = fn(x, p).nanosecond_of_day
                        except Exception as e:  # noqa: BLE001
                            if exc_origin(e) == "harness":
                                raise
                            got = "raises %s" % type(e).__name__
                        if got != exp:
                            acc.violation("C09/time/apply-period/LocalTime.%s/wrong-result/%s" % (op, "wraps" if not (0 <= nod + sign * tot < NSDAY) else "no-wrap"),
                                          "LocalTime %d ns %s %s = %r, model (wrapping at midnight) %d" % (nod, rname, pstr(p), got, exp), {"kind": "apply", "calendar": "ISO", "type": "LocalTime", "start_ns": nod, "period": c})
                        else:
                            classes.add(("LocalTime", op, "wraps" if not (0 <= nod + sign * tot < NSDAY) else "no-wrap"))
    acc.sample({"part": "apply-period", "calendar": cid, "dates": len(dates), "date_periods": len(periods), "datetimes": len(picks) * 4, "datetime_periods": len(dtp),
                "routes": ["+", "plus", "add", "-", "minus", "subtract"], "dates_head": dates[:5]})
    acc.note("classes", sorted("%s/%s/%s/%s" % ((cid,) + c) for c in classes))
    return acc


def _py_apply(cid, tname, t, nod, c, rname, want, nod2):
    ctor = "LocalDate(%d, %d, %d, cal)" % tuple(t) + ("" if nod is None else ".at(LocalTime.from_nanoseconds_since_midnight(%d))" % nod)
    call = {"+": "x + p", "-": "x - p", "plus": "x.plus(p)", "minus": "x.minus(p)", "add": "%s.add(x, p)" % tname, "subtract": "%s.subtract(x, p)" % tname}[rname]
    chk = "    assert (r.year, r.month, r.day) == %r\n" % (tuple(want),) + ("" if nod is None else "    assert r.nanosecond_of_day == %d\n" % nod2)
    return ("from pyoda_time import CalendarSystem, LocalDate, LocalDateTime, LocalTime, PeriodBuilder\n\n\ndef test_replay():\n    cal = CalendarSystem.for_id(%r)\n"
            "    x = %s\n    p = PeriodBuilder(**%r).build()\n    r = %s\n" % (cid, ctor, c, call)) + chk


# ================================================================================================ part: cross-calendar history
def w_cross(job):
    """ONE process, one history: the same (y, m, d) field pairs in every calendar in which they are valid, one after another;
    days_between / between(DAYS | WEEKS | default) / plus_days compared with the day numbers of the calendar asked.  Catches
    state kept between calls that forgets the calendar - invisible to workers that stay inside one calendar."""
    tier, order, seed = job
    acc = Acc()
    years = [500, 1400, 1900] if tier == "quick" else [500, 501, 998, 1318, 1400, 1450, 1499, 1900, 1910, 5000]
    fields, valid = dl.cross_fields(years)
    per_year = len(fields) // len(years)
    groups = [fields[i * per_year:(i + 1) * per_year] for i in range(len(years))]
    pairs = [(g[i], g[j]) for g in groups for i in range(len(g)) for j in range(i + 1, len(g))]
    cids = [cid for cid, _ in dl.calendars()]
    steps = dl.history_orders(pairs, cids, seed)[order]
    prev = None
    shapes = set()
    for k, ((fa, fb), cid) in enumerate(steps):
        a, b = valid[fa].get(cid), valid[fb].get(cid)
        if a is None or b is None:
            continue
        na, nb = dl.daynum(a), dl.daynum(b)
        n = nb - na
        acc.count(states=1)
        shapes.add((cid, n))
        case = {"kind": "cross", "order": order, "step": k, "calendar": cid, "start": list(fa), "end": list(fb), "previous_step": prev}
        hint = " (history %s, step %d, previous step %s)" % (order, k, prev)
        ops = [("days_between", lambda: Period.days_between(a, b), n), ("days_between-reversed", lambda: Period.days_between(b, a), -n),
               ("between-DAYS", lambda: comps(Period.between(a, b, U.DAYS)), dict.fromkeys(pr.FIELDS, 0) | {"days": n}),
               ("between-WEEKS", lambda: comps(Period.between(a, b, U.WEEKS)), dict.fromkeys(pr.FIELDS, 0) | {"weeks": pr.trunc_div(n, 7)}),
               ("between-WEEKS+DAYS", lambda: comps(Period.between(a, b, U.WEEKS | U.DAYS)), dict.fromkeys(pr.FIELDS, 0) | {"weeks": pr.trunc_div(n, 7), "days": n - 7 * pr.trunc_div(n, 7)}),
               ("start-plus-default-between", lambda: dl.daynum(a + Period.between(a, b)), nb),
               ("plus_days", lambda: dl.daynum(a.plus_days(n)), nb), ("minus-operator", lambda: dl.daynum(a + (b - a)), nb)]
        if k % 2:
            ops.reverse()
        for name, fn, exp in ops:
            acc.count(transitions=1, evaluations=1)
            try:
                got = fn()
            except Exception as e:  # noqa: BLE001
                _add_exc(acc, "C09/%s/cross-calendar/%s" % (cid, name), e, case)
                continue
            if got != exp:
                acc.violation("C09/%s/cross-calendar/%s" % (cid, name), "%s for %s -> %s in %s gives %r, day numbers say %r%s" % (name, fa, fb, cid, got, exp, hint), case)
        acc.outcome("cross:%s" % ("backward-in-this-calendar" if n < 0 else "span<=31" if n <= 31 else "span>31"))
        prev = [list(fa), list(fb), cid]
    acc.sample({"part": "cross-calendar", "order": order, "steps": len(steps), "years": years, "pairs": len(pairs), "head": [[list(p[0]), list(p[1]), c] for p, c in steps[:4]]})
    acc.note("classes", sorted("cross/%s/span%d" % c for c in shapes))
    return acc


# ================================================================================================ driver
def _dispatch(q):
    name, fn, job = q
    return name, globals()[fn](job)


def _chunks(seq, n):
    return [seq[i::n] for i in range(n) if seq[i::n]]


def run(ctx):
    cals = dl.calendars()
    for t in dl.DEGRADED:
        ctx.degrade(t)
    only = getattr(ctx, "only", None)
    tier, seed = ctx.tier, ctx.seed
    rot = seed % len(cals)
    cals = cals[rot:] + cals[:rot]          # the seed rotates the visiting order only

    queued = []          # (part name, worker name, job) - all parts share ONE pool so no part waits for another's stragglers

    def part(name, fn, jobs):
        if only and name not in only:
            return
        queued.extend((name, fn.__name__, jb) for jb in jobs)

    def flush():
        classes, extra, order = {}, {}, []
        for name, acc in pmap(_dispatch, list(queued)):
            if name not in classes:
                classes[name] = set()
                order.append(name)
            classes[name] |= set(acc.notes.pop("classes", []))
            for u in acc.notes.pop("unsupported", []):
                ctx.degrade("clone route not supported by the type (TypeError), skipped: " + u)
            a = acc.notes.pop("alphabet", None)
            if a:
                extra.setdefault(name, set()).add(a)
            ctx.merge_part(name, acc)
        for name in order:
            fin = Acc()
            fin.count(nontrivial=len(classes[name]))
            if name in extra:
                fin.note(name + "_alphabet_sizes", sorted(extra[name]))
            ctx.merge_part(name, fin)
        del queued[:]

    big = tier == "thorough"
    part("add-days", w_add_days, [(cid, tier, ys) for cid, cal in cals for ys in _chunks(year_alphabet(cal, tier, seed), 4 if not big else 12)])
    part("add-months", w_add_months, [(cid, tier, ys) for cid, cal in cals for ys in _chunks(year_alphabet(cal, tier, seed), 2 if not big else 12)])
    nb = 4 if not big else 16
    part("between-date", w_between_date, [(cid, tier, k, nb) for cid, _ in cals for k in range(nb)])
    part("between-yearmonth", w_between_ym, [(cid, tier) for cid, _ in cals])
    part("between-datetime", w_between_dt, [(cid, tier, k, nd) for cid, _ in cals for nd in ((7 if cid in ("ISO", "Hebrew Civil", "Badi") else 1) if not big else 8,) for k in range(nd)])
    part("between-time", w_between_time, [(tier, k, 8) for k in range(8)])
    part("period-algebra", w_algebra, [(tier, k, 8) for k in range(8)])
    part("apply-period", w_apply, [(cid, tier) for cid, _ in cals])
    queued.sort(key=lambda q: 0 if q[0] in ("between-date", "between-datetime") else 1)      # long jobs first (stable)
    flush()
    # the histories run in a pool of their own: each job is one process, one history
    part("cross-calendar", w_cross, [(tier, o, seed) for o in ("pair-major-forward", "pair-major-reverse", "calendar-major", "interleaved")])
    flush()
    dl.report_disagreements(ctx, "C09")
    ctx.note("calendars", len(cals))
    ctx.rule = ("explicit alphabets, every combination executed on the real code. add-days: every day of the alphabet years x amounts; non-trivial = distinct "
                "(calendar, op, fast/slow path, landing class) with landing in same-month/same-year/prev|next|far-year(+first/last day). add-months: non-trivial = "
                "distinct (calendar, op, direction, target month, same/other year, day class) resp. (direction, leap->leap class, month, day class). between-*: all ordered "
                "pairs of the alphabet x all unit subsets; non-trivial = distinct (calendar, unit subset, direction, span, edge flags) classes. period-algebra: "
                "non-trivial = distinct sign patterns of the ten components. apply-period: dates = every month of a leap year x {1st, 29/30, last} (+ the next year's first/last months), "
                "143 date periods (all combinations of years 0/+-1, months 0/+-1/11, weeks 0/+-1, days 0/1/-2/30) and 79 date-time periods x 6 routes; non-trivial = distinct (calendar, type, "
                "plus/minus, number of date fields, day clipped?, day carried from the time part). cross-calendar: four histories, each in ONE process, asking days_between / "
                "between(DAYS, WEEKS, WEEKS+DAYS, default) / plus_days for the same (y, m, d) field pairs in every calendar where they are valid, in different calendar "
                "orders; non-trivial = distinct (calendar, span).")
    ctx.assumptions = ["the day-number <-> date bijection of each calendar (C01/C02) is the axis of the oracle",
                       "month order inside a year is read off the day numbers of the month starts; months-in-year and days-in-month come from the calendar's public tables",
                       "Hebrew year moves follow the Adar / 30th-day rule documented in _HebrewYearMonthDayCalculator._set_year",
                       "Badi month moves from Ayyam-i-Ha days accept either documented reading (month 18 + n with the day clamped, or the pseudo-month reading of the code)",
                       "'raises' = any exception; an exception inside the range is a violation",
                       "the finest requested fixed-length unit bounds the remainder ('rounding towards start')"]
    ctx.exhaustive = True
    ctx.note("exhaustive_scope", "every combination of the declared alphabets (dates/amounts/pairs/unit subsets) - not all dates of all calendars")


def replay(rec):
    case = rec.get("case") or {}
    if isinstance(case.get("case"), dict):
        case = case["case"]
    kind = case.get("kind")
    key = rec.get("key")
    acc = Acc()
    if kind == "between-date":
        cal = CalendarSystem.for_id(case["calendar"])
        names = tuple(case["units"])
        mask = U.NONE
        for f in names:
            mask |= UNIT[f]
        check_between_date(acc, cal, model_of(cal), LocalDate(*case["start"], cal), LocalDate(*case["end"], cal), mask, names)
    elif kind == "move":
        cal = CalendarSystem.for_id(case["calendar"])
        check_move(acc, cal, model_of(cal), *case["start"], case["op"], case["n"])
    elif kind == "add-days":
        y = case["start"][0]
        acc = w_add_days((case["calendar"], rec.get("tier", "quick"), [y]))
    elif kind == "ym-move":
        acc = w_add_months((case["calendar"], "quick", [case["start"][0]]))
    elif kind == "between-ym":
        acc = w_between_ym((case["calendar"], rec.get("tier", "quick")))
    elif kind == "between-dt":
        acc = w_between_dt((case["calendar"], rec.get("tier", "quick"), 0, 1))
    elif kind == "between-time":
        acc = w_between_time((rec.get("tier", "quick"), 0, 1))
    elif kind == "apply":
        acc = w_apply((case["calendar"], rec.get("tier", "quick")))
    elif kind == "cross":
        acc = w_cross((rec.get("tier", "quick"), case["order"], rec.get("seed", 0)))
    elif kind == "algebra":
        _algebra(acc, PeriodBuilder(**case["period"]).build(), "alphabet")
        return bool(acc.violations)
    else:
        return False
    return key in acc.violations
