"""C06 - zones behave exactly as the bundled tz database bytes say.

Oracle: vf.models.nzdref (an independent decoder of the .nzd container over plain bytes) and vf.models.tzrules
(an evaluator of the stored yearly rules in integer calendar arithmetic).  The real provider is walked zone by zone
and every interval met is compared with the interval the reference derives from the file bytes.
"""
from __future__ import annotations

from pyoda_time import DateTimeZone, DateTimeZoneProviders, Offset
from pyoda_time.time_zones import DateTimeZoneNotFoundError

from vf.core.evidence import Acc, exc_origin
from vf.core.par import pmap
from vf.models import nzdref, tzrules
from vf.models import zonewalk as zw
from vf.models.nzdref import DAY_NS
from vf.models.tzrules import MAX_NS, MIN_NS

LEVEL = "model_checking"
ALIAS_TAIL_YEARS = 30
ITEM_CPU_LIMIT = 60         # CPU seconds per work item; a normal item needs < 10
FILES = ("bundled", "second")


def _rule_text(r):
    return "mode=%s month=%d day=%d dow=%d %s time=%dms%s" % (("utc", "wall", "standard", "?")[r["mode"]], r["month"], r["dom"], r["dow"],
                                                              "advance" if r["advance"] else "retreat", r["tod_ms"], " +1day" if r["add_day"] else "")


def _py_interval(which, zid, p, exp):
    if which == "bundled":
        get = "    z = DateTimeZoneProviders.tzdb[%r]\n" % zid
    else:
        get = ("    import io, os, pyoda_time\n    from pyoda_time.time_zones._tzdb_date_time_zone_source import TzdbDateTimeZoneSource\n"
               "    path = os.path.join(os.path.dirname(os.path.dirname(pyoda_time.__file__)), 'tests', 'test_data', 'Tzdb2013bFromNodaTime1.1.nzd')\n"
               "    z = TzdbDateTimeZoneSource.from_stream(io.BytesIO(open(path, 'rb').read())).for_id(%r)\n" % zid)
    return ("from pyoda_time import DateTimeZoneProviders, Instant\n\n"
            "def test_replay():\n" + get +
            "    ns = %d\n"
            "    i = Instant.from_unix_time_ticks(ns // 100).plus_nanoseconds(ns %% 100)\n"
            "    zi = z.get_zone_interval(i)\n"
            "    e = Instant.from_unix_time_ticks(0)\n"
            "    got = ((zi.start - e).to_nanoseconds() if zi.has_start else None, (zi.end - e).to_nanoseconds() if zi.has_end else None,\n"
            "           zi.name, zi.wall_offset.seconds, zi.savings.seconds)\n"
            "    assert z.id == %r\n"
            "    assert got == %r  # what an independent reading of the .nzd bytes (stored periods / yearly rules) gives\n" % (p, zid, tuple(exp)))


def compare_window(acc, which, zid, z, rz, lo, hi):
    """walk the real zone over [lo, hi] and compare with the reference list.  Returns (first tuple, last tuple) or None."""
    try:
        exp = tzrules.expected_intervals(rz, lo, hi)
    except Exception as ex:  # noqa: BLE001   (reference could not be evaluated: a fault of the checker, never a verdict)
        raise RuntimeError("reference evaluation failed for %s: %r" % (zid, ex))
    fired = []

    def point(q, ref, order):
        """one query through the provider's (cached) zone, judged against the reference interval - not against the library's walk"""
        try:
            got_t = zw.iv_tuple(z.get_zone_interval(zw.mk_instant(q)))
        except zw.Hang:
            raise
        except Exception as ex:  # noqa: BLE001
            acc.lib_exception("C06/%s/point/%s" % (which, zid), ex, {"file": which, "zone": zid, "instant_ns": q})
            return
        acc.count(evaluations=1, transitions=1)
        if got_t != ref and not fired:
            fired.append(q)
            acc.violation("C06/%s/point/%s" % (which, zid),
                          "zone %s: get_zone_interval(%s) through the provider's zone (%s) = %s, the file bytes put that instant in %s" % (
                              zid, zw.fmt_ns(q), order, zw.fmt_iv(got_t), zw.fmt_iv(ref)),
                          {"file": which, "zone": zid, "instant_ns": q, "window": [lo, hi], "got": got_t, "expected": ref},
                          py=_py_interval(which, zid, q, ref))

    def on_step(k, cur, zi, t):
        # start+1ns, midpoint, end-1ns of the k-th REFERENCE interval, while the walk is there
        if k < len(exp):
            for q in zw.probe_points(exp[k]):
                if q != cur:
                    point(q, exp[k], "forward pass")

    w = zw.walk(z, lo, hi, on_step=on_step)
    acc.count(states=len(w.tuples), transitions=w.steps, evaluations=w.steps)
    # 32-day cache periods holding two or more reference transitions: queried again in DESCENDING order, so that the instants before
    # the first transition of the period are asked after the later intervals of the same period
    if exp:
        ridx = zw.Index(exp)
        per = 32 * DAY_NS
        for pnum in sorted(zw.transitions_per_cache_period(exp)):
            a, b = max(pnum * per, MIN_NS), min((pnum + 1) * per - 1, MAX_NS)
            pts = {a, b}
            for k in ridx.near(a, b):
                for q in zw.probe_points(exp[k]):
                    if a <= q <= b:
                        pts.add(q)
                if exp[k][0] is not None and a <= exp[k][0] - 1:
                    pts.add(exp[k][0] - 1)
            cov_lo = MIN_NS if exp[0][0] is None else exp[0][0]
            cov_hi = MAX_NS if exp[-1][1] is None else exp[-1][1] - 1
            for q in sorted(pts, reverse=True):
                if cov_lo <= q <= cov_hi:
                    point(q, exp[ridx.at(q)], "descending pass over a cache period with several transitions")
            acc.outcome("cache-period-with-several-transitions")
    if w.error and w.error[0] == "exception":
        if exc_origin(w.error[2]) == "harness":
            raise w.error[2]
        acc.lib_exception("C06/%s/walk/%s" % (which, zid), w.error[2], {"file": which, "zone": zid, "instant_ns": w.error[1]})
    # cache-order histories on fresh cached zones (period-edge transitions with the neighbouring / aliased period asked first; long intervals
    # with an aliased earlier period asked first), judged against the reference
    if exp and not w.error:
        ridx2 = zw.Index(exp)
        memo = {}

        def ref_at(q):
            if q not in memo:
                memo[q] = exp[ridx2.at(q)] if ridx2.covers(q, q) else tzrules.expected_intervals(rz, q, q)[0]
            return memo[q]

        for anchor, kind, name, seq in zw.cache_order_histories(exp, lo, hi, full=False):
            f = zw.fresh_cached(z)
            if f is None:
                acc.degrade("fresh caching wrapper not constructible (_CachedDateTimeZone._for_zone): cache-order histories skipped")
                break
            acc.outcome("cache-history:" + kind)
            for i, q in enumerate(seq):
                try:
                    got_t = zw.iv_tuple(f.get_zone_interval(zw.mk_instant(q)))
                except Exception as ex:  # noqa: BLE001
                    acc.lib_exception("C06/%s/history/%s" % (which, zid), ex, {"file": which, "zone": zid, "instant_ns": q, "history": seq[:i + 1]})
                    break
                acc.count(evaluations=1, transitions=1)
                want_t = ref_at(q)
                if got_t != want_t:
                    if not fired:
                        fired.append(q)
                        acc.violation("C06/%s/history/%s" % (which, zid),
                                      "zone %s: a fresh zone object asked in turn about %s answers %s for %s; the file bytes put that instant in %s (%s at %s; %s)" % (
                                          zid, [zw.fmt_ns(x) for x in seq[:i + 1]], zw.fmt_iv(got_t), zw.fmt_ns(q), zw.fmt_iv(want_t), kind, zw.fmt_ns(anchor), name),
                                      {"file": which, "zone": zid, "instant_ns": q, "window": [lo, hi], "history": list(seq[:i + 1]), "got": got_t, "expected": want_t})
                    break
    got = w.tuples
    n = min(len(got), len(exp))
    i = 0
    while i < n and got[i] == exp[i]:
        i += 1
    ts = tzrules.tail_start(rz)
    if i < n or len(got) != len(exp):
        g = got[i] if i < len(got) else None
        e = exp[i] if i < len(exp) else None
        q = lo if i == 0 else (got[i - 1][1] if got[i - 1][1] is not None else hi)
        in_tail = ts is not None and q is not None and q >= ts
        if g is not None and e is not None:
            field = next(nm for nm, a, b in zip(("start", "end", "name", "wall", "savings"), g, e) if a != b)
        else:
            field = "missing" if g is None else "extra"
        part = "tail" if in_tail else "stored"
        rule = ""
        if in_tail and rz.get("tail"):
            rule = " [daylight rule %s; standard rule %s; standard offset %+ds, savings %+ds]" % (
                _rule_text(rz["tail"]["drule"]), _rule_text(rz["tail"]["srule"]), rz["tail"]["std"], rz["tail"]["sav"])
        acc.violation("C06/%s/%s/%s/%s" % (which, part, field, zid),
                      "zone %s, interval #%d of the walk from %s (query %s): library %s, file bytes say %s%s" % (
                          zid, i, zw.fmt_ns(lo), zw.fmt_ns(q), g and zw.fmt_iv(g), e and zw.fmt_iv(e), rule),
                      {"file": which, "zone": zid, "instant_ns": q, "window": [lo, hi], "got": g, "expected": e},
                      py=_py_interval(which, zid, q, e) if e is not None and q is not None else None)
    # measured classes
    for k in range(1, len(got)):
        if ts is not None and got[k][0] is not None and got[k][0] > ts:
            acc.count(nontrivial=1)
            acc.outcome("tail-transition")
        elif ts is not None and got[k][0] == ts:
            acc.count(nontrivial=1)
            acc.outcome("seam:first-tail-interval")
        else:
            acc.count(nontrivial=1)
            acc.outcome("stored-transition")
    if not got:
        return None
    return got[0], got[-1]


def _zone_item(item):
    acc = Acc()
    if zw.too_many_hangs(acc):
        return acc
    try:
        with zw.cpu_limit(ITEM_CPU_LIMIT):
            return _zone_item_body(item, acc)
    except zw.Hang as h:
        zw.hang_violation(acc, "C06", "%s|%s" % (item[0], item[1]), h)
        acc.notes.pop("seams", None)
        return acc


def _zone_item_body(item, acc):
    which, zid, canon, windows = item
    _, f = zw.decoded(which)
    rz = f["zones"][canon]
    try:
        prov = zw.provider(which)
        z = prov[zid]
        acc.count(evaluations=1)
    except Exception as ex:  # noqa: BLE001
        acc.lib_exception("C06/%s/lookup/%s" % (which, zid), ex, {"file": which, "zone": zid})
        return acc
    try:
        if z.id != zid:
            acc.violation("C06/%s/zone-id/%s" % (which, "alias" if zid != canon else "canonical"),
                          "provider[%r] returned a zone whose id is %r%s" % (zid, z.id, " (alias of %s)" % canon if zid != canon else ""),
                          {"file": which, "zone": zid, "canonical": canon},
                          py="from pyoda_time import DateTimeZoneProviders\n\ndef test_replay():\n    assert DateTimeZoneProviders.tzdb[%r].id == %r\n" % (zid, zid) if which == "bundled" else None)
        # the source itself (not only the caching provider) hands out the zone under the requested id
        if windows and windows[0][0] == MIN_NS:
            z2 = zw.source(which).for_id(zid)
            acc.count(evaluations=1)
            if z2.id != zid:
                acc.violation("C06/%s/source-zone-id/%s" % (which, "alias" if zid != canon else "canonical"),
                              "source.for_id(%r) returned a zone whose id is %r" % (zid, z2.id), {"file": which, "zone": zid})
            z3 = prov.get_zone_or_none(zid)
            acc.count(evaluations=1)
            if z3 is None or z3.id != zid:
                acc.violation("C06/%s/get-zone-or-none/%s" % (which, "alias" if zid != canon else "canonical"),
                              "get_zone_or_none(%r) returned %r" % (zid, z3 and z3.id), {"file": which, "zone": zid})
        if rz["kind"] == "fixed":
            acc.outcome("file-zone:fixed")
            name = rz["name"] if rz["name"] is not None else zid
            exp = (None, None, name, rz["offset"], 0)
            for p in (MIN_NS, 0, MAX_NS):
                t = zw.iv_tuple(z.get_zone_interval(zw.mk_instant(p)))
                acc.count(states=1, evaluations=1, transitions=1)
                if t != exp:
                    acc.violation("C06/%s/fixed/%s" % (which, zid), "fixed zone %s: interval at %s is %s, file bytes say %s" % (zid, zw.fmt_ns(p), zw.fmt_iv(t), zw.fmt_iv(exp)),
                                  {"file": which, "zone": zid, "instant_ns": p}, py=_py_interval(which, zid, p, exp))
            if z.min_offset.seconds != rz["offset"] or z.max_offset.seconds != rz["offset"]:
                acc.violation("C06/%s/fixed-minmax/%s" % (which, zid), "fixed zone advertises [%d, %d], file says %d" % (z.min_offset.seconds, z.max_offset.seconds, rz["offset"]),
                              {"file": which, "zone": zid})
            acc.notes["seams"] = {}
            return acc
        acc.outcome("file-zone:" + ("stored+rules" if rz["tail"] else "stored-only") + (":alias" if zid != canon else ""))
        ends = []
        for lo, hi in windows:
            r = compare_window(acc, which, zid, z, rz, lo, hi)
            ends.append((lo, hi, r and r[0], r and r[1]))
        acc.notes["seams"] = {"%s|%s" % (which, zid): ends}
        if zid in ("Europe/London", "America/Sao_Paulo", "Asia/Tehran") and windows[0][0] == MIN_NS and rz["tail"]:
            acc.sample({"file": which, "zone": zid, "stored_periods": len(rz["periods"]), "tail_starts": zw.fmt_ns(tzrules.tail_start(rz)),
                        "daylight_rule": _rule_text(rz["tail"]["drule"]), "standard_rule": _rule_text(rz["tail"]["srule"])})
    except Exception as ex:  # noqa: BLE001
        acc.lib_exception("C06/%s/zone/%s" % (which, zid), ex, {"file": which, "zone": zid})
    return acc


# ---- catalogue: ids, aliases, version, windows mapping, locations, validate -------------------------

def check_catalogue(acc, which):
    data, f = zw.decoded(which)
    prov = zw.provider(which)
    src = zw.source(which)
    K = "C06/%s/" % which
    exp_ids = nzdref.all_ids(f)
    acc.count(states=len(exp_ids))

    def ev(n=1):
        acc.count(evaluations=n, transitions=n)

    ids = list(prov.ids)
    ev()
    if ids != exp_ids:
        only_lib = sorted(set(ids) - set(exp_ids))[:5]
        only_file = sorted(set(exp_ids) - set(ids))[:5]
        acc.violation(K + "ids/" + ("order" if sorted(ids) == exp_ids else "set"),
                      "provider.ids (%d) is not the file's canonical ids plus aliases in ordinal order (%d); only in library %s, only in file %s, first out-of-order %s" % (
                          len(ids), len(exp_ids), only_lib, only_file, next((a for a, b in zip(ids, sorted(ids)) if a != b), None)), {"file": which})
    sids = list(src.get_ids())
    ev()
    if sorted(sids) != exp_ids or len(set(sids)) != len(sids):
        acc.violation(K + "source-ids", "source.get_ids() is not the set of canonical ids and aliases of the file", {"file": which})
    cm = dict(src.canonical_id_map)
    ev()
    if cm != nzdref.canonical_map(f):
        diff = [k for k in sorted(set(cm) | set(nzdref.canonical_map(f))) if cm.get(k) != nzdref.canonical_map(f).get(k)][:5]
        acc.violation(K + "canonical-map", "canonical_id_map differs from the file's id map (+ identity on canonical ids) at %s" % diff, {"file": which, "ids": diff})
    al = {k: list(v) for k, v in src.aliases.items()}
    ev()
    if al != nzdref.alias_groups(f):
        diff = [k for k in sorted(set(al) | set(nzdref.alias_groups(f))) if al.get(k) != nzdref.alias_groups(f).get(k)][:5]
        acc.violation(K + "aliases", "aliases lookup differs from the file's alias groups (sorted) at %s" % diff, {"file": which, "ids": diff})
    wv = f["windows"]["version"]
    exp_version = "TZDB: %s (mapping: %s)" % (f["tzdb_version"], wv)
    ev(3)
    if prov.version_id != exp_version or src.version_id != exp_version or src.tzdb_version != f["tzdb_version"]:
        acc.violation(K + "version", "version_id is %r / %r (tzdb_version %r), the file says %r" % (prov.version_id, src.version_id, src.tzdb_version, exp_version), {"file": which})
    w = src.windows_mapping
    got_w = (w.version, w.tzdb_version, w.windows_version, [(m.windows_id, m.territory, tuple(m.tzdb_ids)) for m in w.map_zones])
    exp_w = (wv, f["windows"]["tzdb_version"], f["windows"]["windows_version"], f["windows"]["map_zones"])
    ev()
    if got_w != exp_w:
        acc.violation(K + "windows-mapping", "windows mapping differs from the file (version %r/%r, %d/%d map zones)" % (got_w[0], exp_w[0], len(got_w[3]), len(exp_w[3])), {"file": which})
    prim = {wid: ids_[0] for wid, terr, ids_ in f["windows"]["map_zones"] if terr == "001" and ids_}
    if dict(w.primary_mapping) != prim:
        acc.violation(K + "windows-primary", "primary_mapping is not the '001' territory entries of the file", {"file": which})
    # locations
    locs = src.zone_locations
    ev()
    if (locs is None) != (f["locations"] is None):
        acc.violation(K + "locations", "zone_locations presence differs from the file", {"file": which})
    elif locs is not None:
        got_l = [(round(x.latitude * 3600), round(x.longitude * 3600), x.country_name, x.country_code, x.zone_id, x.comment) for x in locs]
        if got_l != f["locations"]:
            acc.violation(K + "locations", "zone_locations differ from the file (%d vs %d entries)" % (len(got_l), len(f["locations"])), {"file": which})
    locs = src.zone_1970_locations
    ev()
    if (locs is None) != (f["locations_1970"] is None):
        acc.violation(K + "locations-1970", "zone_1970_locations presence differs from the file", {"file": which})
    elif locs is not None:
        got_l = [(round(x.latitude * 3600), round(x.longitude * 3600), tuple((c.name, c.code) for c in x.countries), x.zone_id, x.comment) for x in locs]
        if got_l != f["locations_1970"]:
            acc.violation(K + "locations-1970", "zone_1970_locations differ from the file (%d vs %d entries)" % (len(got_l), len(f["locations_1970"])), {"file": which})
    # validate(): the file passes its own consistency rules, and the independent statement of those rules agrees
    ref_problems = nzdref.validate(f)
    ev()
    try:
        src.validate()
        acc.outcome("validate:passes")
        if ref_problems:
            acc.violation(K + "validate/accepts", "validate() passes although the file breaks its consistency rules: %s" % ref_problems[:3], {"file": which})
    except Exception as ex:  # noqa: BLE001
        if exc_origin(ex) == "harness":
            raise
        acc.outcome("validate:raises-" + type(ex).__name__)
        if not ref_problems:
            acc.violation(K + "validate/rejects", "validate() raised %s: %s on a file that satisfies its consistency rules" % (type(ex).__name__, str(ex)[:200]), {"file": which})
    # unknown ids
    for bad in ("Europe/Londo", "europe/london", "Europe/London ", "", "Nowhere/Land", "UT", "Etc/GMT+15"):
        if bad in exp_ids:
            continue
        ev(3)
        try:
            r = prov.get_zone_or_none(bad)
            if r is not None:
                acc.violation(K + "unknown-id/found/%s" % bad, "get_zone_or_none(%r) returned zone %r" % (bad, r.id), {"file": which, "id": bad})
        except Exception as ex:  # noqa: BLE001
            acc.lib_exception(K + "unknown-id/%s" % bad, ex, {"file": which, "id": bad})
        try:
            r = prov[bad]
            acc.violation(K + "unknown-id/getitem/%s" % bad, "provider[%r] returned zone %r" % (bad, r.id), {"file": which, "id": bad})
        except DateTimeZoneNotFoundError:
            acc.outcome("unknown-id:DateTimeZoneNotFoundError")
        except Exception as ex:  # noqa: BLE001
            acc.lib_exception(K + "unknown-id/%s" % bad, ex, {"file": which, "id": bad})
        try:
            src.for_id(bad)
            acc.violation(K + "unknown-id/for_id/%s" % bad, "source.for_id(%r) returned a zone" % bad, {"file": which, "id": bad})
        except Exception as ex:  # noqa: BLE001
            if exc_origin(ex) == "harness":
                raise
            acc.outcome("unknown-id:for_id-raises-" + type(ex).__name__)
    acc.sample({"file": which, "bytes": len(data), "zones_in_file": len(f["zones"]), "aliases": len(f["idmap"]), "version_id": exp_version,
                "fields": sorted(set(f["field_ids"])), "rule_zones": sum(1 for zz in f["zones"].values() if zz["kind"] == "precalc" and zz["tail"])})
    acc.count(nontrivial=len(exp_ids))
    # which features of the yearly-rule language the file actually uses (so that vacuity is visible)
    for zz in f["zones"].values():
        if zz["kind"] == "precalc" and zz["tail"]:
            for r in (zz["tail"]["drule"], zz["tail"]["srule"]):
                acc.outcome("%s rule: mode=%s" % (which, ("utc", "wall", "standard", "?")[r["mode"]]))
                acc.outcome("%s rule: %s" % (which, "fixed day of month" if not r["dow"] else
                                             ("last weekday of month" if r["dom"] < 0 else "weekday on/after day") if (r["dom"] < 0 or r["advance"]) else "weekday on/before day"))
                if r["add_day"]:
                    acc.outcome("%s rule: 24:00 (add a day)" % which)
                if r["month"] == 2 and r["dom"] == 29:
                    acc.outcome("%s rule: Feb 29" % which)
                if r["tod_ms"] % 3600000:
                    acc.outcome("%s rule: time of day not on the hour" % which)


# ---- fixed-offset ids ----------------------------------------------------------------------------

def fixed_id_grid():
    """(id text, expected offset seconds | None).  None = must not resolve (None / DateTimeZoneNotFoundError only)."""
    out = [("UTC", 0)]
    vals = (0, 1, 30, 59)
    for sign, sg in (("+", 1), ("-", -1)):
        for hh in range(0, 19):
            out.append(("UTC%s%02d" % (sign, hh), sg * hh * 3600))
            for mm in vals:
                if hh == 18 and mm:
                    continue
                out.append(("UTC%s%02d:%02d" % (sign, hh, mm), sg * (hh * 3600 + mm * 60)))
                for ss in vals:
                    if hh == 18 and ss:
                        continue
                    out.append(("UTC%s%02d:%02d:%02d" % (sign, hh, mm, ss), sg * (hh * 3600 + mm * 60 + ss)))
    near = ["UTC+5", "utc", "Utc+05", "UTCx", "UTC+", "UTC ", " UTC", "UTC+0500", "UTC+05:3", "UTC+5:30", "UTC+005", "UTC++05", "UTC+05:", "UTC+05 ", "UTC+05:60",
            "UTC+05:30:60", "UTC+24", "UTC+99", "UTCZ", "UTC−05", "UTC+1٠", "GMT+05", "UTC+05:00:00.5",
            # beyond +-18:00 (out of the range of Offset)
            "UTC+19", "UTC-19", "UTC+18:01", "UTC-18:01", "UTC+18:00:01", "UTC-18:00:01", "UTC+23:59:59"]
    for s in near:
        out.append((s, None))
    return out


def check_fixed_ids(acc, cases, culture=None):
    """culture = name of the ambient CultureInfo.current_culture the lookups are made under (None = the process default).
    The id syntax is culture-independent, so the expectation is the same under every ambient culture."""
    prov = DateTimeZoneProviders.tzdb
    K = "C06/fixed-id/" if culture is None else "C06/fixed-id/ambient-culture/"
    amb = "" if culture is None else " [CultureInfo.current_culture = %s]" % culture
    for text, exp in cases:
        # under an ambient culture the failing input CLASS is the shape of the id text (one root cause must not give 700 keys)
        tk = text if culture is None else ("near-miss" if exp is None else "UTC" if text == "UTC" else "UTC+-" + ":".join(["hh", "mm", "ss"][:text.count(":") + 1]))
        acc.count(states=1, nontrivial=1)
        for via in ("get_zone_or_none", "getitem"):
            acc.count(evaluations=1, transitions=1)
            try:
                z = prov.get_zone_or_none(text) if via == "get_zone_or_none" else prov[text]
            except DateTimeZoneNotFoundError as ex:
                if via == "get_zone_or_none":
                    acc.violation(K + "raises/%s" % tk, "get_zone_or_none(%r) raised %s instead of returning None%s" % (text, type(ex).__name__, amb), {"id": text, "via": via, "culture": culture})
                elif exp is not None:
                    acc.violation(K + "not-found/%s" % tk, "provider[%r] raised DateTimeZoneNotFoundError; expected the fixed zone with offset %+ds%s" % (text, exp, amb), {"id": text, "via": via, "culture": culture})
                else:
                    acc.outcome("fixed-id:not-found" if culture is None else "fixed-id under ambient culture %s: not found" % culture)
                continue
            except Exception as ex:  # noqa: BLE001
                if exc_origin(ex) == "harness":
                    raise
                acc.violation(K + "raises/%s" % tk, "%s(%r) raised %s: %s (expected %s)%s" % (
                    via, text, type(ex).__name__, str(ex)[:120], "None / DateTimeZoneNotFoundError" if exp is None else "the fixed zone %+ds" % exp, amb),
                    {"id": text, "via": via, "culture": culture},
                    py="from pyoda_time import DateTimeZoneProviders\n\ndef test_replay():\n    assert DateTimeZoneProviders.tzdb.get_zone_or_none(%r) is None\n" % text if exp is None else None)
                continue
            if z is None:
                if exp is not None:
                    acc.violation(K + "none/%s" % tk, "get_zone_or_none(%r) returned None; expected the fixed zone with offset %+ds%s" % (text, exp, amb), {"id": text, "culture": culture},
                                  py=_py_culture(text, exp, culture))
                else:
                    acc.outcome("fixed-id:none" if culture is None else "fixed-id under ambient culture %s: none" % culture)
                continue
            if exp is None:
                acc.violation(K + "resolved/%s" % tk, "%s(%r) resolved to zone %r although the text is not of the form UTC+/-hh[:mm[:ss]] within +-18:00%s" % (via, text, z.id, amb), {"id": text, "culture": culture})
                continue
            ref = DateTimeZone.for_offset(Offset.from_seconds(exp))
            ok = True
            for p in (MIN_NS, 0, MAX_NS):
                t = zw.iv_tuple(z.get_zone_interval(zw.mk_instant(p)))
                if t[0] is not None or t[1] is not None or t[3] != exp or t[4] != 0:
                    ok = False
            acc.count(evaluations=4, transitions=4)
            # (the id TEXT of a for_offset zone is rendered with the ambient culture - compared only under the default culture)
            same_zone = culture is not None or (z == ref and z.id == ref.id)
            if not ok or z.min_offset.seconds != exp or z.max_offset.seconds != exp or not same_zone:
                acc.violation(K + "zone/%s" % tk, "%s(%r) gives zone %r with offsets [%d, %d]; expected the fixed zone of %+ds (%r)%s" % (
                    via, text, z.id, z.min_offset.seconds, z.max_offset.seconds, exp, ref.id, amb), {"id": text, "expected_offset": exp, "culture": culture})
            elif culture is None:
                acc.outcome("fixed-id:resolved" + (":canonical-text" if z.id == text else ":other-spelling"))
            else:
                acc.outcome("fixed-id under ambient culture %s: resolved" % culture)


AMBIENT_CULTURES = ("fi-FI", "da-DK", "id-ID", "th-TH", "ar-SA", "ko-KR", "fa-IR")
# time separators ".", ".", ".", ICU's own for th-TH / ko-KR, ":" with Arabic-script digits in the culture data (ar-SA, fa-IR)


def _py_culture(text, exp, culture):
    if culture is None or exp is None:
        return None
    return ("from pyoda_time import DateTimeZoneProviders\nfrom pyoda_time._compatibility._culture_info import CultureInfo\n\n"
            "def test_replay():\n    old = CultureInfo.current_culture\n    CultureInfo.current_culture = CultureInfo(%r)\n    try:\n"
            "        z = DateTimeZoneProviders.tzdb.get_zone_or_none(%r)\n    finally:\n        CultureInfo.current_culture = old\n"
            "    assert z is not None and z.max_offset.seconds == %d\n" % (culture, text, exp))


class ambient_culture:
    """with ambient_culture(name): the calling thread's CultureInfo.current_culture is `name`; always restored"""

    def __init__(self, name):
        self.name = name

    def __enter__(self):
        from pyoda_time._compatibility._culture_info import CultureInfo
        self.ci = CultureInfo
        self.old = CultureInfo.current_culture
        CultureInfo.current_culture = CultureInfo(self.name)
        return self

    def __exit__(self, *a):
        self.ci.current_culture = self.old
        return False


def check_lookups_under_culture(acc, culture):
    """a small slice of provider / source lookups repeated under an ambient culture: same ids, same zone data"""
    for which in FILES:
        data, f = zw.decoded(which)
        if f is None:
            continue
        prov = zw.provider(which)
        src = zw.source(which)
        cmap = nzdref.canonical_map(f)
        ids = [i for i in ("Europe/London", "GB", "America/St_Johns", "Asia/Kolkata", "Asia/Calcutta", "Etc/GMT+5", "Pacific/Apia", "Australia/Lord_Howe") if i in cmap]
        K = "C06/%s/ambient-culture/" % which
        acc.count(states=len(ids) + 2, nontrivial=len(ids) + 2)
        with ambient_culture(culture):
            got_ids = list(prov.ids)
            got_version = prov.version_id
            zones = []
            for zid in ids:
                try:
                    z = src.for_id(zid)          # built afresh from the bytes while the culture is in force
                    zp = prov[zid]
                    lo, hi = zw.year_start_ns(1900), zw.year_start_ns(2040)
                    zones.append((zid, z.id, zp.id, zw.walk(z, lo, hi).tuples, lo, hi))
                except Exception as ex:  # noqa: BLE001
                    acc.lib_exception(K + "lookup/%s" % zid, ex, {"file": which, "zone": zid, "culture": culture})
            try:
                miss = prov.get_zone_or_none("Nowhere/Land")
            except Exception as ex:  # noqa: BLE001
                acc.lib_exception(K + "unknown-id", ex, {"file": which, "culture": culture})
                miss = None
        acc.count(evaluations=3 + 2 * len(ids), transitions=3 + 2 * len(ids))
        if got_ids != nzdref.all_ids(f) or got_version != "TZDB: %s (mapping: %s)" % (f["tzdb_version"], f["windows"]["version"]) or miss is not None:
            acc.violation(K + "catalogue", "ids / version_id / unknown-id lookup differ under CultureInfo.current_culture = %s" % culture, {"file": which, "culture": culture})
        for zid, id1, id2, tuples, lo, hi in zones:
            exp = tzrules.expected_intervals(f["zones"][cmap[zid]], lo, hi)
            exp = [(t[0], t[1], zid if t[2] is None else t[2], t[3], t[4]) for t in exp]      # a fixed zone stored without a name is named by its id
            acc.count(evaluations=len(tuples), transitions=len(tuples))
            if id1 != zid or id2 != zid or tuples != exp:
                acc.violation(K + "zone/%s" % zid, "zone %s looked up under CultureInfo.current_culture = %s has id %r/%r and %d intervals in 1900..2040, the file bytes say %d%s" % (
                    zid, culture, id1, id2, len(tuples), len(exp), "" if len(tuples) != len(exp) else " (contents differ)"), {"file": which, "zone": zid, "culture": culture})
        acc.outcome("provider lookups under ambient culture %s: %s" % (culture, which))


def _fixed_shard(job):
    culture, cases = job
    acc = Acc()
    try:
        if culture is None:
            check_fixed_ids(acc, cases)
        else:
            try:
                with ambient_culture(culture):
                    check_fixed_ids(acc, cases, culture)
                if cases and cases[0][0] == "UTC":
                    check_lookups_under_culture(acc, culture)
            except ImportError:
                acc.degrade("CultureInfo not importable from pyoda_time._compatibility._culture_info: ambient-culture repetition skipped")
    except Exception as ex:  # noqa: BLE001
        acc.lib_exception("C06/fixed-id", ex, {"culture": culture})
    return acc


# ---- driver -----------------------------------------------------------------------------------

def build_items(tier, seed):
    items = []
    for which in FILES:
        data, f = zw.decoded(which)
        if f is None:
            continue
        cmap = nzdref.canonical_map(f)
        for zid in nzdref.all_ids(f):
            canon = cmap[zid]
            rz = f["zones"].get(canon)
            if rz is None:
                continue
            alias = canon != zid
            if rz["kind"] == "fixed":
                items.append((which, zid, canon, []))
            elif tier == "thorough" and not alias:
                for wdw in zw.plan(rz, "full", chunk_years=1900):
                    items.append((which, zid, canon, [wdw]))
            else:
                wins = zw.plan(rz, "cycle", cycle_years=ALIAS_TAIL_YEARS if alias else zw.CYCLE_YEARS)
                if tier == "quick" and len(wins) == 2 and not alias:
                    y0 = tzrules.year_of_ns(wins[0][1])
                    span = zw.FINAL_FROM_YEAR - 21 - y0
                    if span > 0:
                        y = y0 + ((seed + 5) * 1201) % span
                        wins = [wins[0], (zw.year_start_ns(y), zw.year_start_ns(y + 20)), wins[1]]
                items.append((which, zid, canon, wins))
    est = lambda it: sum((hi - lo) // (366 * DAY_NS) if lo > MIN_NS else 450 for lo, hi in it[3])  # noqa: E731
    items.sort(key=lambda it: (-est(it), it[0], it[1], it[3][0][0] if it[3] else 0))
    return items


def run(ctx):
    tier = ctx.tier
    ctx.rule = ("states = (file, zone id, interval) triples compared with the reference; non-trivial = transitions compared (stored, seam, rule-generated) "
                "+ ids / fixed-offset id texts examined; besides the forward walk every reference interval is queried through the provider's cached zone at "
                "start+1ns, midpoint and end-1ns, and every 32-day cache period with two or more reference transitions once more in descending order "
                "(period start, each transition-1ns, the probe points, period end) - all judged against the reference list, not the library's walk; "
                "plus cache-order histories on fresh zone objects (vf.models.zonewalk.cache_order_histories, reduced set) judged the same way")
    ctx.assumptions = ["reference decoder and rule evaluator (vf/models/nzdref.py, tzrules.py) are written from the format description and import nothing from pyoda_time",
                       "quick tier: recurring tails compared for 400 years after the tail start + one seed-positioned block of 20 years + 9997..9999; "
                       "thorough: every canonical zone of both files to the end of time; aliases: stored periods + %d tail years + 9997..9999" % ALIAS_TAIL_YEARS,
                       "the fixed-id grid and a slice of provider/source lookups are repeated with CultureInfo.current_culture set to each of %s "
                       "(restored in a finally): results must not depend on the ambient culture; the id TEXT of the returned zone is not compared there" % (AMBIENT_CULTURES,),
                       "fixed-offset id grid: UTC, UTC+/-hh, hh:mm, hh:mm:ss with hh 0..18, mm/ss in {00,01,30,59} (within +-18:00) plus %d near misses" % sum(1 for _, e in fixed_id_grid() if e is None)]
    for d in zw.DEGRADED:
        ctx.degrade(d)
    only = getattr(ctx, "only", None)
    for which in FILES:
        data, f = zw.decoded(which)
        if f is None:
            ctx.degrade("second real file tests/test_data/Tzdb2013bFromNodaTime1.1.nzd not found next to the library; only the bundled file is checked")
            continue
        zw.provider(which)       # build before forking
        if not only or "catalogue" in only:
            acc = Acc()
            try:
                check_catalogue(acc, which)
            except Exception as ex:  # noqa: BLE001
                acc.lib_exception("C06/%s/catalogue" % which, ex, {"file": which})
            ctx.merge_part("catalogue", acc)
    if not only or "zones" in only:
        items = build_items(tier, ctx.seed)
        if ctx.seed and items:
            r = ctx.seed % len(items)
            items = items[r:] + items[:r]
        seams = {}
        for a in pmap(_zone_item, items):
            for k, lst in a.notes.pop("seams", {}).items():
                seams.setdefault(k, []).extend(lst)
            ctx.merge_part("zones", a)
        sacc = Acc()
        dup = 0
        for k, lst in seams.items():
            lst.sort(key=lambda r: r[0])
            for i in range(len(lst) - 1):
                (lo1, hi1, f1, l1), (lo2, hi2, f2, l2) = lst[i], lst[i + 1]
                if hi1 == lo2 and l1 is not None and f2 is not None:
                    dup += 1
                    if tuple(l1) != tuple(f2):
                        sacc.violation("C06/seam/%s" % k, "walk segments disagree about the interval holding %s" % zw.fmt_ns(hi1), {"zone": k})
        sacc.count(states=-dup)
        ctx.merge_part("zones", sacc)
        ctx.note("work_items", len(items))
    if not only or "fixed-id" in only:
        grid = fixed_id_grid()
        jobs = [(None, grid[i::8]) for i in range(8)]
        for cul in AMBIENT_CULTURES:
            jobs += [(cul, grid[i::4]) for i in range(4)]
        for a in pmap(_fixed_shard, jobs):
            ctx.merge_part("fixed-id", a)
        ctx.note("fixed_id_texts", len(grid))
        ctx.note("ambient_cultures", list(AMBIENT_CULTURES))
    # declared finite space of the thorough tier: every stored period and every rule-generated transition through 9999 of every canonical
    # zone of both files (+ the alias windows and the id grid named in the assumptions)
    ctx.exhaustive = (tier == "thorough") and not only and not ctx.caps and not ctx.degraded and not any("/no-termination/" in k for k in ctx.violations)
    if tier == "quick":
        ctx.cap("quick tier: recurring tails compared for 400 years after their start + 20 seed-positioned years + 9997-9999")


def replay(rec):
    case = rec.get("case") or {}
    if isinstance(case, dict) and isinstance(case.get("case"), dict):
        case = case["case"]
    acc = Acc()
    if "id" in case and "zone" not in case:
        cases = [c for c in fixed_id_grid() if c[0] == case["id"]]
        if case.get("culture"):
            with ambient_culture(case["culture"]):
                check_fixed_ids(acc, cases, case["culture"])
        else:
            check_fixed_ids(acc, cases)
    elif "zone" in case:
        which = case.get("file", "bundled")
        _, f = zw.decoded(which)
        zid = case["zone"]
        canon = nzdref.canonical_map(f)[zid]
        wdw = case.get("window") or [MIN_NS, MAX_NS]
        a = _zone_item((which, zid, canon, [tuple(wdw)]))
        a.notes.pop("seams", None)
        acc.merge(a)
    else:
        for which in FILES:
            check_catalogue(acc, which)
    for k, v in acc.violations.items():
        print(k, v[0])
    return bool(acc.violations)
