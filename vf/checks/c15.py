"""C15 - conversions to and from datetime.date / time / datetime / timedelta are exact and round-trip.

The reference is the standard library itself plus integer arithmetic (vf/models/intarith.py): a stdlib value is reduced
to (proleptic Gregorian ordinal, microsecond of day, utc offset in seconds) and the Pyoda Time value to
(day number, nanosecond of day, offset seconds, calendar id); the two must agree exactly, and converting back must
give the original stdlib value.  Pyoda -> stdlib: same physical day/time/instant, sub-microsecond part truncated toward
the start of time (toward zero for Duration/Offset), outside the stdlib range an exception and never a wrong value.

Parts
  date             every datetime.date (all 3 652 059 ordinals): from_date fields + to_date, both directions
  date-calendars   LocalDate of every calendar -> to_date (inside: same day; outside 0001..9999: must raise)
  time             every second of the day x microsecond {0,1,999,1000,999999}: from_time/to_time; sub-us truncation
  datetime-naive   boundary dates x boundary times (+ every day of years 1 and 9999): from/to_naive_datetime, all calendars
  datetime-aware   x every whole-minute offset in +/-18 h (+/-1 s, +/-59 s): OffsetDateTime and Instant bridges
  timedelta        Duration <-> timedelta alphabet (range ends, +/-1 us around days), Offset <-> timedelta all 129 601 seconds
  datetime-tzinfo  aware datetimes whose tzinfo has a date-dependent offset: 6 zoneinfo zones x wall times around every transition of
                   4 years (both folds: inside overlaps and gaps, +/-1 us at their edges) and a user-defined tzinfo depending on month
                   and fold; reference = the stdlib's own utcoffset() for that datetime
  history          every stdlib->Pyoda route on sequences (A, B) and (A, B, A) of arguments that are == and hash-equal as stdlib values
                   but not the same conversion (same instant at another offset, fold, subclass instance, equal timedelta, other
                   calendar argument): each result must be the conversion of its own argument
  ambient          a slice of every part repeated in worker processes whose local time zone (TZ + time.tzset()) is JST-9 and
                   EST5EDT: conversions must not depend on the ambient zone of the process
Every bridge is also called with its documented parameter names as keywords (same value as the positional call).
"""
from __future__ import annotations

import datetime as dt
import functools
import os
import time as _time

from pyoda_time import CalendarSystem, Duration, Instant, LocalDate, LocalDateTime, LocalTime, Offset, OffsetDateTime

from vf.core.evidence import Acc, exc_origin
from vf.core.par import pmap
from vf.models import intarith as M
from vf.models import tzcases as TZ
from vf.models.valbind import cal_range, date_at, day_of, make_kwf, private_ok

LEVEL = "model_checking"
NSD = M.NS_DAY
ORD_EPOCH = 719163                 # date(1970,1,1).toordinal()
ORD_MAX = dt.date.max.toordinal()  # 3652059
DAY_MIN = 1 - ORD_EPOCH            # day number of 0001-01-01
DAY_MAX = ORD_MAX - ORD_EPOCH      # day number of 9999-12-31
UTC = dt.timezone.utc


# documented parameter names of the bridges, also called by keyword (dropped with a 'degraded' note if a tree does not accept them)
KW_NAMES = {"LocalDate.from_date": ("date",), "LocalTime.from_time": ("time",), "LocalDateTime.from_naive_datetime": ("dt", "calendar"),
            "Instant.from_aware_datetime": ("dt",), "OffsetDateTime.from_aware_datetime": ("aware_datetime",),
            "Duration.from_timedelta": ("timedelta",), "Offset.from_timedelta": ("timedelta",)}
kwf = make_kwf(KW_NAMES, {"LocalDate": LocalDate, "LocalTime": LocalTime, "LocalDateTime": LocalDateTime, "Instant": Instant,
                          "OffsetDateTime": OffsetDateTime, "Duration": Duration, "Offset": Offset})
# ambient process state: local time zones under which a slice of every part is repeated (results must not depend on them)
AMBIENT_TZS = (("JST-9", "JST-9"), ("EST5EDT", "EST5EDT4,M3.2.0,M11.1.0"))


def same_kw(acc, qual, ref, key, case, *args):
    """the keyword spelling of a bridge must give the same value as the positional call"""
    for f in kwf(acc, qual, *args):
        acc.count(transitions=1, evaluations=1)
        try:
            r = f()
        except Exception as e:  # noqa: BLE001
            if exc_origin(e) == "harness":
                raise
            acc.violation(key + "/keyword-raises/" + type(e).__name__, "%s by keyword raised %s: %s" % (qual, type(e).__name__, str(e)[:100]), case)
            continue
        if r != ref:
            acc.violation(key + "/keyword-differs", "%s by keyword gives %r, positional call gives %r" % (qual, r, ref), case)


def worker(fn):
    @functools.wraps(fn)
    def w(job):
        try:
            return fn(job)
        except Exception as e:  # noqa: BLE001
            if exc_origin(e) == "harness":
                raise
            acc = Acc()
            acc.lib_exception("C15/%s/shard-aborted" % fn.__name__, e, {"job": repr(job)[:400]})
            return acc
    return w


def call(acc, fn, key, case, ok=True, py=None):
    """fn() -> (True, value) or (False, None).  ok=False: the call must raise (any exception); a returned value is reported
    by the caller.  ok=True: an exception from library code is a violation."""
    acc.count(transitions=1, evaluations=1)
    try:
        return True, fn()
    except Exception as e:  # noqa: BLE001
        if exc_origin(e) == "harness":
            raise
        if ok:
            acc.violation("%s/raises/%s" % (key, type(e).__name__), "raised %s: %s on a value inside the range" % (type(e).__name__, str(e)[:120]), case, py)
        else:
            acc.outcome("raise:" + type(e).__name__)
        return False, None


def us_of(t: dt.time) -> int:
    return ((t.hour * 60 + t.minute) * 60 + t.second) * 10 ** 6 + t.microsecond


def time_from_us(us: int) -> dt.time:
    s, u = divmod(us, 10 ** 6)
    return dt.time(s // 3600, (s // 60) % 60, s % 60, u)


def yclass(ordinal):
    if ordinal <= 366:
        return "year-1" if ordinal <= 365 else "year-2-start"
    if ordinal > ORD_MAX - 365:
        return "year-9999"
    return "mid"


# ---------------------------------------------------------------------------------------------------- date
@worker
def w_dates(job):
    lo, hi = job
    acc = Acc()
    iso = CalendarSystem.iso
    for n in range(lo, hi):
        d = dt.date.fromordinal(n)
        case = {"kind": "date", "ordinal": n}
        acc.count(states=1, transitions=2, evaluations=3)
        try:
            ld = LocalDate.from_date(d)
            if (ld.year, ld.month, ld.day) != (d.year, d.month, d.day) or ld.calendar != iso or day_of(ld) != n - ORD_EPOCH:
                acc.violation("C15/date/from_date/fields/%s" % yclass(n), "from_date(%s) is %d-%02d-%02d %s (day %d)" % (d, ld.year, ld.month, ld.day, ld.calendar.id, day_of(ld)), case)
                continue
            if d.day == 1:
                same_kw(acc, "LocalDate.from_date", ld, "C15/date/from_date", case, d)
            back = ld.to_date()
            if back != d or type(back) is not dt.date:
                acc.violation("C15/date/roundtrip/%s" % yclass(n), "from_date(%s).to_date() is %r" % (d, back), case)
            # the independent direction: the Pyoda value built from its own fields
            if LocalDate(d.year, d.month, d.day).to_date() != d:
                acc.violation("C15/date/to_date/%s" % yclass(n), "LocalDate(%d,%d,%d).to_date() is not %s" % (d.year, d.month, d.day, d), case)
        except Exception as e:  # noqa: BLE001
            if exc_origin(e) == "harness":
                raise
            acc.lib_exception("C15/date/%s" % yclass(n), e, case)
        if d.day == 1 or n in (1, ORD_MAX):
            acc.count(nontrivial=1)
    acc.outcome("roundtrip", hi - lo)
    if lo <= ORD_EPOCH < hi or lo == 1:
        acc.sample({"date": str(dt.date.fromordinal(lo)), "ordinals": [lo, hi]})
    return acc


def check_cal_date(acc, cal_id, n):
    """LocalDate with day number n in calendar cal_id -> to_date"""
    cal = CalendarSystem.for_id(cal_id)
    ld = date_at(n, cal)
    inside = DAY_MIN <= n <= DAY_MAX
    case = {"kind": "cal-date", "cal": cal_id, "day": n}
    rel = "inside" if inside else ("before-year-1" if n < DAY_MIN else "after-year-9999")
    key = "C15/date-calendars/to_date/%s;%s" % (cal_id, rel if not inside else yclass(n + ORD_EPOCH))
    acc.count(states=1)
    ok, r = call(acc, ld.to_date, key, case, ok=inside)
    if not ok:
        return
    if not inside:
        acc.violation(key + "/no-raise", "day %d of %s is outside datetime.date's range but to_date() returned %r" % (n, cal_id, r), case)
        return
    acc.outcome("value")
    if r != dt.date.fromordinal(n + ORD_EPOCH):
        acc.violation(key + "/value", "%s day %d (%s) .to_date() is %s, same physical day is %s" % (cal_id, n, ld, r, dt.date.fromordinal(n + ORD_EPOCH)), case)


@worker
def w_cal_dates(job):
    cal_id, days = job
    acc = Acc()
    for n in days:
        check_cal_date(acc, cal_id, n)
    acc.count(nontrivial=sum(1 for n in days if not (DAY_MIN + 1 < n < DAY_MAX - 1)))
    if days:
        acc.sample({"calendar": cal_id, "days": len(days), "first": days[0], "last": days[-1]})
    return acc


def cal_day_list(cal_id, thorough, seed):
    lo, hi, _ = cal_range(cal_id)
    s = set()
    a, b = max(lo, DAY_MIN), min(hi, DAY_MAX)
    win = 400
    for c in (lo, hi, DAY_MIN, DAY_MAX, a, b, 0):
        for n in range(c - win, c + win + 1):
            if lo <= n <= hi:
                s.add(n)
    stride = 1 if thorough else 211
    if a <= b:
        s.update(range(a + (seed % stride), b + 1, stride))
    # outside the stdlib range (only calendars reaching beyond it): spread + one extra seed-positioned block
    for (x, y) in ((lo, min(hi, DAY_MIN - 1)), (max(lo, DAY_MAX + 1), hi)):
        if x <= y:
            s.update(range(x, y + 1, 2003 if not thorough else 37))
            blk = x + (seed * 7919) % max(1, y - x + 1)
            s.update(range(blk, min(y, blk + 300) + 1))
    return sorted(s)


# ---------------------------------------------------------------------------------------------------- time
SUBUS = (0, 1, 500, 999)


@worker
def w_times(job):
    lo, hi = job
    acc = Acc()
    for sec in range(lo, hi):
        h, mi, s = sec // 3600, (sec // 60) % 60, sec % 60
        for us in (0, 1, 999, 1000, 999_999):
            tt = dt.time(h, mi, s, us)
            exp_ns = sec * M.NS_S + us * 1000
            case = {"kind": "time", "sec": sec, "us": us}
            acc.count(states=1)
            ok, lt = call(acc, lambda: LocalTime.from_time(tt), "C15/time/from_time", case)
            if not ok:
                continue
            if lt.nanosecond_of_day != exp_ns:
                acc.violation("C15/time/from_time/value/us=%d" % us, "from_time(%s) has nanosecond-of-day %d, exact %d" % (tt, lt.nanosecond_of_day, exp_ns), case,
                              py="import datetime\nfrom pyoda_time import LocalTime\n\ndef test_replay():\n    t = datetime.time(%d, %d, %d, %d)\n"
                                 "    assert LocalTime.from_time(t).nanosecond_of_day == %d\n    assert LocalTime.from_time(t).to_time() == t\n" % (h, mi, s, us, exp_ns))
                continue
            if us == 1:
                same_kw(acc, "LocalTime.from_time", lt, "C15/time/from_time", case, tt)
            ok, back = call(acc, lt.to_time, "C15/time/to_time", case)
            if ok and (back != tt or back.tzinfo is not None):
                acc.violation("C15/time/roundtrip/us=%d" % us, "from_time(%s).to_time() is %s" % (tt, back), case)
        # Pyoda -> stdlib with a sub-microsecond part: truncated toward the start of the day
        sub = SUBUS[sec % 4]
        us = (0, 999_999, 1, 123_456)[(sec // 4) % 4]
        t = sec * M.NS_S + us * 1000 + sub
        ok, r = call(acc, lambda: LocalTime.from_nanoseconds_since_midnight(t).to_time(), "C15/time/to_time", {"kind": "time-ns", "t": t})
        acc.count(states=1, nontrivial=1 if sub else 0)
        if ok and r != dt.time(h, mi, s, us):
            acc.violation("C15/time/to_time/truncation/sub=%d" % sub, "nanosecond-of-day %d .to_time() is %s, truncated value is %s" % (t, r, dt.time(h, mi, s, us)), {"kind": "time-ns", "t": t})
    acc.outcome("roundtrip", (hi - lo) * 5)
    acc.sample({"seconds_of_day": [lo, hi], "microseconds": [0, 1, 999, 1000, 999999]})
    return acc


# ---------------------------------------------------------------------------------------------------- datetimes
B_DATES = ((1, 1, 1), (1, 1, 2), (1, 2, 28), (1, 12, 31), (2, 1, 1), (4, 2, 29), (100, 2, 28), (100, 3, 1), (400, 2, 29), (1582, 10, 4), (1582, 10, 15),
           (1600, 2, 29), (1844, 3, 21), (1900, 2, 28), (1900, 3, 1), (1969, 12, 31), (1970, 1, 1), (1970, 1, 2), (2000, 2, 29), (2024, 2, 29),
           (2038, 1, 19), (2077, 11, 16), (2100, 2, 28), (9999, 1, 1), (9999, 12, 30), (9999, 12, 31))
B_TIMES_US = (0, 1, 999, 1000, 999_999, 10 ** 6, 43_199_999_999, 43_200_000_000, 47_107_123_456, 86_399_000_000, 86_399_999_998, 86_399_999_999)


def naive(ordinal, us):
    return dt.datetime.combine(dt.date.fromordinal(ordinal), time_from_us(us))


def check_naive(acc, ordinal, us, cal_ids):
    d = naive(ordinal, us)
    n = ordinal - ORD_EPOCH
    case = {"kind": "naive", "ordinal": ordinal, "us": us}
    yc = yclass(ordinal)
    acc.count(states=1)
    py = ("import datetime\nfrom pyoda_time import LocalDateTime\n\ndef test_replay():\n    d = datetime.datetime(%d, %d, %d, %d, %d, %d, %d)\n"
          "    assert LocalDateTime.from_naive_datetime(d).to_naive_datetime() == d\n" % (d.year, d.month, d.day, d.hour, d.minute, d.second, d.microsecond))
    ok, l = call(acc, lambda: LocalDateTime.from_naive_datetime(d), "C15/datetime-naive/from_naive_datetime/%s" % yc, case, py=py)
    if not ok:
        return
    got = (l.year, l.month, l.day, l.hour, l.minute, l.second, l.microsecond, l.nanosecond_of_day, l.calendar.id, day_of(l.date))
    exp = (d.year, d.month, d.day, d.hour, d.minute, d.second, d.microsecond, us * 1000, "ISO", n)
    if got != exp:
        acc.violation("C15/datetime-naive/from_naive_datetime/fields/%s" % yc, "from_naive_datetime(%s) has fields %r, exact %r" % (d, got, exp), case, py)
        return
    same_kw(acc, "LocalDateTime.from_naive_datetime", l, "C15/datetime-naive/from_naive_datetime/%s" % yc, case, d, CalendarSystem.iso)
    ok, back = call(acc, l.to_naive_datetime, "C15/datetime-naive/to_naive_datetime/%s" % yc, case, py=py)
    if ok and (back != d or back.tzinfo is not None):
        acc.violation("C15/datetime-naive/roundtrip/%s" % yc, "from_naive_datetime(%s).to_naive_datetime() is %s" % (d, back), case, py)
    for cid in cal_ids:
        lo, hi, _ = cal_range(cid)
        if not (lo <= n <= hi):
            continue
        cal = CalendarSystem.for_id(cid)
        c2 = dict(case, cal=cid)
        ok, lc = call(acc, lambda: LocalDateTime.from_naive_datetime(d, cal), "C15/datetime-naive/from_naive_datetime/%s;%s" % (cid, yc), c2)
        if not ok:
            continue
        same_kw(acc, "LocalDateTime.from_naive_datetime", lc, "C15/datetime-naive/from_naive_datetime/%s;%s" % (cid, yc), c2, d, cal)
        if (day_of(lc.date), lc.nanosecond_of_day, lc.calendar.id) != (n, us * 1000, cid):
            acc.violation("C15/datetime-naive/from_naive_datetime/fields/%s;%s" % (cid, yc), "from_naive_datetime(%s, %s) is (day %d, ns %d, %s)" % (
                d, cid, day_of(lc.date), lc.nanosecond_of_day, lc.calendar.id), c2)
            continue
        ok, back = call(acc, lc.to_naive_datetime, "C15/datetime-naive/to_naive_datetime/%s;%s" % (cid, yc), c2)
        if ok and back != d:
            acc.violation("C15/datetime-naive/roundtrip/%s;%s" % (cid, yc), "from_naive_datetime(%s, %s).to_naive_datetime() is %s" % (d, cid, back), c2)


def check_ldt_to_naive(acc, cal_id, n, t):
    """a LocalDateTime of any calendar (day number n, nanosecond-of-day t, possibly off a microsecond boundary) -> stdlib"""
    cal = CalendarSystem.for_id(cal_id)
    x = date_at(n, cal).at(LocalTime.from_nanoseconds_since_midnight(t))
    inside = DAY_MIN <= n <= DAY_MAX
    case = {"kind": "ldt-to-naive", "cal": cal_id, "day": n, "t": t}
    rel = yclass(n + ORD_EPOCH) if inside else ("before-year-1" if n < DAY_MIN else "after-year-9999")
    key = "C15/datetime-naive/to_naive_datetime/%s;%s" % (cal_id, rel)
    acc.count(states=1, nontrivial=1 if (t % 1000 or not inside) else 0)
    ok, r = call(acc, x.to_naive_datetime, key, case, ok=inside)
    if not ok:
        return
    if not inside:
        acc.violation(key + "/no-raise", "%s day %d is outside datetime's range but to_naive_datetime() returned %r" % (cal_id, n, r), case)
        return
    e = naive(n + ORD_EPOCH, t // 1000)
    if r != e or r.tzinfo is not None:
        acc.violation(key + "/value", "%s day %d + %d ns .to_naive_datetime() is %s, exact (truncated to us) %s" % (cal_id, n, t, r, e), case)


@worker
def w_naive(job):
    ordinals, times, cal_ids = job
    acc = Acc()
    for o in ordinals:
        for us in times:
            check_naive(acc, o, us, cal_ids)
    acc.outcome("roundtrip", len(ordinals) * len(times))
    if ordinals:
        acc.sample({"naive_datetime": str(naive(ordinals[0], times[-1])), "calendars": len(cal_ids)})
    return acc


@worker
def w_ldt_to_naive(job):
    cal_id, days, times = job
    acc = Acc()
    for n in days:
        for t in times:
            check_ldt_to_naive(acc, cal_id, n, t)
    return acc


def offsets_alphabet(thorough):
    v = set(range(M.OFF_MIN_S, M.OFF_MAX_S + 1, 60))
    for m in range(M.OFF_MIN_S, M.OFF_MAX_S + 1, 60 if thorough else 1800):
        for d in (-59, -1, 1, 59):
            if M.in_off(m + d):
                v.add(m + d)
    return sorted(v)


def check_aware(acc, ordinal, us, off, off_us=0):
    """aware datetime with fixed offset off seconds (+ off_us microseconds, Instant bridge only)"""
    tz = dt.timezone(dt.timedelta(seconds=off, microseconds=off_us))
    a = naive(ordinal, us).replace(tzinfo=tz)
    n = ordinal - ORD_EPOCH
    case = {"kind": "aware", "ordinal": ordinal, "us": us, "off": off, "off_us": off_us}
    yc = yclass(ordinal)
    ocls = "off=%s" % ("zero" if off == 0 else ("neg" if off < 0 else "pos")) + (",sub-minute" if off % 60 else "") + (",beyond-18h" if not M.in_off(off) else "")
    acc.count(states=1)
    # --- OffsetDateTime bridge (offsets of whole seconds inside +/-18 h are representable)
    if off_us == 0:
        ok, o = call(acc, lambda: OffsetDateTime.from_aware_datetime(a), "C15/datetime-aware/odt-from/%s;%s" % (yc, ocls), case, ok=M.in_off(off))
        if ok and not M.in_off(off):
            acc.violation("C15/datetime-aware/odt-from/no-raise/%s" % ocls, "offset %d s is outside +/-18 h but from_aware_datetime(%s) returned %r" % (off, a, o), case)
        elif ok:
            loc = o.local_date_time
            got = (day_of(loc.date), loc.nanosecond_of_day, o.offset.seconds, o.calendar.id)
            if got != (n, us * 1000, off, "ISO"):
                acc.violation("C15/datetime-aware/odt-from/fields/%s;%s" % (yc, ocls), "OffsetDateTime.from_aware_datetime(%s) is (day, ns, offset, cal) %r, exact %r" % (
                    a, got, (n, us * 1000, off, "ISO")), case)
            else:
                same_kw(acc, "OffsetDateTime.from_aware_datetime", o, "C15/datetime-aware/odt-from/%s;%s" % (yc, ocls), case, a)
                ok, back = call(acc, o.to_aware_datetime, "C15/datetime-aware/odt-to/%s;%s" % (yc, ocls), case)
                if ok and (back != a or back.utcoffset() != a.utcoffset() or back.replace(tzinfo=None) != a.replace(tzinfo=None)):
                    acc.violation("C15/datetime-aware/odt-roundtrip/%s;%s" % (yc, ocls), "from_aware_datetime(%s).to_aware_datetime() is %s" % (a, back), case)
    else:
        # sub-second utc offset: Offset has whole seconds; the fractional part is truncated toward zero (documented on
        # Offset.from_timedelta), the local date/time is kept as it is
        tot = off * 10 ** 6 + off_us
        toff = M.tdiv(tot, 10 ** 6)
        inr = M.OFF_MIN_S * 10 ** 6 <= tot <= M.OFF_MAX_S * 10 ** 6
        okey = "C15/datetime-aware/odt-from/%s;%s,sub-second" % (yc, ocls)
        ok, o = call(acc, lambda: OffsetDateTime.from_aware_datetime(a), okey, case, ok=inr)
        if ok and not inr:
            acc.violation("C15/datetime-aware/odt-from/no-raise/%s,sub-second" % ocls, "offset %d us is outside +/-18 h but from_aware_datetime(%s) returned %r" % (tot, a, o), case)
        elif ok:
            acc.outcome("odt-from:sub-second offset truncated toward zero")
            loc = o.local_date_time
            got = (day_of(loc.date), loc.nanosecond_of_day, o.offset.seconds, o.calendar.id)
            if got != (n, us * 1000, toff, "ISO"):
                acc.violation("C15/datetime-aware/odt-from/fields/%s;%s,sub-second" % (yc, ocls),
                              "OffsetDateTime.from_aware_datetime(%s) is (day, ns, offset, cal) %r, exact (local kept, offset truncated toward zero) %r" % (
                                  a, got, (n, us * 1000, toff, "ISO")), case)
            else:
                ok, back = call(acc, o.to_aware_datetime, "C15/datetime-aware/odt-to/%s;%s,sub-second" % (yc, ocls), case)
                if ok and (back.utcoffset() != dt.timedelta(seconds=toff) or back.replace(tzinfo=None) != a.replace(tzinfo=None)):
                    acc.violation("C15/datetime-aware/odt-roundtrip/%s;%s,sub-second" % (yc, ocls), "from_aware_datetime(%s).to_aware_datetime() is %s" % (a, back), case)
    # --- Instant bridge: exact instant = local - offset; back only when the UTC instant is inside 0001..9999
    inst_us = n * 86400 * 10 ** 6 + us - (off * 10 ** 6 + off_us)
    inst_ok = M.in_inst(inst_us * 1000)      # a local 9999-12-31 with a negative offset can lie beyond Instant's own range: must raise
    ok, i = call(acc, lambda: Instant.from_aware_datetime(a), "C15/datetime-aware/instant-from/%s;%s" % (yc, ocls), case, ok=inst_ok)
    if not ok:
        return
    if not inst_ok:
        acc.violation("C15/datetime-aware/instant-from/no-raise/beyond-instant-range", "the instant of %s is beyond Instant.max_value but %r was returned" % (a, i), case)
        return
    got_ns = (i - Instant.from_unix_time_ticks(0)).to_nanoseconds()
    if got_ns != inst_us * 1000:
        acc.violation("C15/datetime-aware/instant-from/value/%s;%s" % (yc, ocls), "Instant.from_aware_datetime(%s) is %d ns from the epoch, exact %d" % (a, got_ns, inst_us * 1000), case)
        return
    same_kw(acc, "Instant.from_aware_datetime", i, "C15/datetime-aware/instant-from/%s;%s" % (yc, ocls), case, a)
    utc_in = DAY_MIN * 86400 * 10 ** 6 <= inst_us < (DAY_MAX + 1) * 86400 * 10 ** 6
    if not utc_in:
        acc.count(nontrivial=1)
    ok, back = call(acc, i.to_datetime_utc, "C15/datetime-aware/instant-to/%s;%s" % (yc, ocls), case, ok=utc_in)
    if not ok:
        return
    if not utc_in:
        acc.violation("C15/datetime-aware/instant-to/no-raise/%s" % ("before-year-1" if inst_us < 0 else "after-year-9999"),
                      "UTC instant of %s is outside datetime's range but to_datetime_utc() returned %r" % (a, back), case)
        return
    if back != a or back.utcoffset() != dt.timedelta(0) or back.replace(tzinfo=None) != dt.datetime(1, 1, 1) + dt.timedelta(microseconds=inst_us - DAY_MIN * 86400 * 10 ** 6):
        acc.violation("C15/datetime-aware/instant-roundtrip/%s;%s" % (yc, ocls), "Instant.from_aware_datetime(%s).to_datetime_utc() is %s" % (a, back), case)


# utc offsets with a sub-second part (legal since Python 3.7; negative ones are normalised to days=-1 by timedelta): +/-1 us,
# +/-999999 us, mean-time like +/-00:19:32.13, next to +/-18 h, and beyond it
SUBSECOND_OFFSETS = ((0, 1), (0, -1), (0, 999_999), (0, -999_999), (3600, 250_000), (-3600, -250_000), (3600, 500_000), (-3600, -999_999),
                     (1172, 130_000), (-1172, -130_000), (59, 999_999), (-59, -999_999), (M.OFF_MAX_S - 1, 999_999), (M.OFF_MIN_S + 1, -999_999),
                     (M.OFF_MAX_S, 1), (M.OFF_MIN_S, -1), (M.OFF_MAX_S, 0), (86399, 999_999), (-86399, -999_999))


@worker
def w_aware(job):
    ordinals, times, offs = job
    acc = Acc()
    for o in ordinals:
        for us in times:
            for off in offs:
                check_aware(acc, o, us, off)
    acc.outcome("cases", len(ordinals) * len(times) * len(offs))
    if ordinals and offs:
        acc.sample({"aware_datetime": str(naive(ordinals[0], times[0]).replace(tzinfo=dt.timezone(dt.timedelta(seconds=offs[0])))), "offsets": len(offs)})
    return acc


@worker
def w_aware_misc(job):
    ordinals, times = job
    acc = Acc()
    # offsets beyond +/-18 h (stdlib allows < 24 h) and with sub-second parts (Instant bridge only)
    for o in ordinals:
        for us in times:
            for off in (M.OFF_MAX_S + 1, M.OFF_MAX_S + 60, -M.OFF_MAX_S - 1, 86399, -86399):
                check_aware(acc, o, us, off)
            for off, off_us in SUBSECOND_OFFSETS:
                check_aware(acc, o, us, off, off_us)
    # Pyoda -> stdlib for instants (sub-microsecond truncated toward the start of time; before 0001-01-01 must raise)
    epoch = Instant.from_unix_time_ticks(0)
    for base in (M.INST_MIN_NS, DAY_MIN * NSD, 0, (DAY_MAX + 1) * NSD):
        for d in (-NSD - 1, -NSD, -1001, -1000, -999, -1, 0, 1, 999, 1000, 1001, NSD - 1, NSD, 86_399_999_999_999, 43_200_000_000_500):
            ns = base + d
            if not M.in_inst(ns):
                continue
            inside = ns >= DAY_MIN * NSD
            case = {"kind": "instant-to", "ns": ns}
            i = epoch + Duration.from_nanoseconds(ns)
            key = "C15/datetime-aware/instant-to/%s" % ("inside" if inside else "before-year-1")
            acc.count(states=1, nontrivial=1 if (ns % 1000 or not inside) else 0)
            ok, r = call(acc, i.to_datetime_utc, key, case, ok=inside)
            if not ok:
                continue
            if not inside:
                acc.violation(key + "/no-raise", "instant %d ns is before 0001-01-01 but to_datetime_utc() returned %r" % (ns, r), case)
                continue
            e = dt.datetime(1970, 1, 1, tzinfo=UTC) + dt.timedelta(microseconds=ns // 1000)
            if r != e or r.utcoffset() != dt.timedelta(0):
                acc.violation(key + "/value", "instant %d ns .to_datetime_utc() is %s, exact (floored to us) %s" % (ns, r, e), case)
    return acc


def check_odt_to_aware(acc, cal_id, n, t, off):
    cal = CalendarSystem.for_id(cal_id)
    ldt = date_at(n, cal).at(LocalTime.from_nanoseconds_since_midnight(t))
    o = OffsetDateTime(ldt, Offset.from_seconds(off))
    inside = DAY_MIN <= n <= DAY_MAX
    case = {"kind": "odt-to-aware", "cal": cal_id, "day": n, "t": t, "off": off}
    rel = yclass(n + ORD_EPOCH) if inside else ("before-year-1" if n < DAY_MIN else "after-year-9999")
    key = "C15/datetime-aware/odt-to/%s;%s" % (cal_id, rel)
    acc.count(states=1, nontrivial=1 if (t % 1000 or not inside) else 0)
    ok, r = call(acc, o.to_aware_datetime, key, case, ok=inside)
    if not ok:
        return
    if not inside:
        acc.violation(key + "/no-raise", "%s local day %d is outside datetime's range but to_aware_datetime() returned %r" % (cal_id, n, r), case)
        return
    e = naive(n + ORD_EPOCH, t // 1000)
    if r.replace(tzinfo=None) != e or r.utcoffset() != dt.timedelta(seconds=off):
        acc.violation(key + "/value", "%s day %d + %d ns offset %d s .to_aware_datetime() is %s, exact %s%+d s" % (cal_id, n, t, off, r, e, off), case)


@worker
def w_odt_to_aware(job):
    cal_id, days, times, offs = job
    acc = Acc()
    for n in days:
        for t in times:
            for off in offs:
                check_odt_to_aware(acc, cal_id, n, t, off)
    return acc


# ---------------------------------------------------------------------------------------------------- timedelta
TD_MIN_US = -999_999_999 * 86400 * 10 ** 6
TD_MAX_US = (999_999_999 + 1) * 86400 * 10 ** 6 - 1
DAY_US = 86400 * 10 ** 6


def td_alphabet():
    v = {TD_MIN_US, TD_MIN_US + 1, TD_MAX_US - 1, TD_MAX_US, 0, 1, -1, 999, -999, 1000, -1000, 10 ** 6 - 1, 10 ** 6, 10 ** 6 + 1, -(10 ** 6) + 1, -(10 ** 6), -(10 ** 6) - 1,
         999_999_999 * DAY_US, -999_999_999 * DAY_US + 1, 2 ** 63 // 1000, -(2 ** 63) // 1000, 2 ** 53 + 1, -(2 ** 53) - 1}
    for k in (1, 2, 365, 106751, 106752, 2 ** 24, 170_000_000, 270_000_000, 2 ** 29, 999_999_998):
        for d in (-1, 0, 1, DAY_US - 1):
            v.add(k * DAY_US + d)
            v.add(-(k * DAY_US + d))
    return sorted(x for x in v if TD_MIN_US <= x <= TD_MAX_US)


def dur_ns_alphabet():
    v = set()
    for us in td_alphabet():
        for d in (0, 1, -1, 999, -999, 500):
            x = us * 1000 + d
            if M.in_dur(x):
                v.add(x)
    for x in (M.DUR_MIN_NS, M.DUR_MIN_NS + 1, M.DUR_MAX_NS, M.DUR_MAX_NS - 999, TD_MAX_US * 1000 + 999, TD_MAX_US * 1000 + 1000, TD_MIN_US * 1000 - 1, TD_MIN_US * 1000 - 999,
              TD_MIN_US * 1000 - 1000, -1, -999, -1000, -1001, 1, 999, 1000, 1001, -(10 ** 9) - 1):
        v.add(x)
    return sorted(v)


def scls(x):
    return "neg" if x < 0 else ("pos" if x > 0 else "zero")


@worker
def w_timedelta(_):
    acc = Acc()
    for us in td_alphabet():
        td = dt.timedelta(microseconds=us)
        case = {"kind": "timedelta", "us": us}
        acc.count(states=1, nontrivial=1 if us % DAY_US in (0, 1, DAY_US - 1) else 0)
        py = ("import datetime\nfrom pyoda_time import Duration\n\ndef test_replay():\n    td = datetime.timedelta(microseconds=%d)\n"
              "    d = Duration.from_timedelta(td)\n    assert d.to_nanoseconds() == %d\n    assert d.to_timedelta() == td\n" % (us, us * 1000))
        ok, d = call(acc, lambda: Duration.from_timedelta(td), "C15/timedelta/duration-from/%s" % scls(us), case, py=py)
        if not ok:
            continue
        if d.to_nanoseconds() != us * 1000:
            acc.violation("C15/timedelta/duration-from/value/%s" % scls(us), "from_timedelta(%r) is %d ns, exact %d" % (td, d.to_nanoseconds(), us * 1000), case, py)
            continue
        same_kw(acc, "Duration.from_timedelta", d, "C15/timedelta/duration-from/%s" % scls(us), case, td)
        ok, back = call(acc, d.to_timedelta, "C15/timedelta/duration-to/%s" % scls(us), case, py=py)
        if ok and back != td:
            acc.violation("C15/timedelta/duration-roundtrip/%s" % scls(us), "from_timedelta(%r).to_timedelta() is %r" % (td, back), case, py)
    for ns in dur_ns_alphabet():
        us = M.tdiv(ns, 1000)
        fits = TD_MIN_US <= us <= TD_MAX_US
        case = {"kind": "duration-to", "ns": ns}
        key = "C15/timedelta/duration-to/%s%s" % (scls(ns), ",sub-us" if ns % 1000 else "") + ("" if fits else ",beyond-timedelta")
        acc.count(states=1, nontrivial=1 if (ns % 1000 or not fits) else 0)
        d = Duration.from_nanoseconds(ns)
        py = ("import datetime\nfrom pyoda_time import Duration\n\ndef test_replay():\n    ns = %d\n    us = abs(ns) // 1000 * (1 if ns >= 0 else -1)\n"
              "    assert Duration.from_nanoseconds(ns).to_timedelta() == datetime.timedelta(microseconds=us)\n" % ns)
        ok, r = call(acc, d.to_timedelta, key, case, ok=fits, py=py if fits else None)
        if not ok:
            continue
        if not fits:
            acc.violation(key + "/no-raise", "%d ns is outside timedelta's range but to_timedelta() returned %r" % (ns, r), case)
        elif r != dt.timedelta(microseconds=us):
            acc.violation(key + "/value", "%d ns .to_timedelta() is %r (%d us), truncated toward zero is %d us" % (
                ns, r, (r.days * 86400 + r.seconds) * 10 ** 6 + r.microseconds, us), case, py)
    acc.sample({"timedelta_alphabet": len(td_alphabet()), "duration_alphabet": len(dur_ns_alphabet())})
    return acc


@worker
def w_offset_td(job):
    lo, hi = job
    acc = Acc()
    for s in range(lo, hi):
        td = dt.timedelta(seconds=s)
        case = {"kind": "offset-td", "s": s}
        acc.count(states=1)
        ok, o = call(acc, lambda: Offset.from_timedelta(td), "C15/timedelta/offset-from/%s" % scls(s), case)
        if not ok:
            continue
        if o.seconds != s:
            acc.violation("C15/timedelta/offset-from/value/%s" % scls(s), "Offset.from_timedelta(%r) is %d s" % (td, o.seconds), case)
            continue
        ok, back = call(acc, o.to_timedelta, "C15/timedelta/offset-to/%s" % scls(s), case)
        if ok and back != td:
            acc.violation("C15/timedelta/offset-roundtrip/%s" % scls(s), "Offset.from_timedelta(%r).to_timedelta() is %r" % (td, back), case)
        if s % 61 == 0 or s in (M.OFF_MIN_S, M.OFF_MAX_S):
            same_kw(acc, "Offset.from_timedelta", o, "C15/timedelta/offset-from/%s" % scls(s), case, td)
            # fractional seconds are truncated toward zero (documented); beyond +/-18 h must raise
            for us in (1, 999_999, -1, -999_999):
                tot = s * 10 ** 6 + us
                e = M.tdiv(tot, 10 ** 6)
                inr = M.OFF_MIN_S * 10 ** 6 <= tot <= M.OFF_MAX_S * 10 ** 6
                c2 = {"kind": "offset-td", "s": s, "us": us}
                acc.count(nontrivial=1)
                ok, o = call(acc, lambda: Offset.from_timedelta(dt.timedelta(seconds=s, microseconds=us)), "C15/timedelta/offset-from/%s,frac" % scls(tot), c2, ok=inr)
                if not ok:
                    continue
                if not inr:
                    acc.violation("C15/timedelta/offset-from/no-raise", "timedelta of %d us is beyond +/-18 h but Offset %d s was returned" % (tot, o.seconds), c2)
                elif o.seconds != e:
                    acc.violation("C15/timedelta/offset-from/truncation/%s" % scls(tot), "Offset.from_timedelta(%d us) is %d s, truncated toward zero is %d s" % (tot, o.seconds, e), c2)
    if lo == M.OFF_MIN_S:
        for td in (dt.timedelta(seconds=M.OFF_MAX_S + 1), dt.timedelta(seconds=M.OFF_MIN_S - 1), dt.timedelta(hours=24), dt.timedelta.max, dt.timedelta.min):
            ok, o = call(acc, lambda: Offset.from_timedelta(td), "C15/timedelta/offset-from/beyond", {"kind": "offset-td-beyond", "td": repr(td)}, ok=False)
            if ok:
                acc.violation("C15/timedelta/offset-from/no-raise", "%r is beyond +/-18 h but Offset %r was returned" % (td, o), {"kind": "offset-td-beyond", "td": repr(td)})
    return acc


# ---------------------------------------------------------------------------------------------------- date-dependent tzinfo
def check_tz_aware(acc, label, a):
    """aware datetime whose tzinfo has a date- (and fold-) dependent utc offset: it denotes local - a.utcoffset(), where utcoffset() is
    what the stdlib computes for THAT datetime"""
    off = a.utcoffset()
    off_s = off.days * 86400 + off.seconds
    other = a.replace(fold=1 - a.fold).utcoffset()
    kind = "fold=%d%s" % (a.fold, ",fold-matters" if other != off else "")
    loc = a.replace(tzinfo=None)
    n = loc.toordinal() - ORD_EPOCH
    us = us_of(loc.time())
    exact_us = TZ.exact_instant_us(a)
    case = {"kind": "tz-aware", "zone": label, "local": loc.isoformat(), "fold": a.fold}
    label = label.replace("/", ".")
    acc.count(states=1, nontrivial=1 if other != off else 0)
    key = "C15/datetime-tzinfo/instant-from/%s;%s" % (label, kind)
    ok, i = call(acc, lambda: Instant.from_aware_datetime(a), key, case)
    if ok:
        got = _inst_ns(i)
        if got != exact_us * 1000:
            acc.violation(key + "/value", "Instant.from_aware_datetime(%r) is %d ns from the epoch; with utcoffset() %s it denotes %d" % (a, got, off, exact_us * 1000), case)
        else:
            same_kw(acc, "Instant.from_aware_datetime", i, key, case, a)
            ok, back = call(acc, i.to_datetime_utc, "C15/datetime-tzinfo/instant-to/%s;%s" % (label, kind), case)
            if ok and (back.utcoffset() != dt.timedelta(0) or back.replace(tzinfo=None) != dt.datetime(1970, 1, 1) + dt.timedelta(microseconds=exact_us)):
                acc.violation("C15/datetime-tzinfo/instant-roundtrip/%s;%s" % (label, kind), "Instant.from_aware_datetime(%r).to_datetime_utc() is %s" % (a, back), case)
    if off.microseconds == 0 and M.in_off(off_s):
        key = "C15/datetime-tzinfo/odt-from/%s;%s" % (label, kind)
        ok, o = call(acc, lambda: OffsetDateTime.from_aware_datetime(a), key, case)
        if ok:
            got = _obs_odt(o)
            if got != (n, us * 1000, off_s, "ISO"):
                acc.violation(key + "/fields", "OffsetDateTime.from_aware_datetime(%r) is (day, ns, offset, cal) %r, exact %r" % (a, got, (n, us * 1000, off_s, "ISO")), case)
            else:
                ok, back = call(acc, o.to_aware_datetime, "C15/datetime-tzinfo/odt-to/%s;%s" % (label, kind), case)
                if ok and (back.utcoffset() != off or back.replace(tzinfo=None) != loc):
                    acc.violation("C15/datetime-tzinfo/odt-roundtrip/%s;%s" % (label, kind), "from_aware_datetime(%r).to_aware_datetime() is %s" % (a, back), case)


@functools.cache
def tz_cases():
    cases, missing = TZ.zone_cases()
    return cases + TZ.custom_cases(), missing


@worker
def w_tz_aware(job):
    lo, hi = job
    acc = Acc()
    cases, _ = tz_cases()
    for label, a in cases[lo:hi]:
        check_tz_aware(acc, label, a)
    acc.outcome("tzinfo-cases", hi - lo)
    if lo == 0 and cases:
        acc.sample({"tz_aware": repr(cases[5][1]), "utcoffset": str(cases[5][1].utcoffset())})
    return acc


# ---------------------------------------------------------------------------------------------------- call history
class _DT(dt.datetime):
    pass


class _D(dt.date):
    pass


class _T(dt.time):
    pass


class _TD(dt.timedelta):
    pass


def _obs_odt(o):
    loc = o.local_date_time
    return (day_of(loc.date), loc.nanosecond_of_day, o.offset.seconds, o.calendar.id)


def _model_odt(a):
    off = a.utcoffset()
    return (a.toordinal() - ORD_EPOCH, us_of(a.timetz()) * 1000, off.days * 86400 + off.seconds, "ISO")


def _inst_ns(i):
    return (i - Instant.from_unix_time_ticks(0)).to_nanoseconds()


def _model_inst(a):
    off = a.utcoffset()
    return ((a.toordinal() - ORD_EPOCH) * 86400 * 10 ** 6 + us_of(a.timetz()) - ((off.days * 86400 + off.seconds) * 10 ** 6 + off.microseconds)) * 1000


def history_groups():
    """route -> list of (relation, group); a group is a list of argument tuples that are pairwise == and hash-equal in the stdlib
    sense (so anything keyed on the stdlib object confuses them) but denote different conversions or are distinct objects"""
    out = {"odt-from-aware": [], "instant-from-aware": [], "from_naive_datetime": [], "from_date": [], "from_time": [],
           "duration-from-timedelta": [], "offset-from-timedelta": []}
    for base in (dt.datetime(1970, 1, 1, tzinfo=UTC), dt.datetime(2000, 2, 29, 23, 59, 59, 999_999, tzinfo=UTC), dt.datetime(1, 1, 2, 0, 0, 0, 1, tzinfo=UTC),
                 dt.datetime(9999, 12, 30, 12, 0, tzinfo=UTC)):
        g = []
        for off in (0, 3600, -18000, 19800, 1, -1, M.OFF_MAX_S, M.OFF_MIN_S):
            g.append((base.astimezone(dt.timezone(dt.timedelta(seconds=off))),))
        a = g[1][0]
        g.append((a.replace(fold=1),))
        g.append((_DT(a.year, a.month, a.day, a.hour, a.minute, a.second, a.microsecond, tzinfo=a.tzinfo),))
        out["odt-from-aware"].append(("same-instant-other-offset/fold/subclass", g))
        out["instant-from-aware"].append(("same-instant-other-offset/fold/subclass", g))
    for name, g in TZ.shared_tzinfo_groups():
        grp = [(x,) for x in g]
        out["odt-from-aware"].append(("shared-tzinfo-object-other-offset", grp))
        out["instant-from-aware"].append(("shared-tzinfo-object-other-offset", grp))
    for d in (dt.datetime(2000, 2, 29, 1, 30, 0, 5), dt.datetime(1, 1, 1), dt.datetime(9999, 12, 31, 23, 59, 59, 999_999)):
        sub = _DT(d.year, d.month, d.day, d.hour, d.minute, d.second, d.microsecond)
        g = [(d,), (d.replace(fold=1),), (sub,), (d, CalendarSystem.iso), (d.replace(fold=1), CalendarSystem.gregorian)]
        n = d.toordinal() - ORD_EPOCH
        for x, cal in ((d, CalendarSystem.julian), (sub, CalendarSystem.coptic), (d, CalendarSystem.hebrew_civil)):
            lo, hi, _ = cal_range(cal.id)
            if lo <= n <= hi:      # a calendar argument is only meaningful when the calendar contains the day
                g.append((x, cal))
        out["from_naive_datetime"].append(("fold/subclass/calendar-argument", g))
    for d in (dt.date(2000, 2, 29), dt.date(1, 1, 1), dt.date(9999, 12, 31)):
        out["from_date"].append(("subclass/distinct-object", [(d,), (_D(d.year, d.month, d.day),), (dt.date.fromordinal(d.toordinal()),)]))
    for t in (dt.time(0, 0), dt.time(2, 30, 0, 1), dt.time(23, 59, 59, 999_999)):
        out["from_time"].append(("fold/subclass", [(t,), (t.replace(fold=1),), (_T(t.hour, t.minute, t.second, t.microsecond),)]))
    for us in (0, 86400 * 10 ** 6, -1, 3_600_000_000, -64_800_000_000):
        td = dt.timedelta(microseconds=us)
        g = [(td,), (_TD(microseconds=us),), (dt.timedelta(days=td.days, seconds=td.seconds, microseconds=td.microseconds),), (dt.timedelta(milliseconds=us // 1000, microseconds=us % 1000),)]
        out["duration-from-timedelta"].append(("equal-timedelta/subclass", g))
        if us % 10 ** 6 == 0 and M.in_off(us // 10 ** 6):
            out["offset-from-timedelta"].append(("equal-timedelta/subclass", g))
    return out


def _naive_model(d, cal=None):
    return (d.toordinal() - ORD_EPOCH, us_of(d.time()) * 1000, (cal or CalendarSystem.iso).id)


HISTORY_ROUTES = {
    "odt-from-aware": (lambda a: OffsetDateTime.from_aware_datetime(a), _model_odt, _obs_odt),
    "instant-from-aware": (lambda a: Instant.from_aware_datetime(a), _model_inst, _inst_ns),
    "from_naive_datetime": (lambda *x: LocalDateTime.from_naive_datetime(*x), _naive_model, lambda l: (day_of(l.date), l.nanosecond_of_day, l.calendar.id)),
    "from_date": (lambda d: LocalDate.from_date(d), lambda d: (d.toordinal() - ORD_EPOCH, "ISO"), lambda l: (day_of(l), l.calendar.id)),
    "from_time": (lambda t: LocalTime.from_time(t), lambda t: us_of(t) * 1000, lambda l: l.nanosecond_of_day),
    "duration-from-timedelta": (lambda td: Duration.from_timedelta(td), lambda td: ((td.days * 86400 + td.seconds) * 10 ** 6 + td.microseconds) * 1000, lambda d: d.to_nanoseconds()),
    "offset-from-timedelta": (lambda td: Offset.from_timedelta(td), lambda td: td.days * 86400 + td.seconds, lambda o: o.seconds),
}


def check_history(acc, route, gi):
    """every ordered pair (A, B) and triple (A, B, A) of one group through one route: each result must be the conversion of ITS
    argument, whatever equal-looking argument was converted just before"""
    fn, model, obs = HISTORY_ROUTES[route]
    rel, group = history_groups()[route][gi]
    for i, A in enumerate(group):
        for j, B in enumerate(group):
            if i == j:
                continue
            for seq in ((i, j), (i, j, i)):
                acc.count(states=1, nontrivial=1)
                for pos, k in enumerate(seq):
                    args = group[k]
                    case = {"kind": "history", "route": route, "group": gi, "seq": list(seq), "pos": pos}
                    ok, r = call(acc, lambda: fn(*args), "C15/history/%s/%s" % (route, rel), case)
                    if not ok:
                        break
                    got, exp = obs(r), model(*args)
                    if got != exp:
                        acc.violation("C15/history/%s/%s" % (route, rel),
                                      "call %d of the sequence %s gives %r, the conversion of its own argument %s is %r (arguments of the sequence are equal as stdlib values: %s)" % (
                                          pos + 1, [" ".join(str(x) for x in group[q]) for q in seq], got, " ".join(str(x) for x in args), exp, rel), case)
                        break


@worker
def w_history(job):
    route, gi = job
    acc = Acc()
    check_history(acc, route, gi)
    acc.outcome("history:" + route)
    if gi == 0:
        rel, group = history_groups()[route][0]
        acc.sample({"history_route": route, "relation": rel, "equal_arguments": [" ".join(str(x) for x in g) for g in group][:4]})
    return acc


# ---------------------------------------------------------------------------------------------------- ambient process state
def _set_tz(tz):
    old = os.environ.get("TZ")
    if tz is None:
        os.environ.pop("TZ", None)
    else:
        os.environ["TZ"] = tz
    _time.tzset()
    return old


def ambient_slice(acc, ordinals, times, offs):
    """a slice of every part, small enough to repeat under each ambient setting"""
    for o in ordinals:
        for us in times:
            for off in offs:
                check_aware(acc, o, us, off)
            check_naive(acc, o, us, ())
    acc.merge(w_aware_misc.__wrapped__((ordinals[:2] + ordinals[-2:], times[:2])))
    for n in (DAY_MIN, DAY_MIN + 1, 0, 11016, DAY_MAX):
        for t in (0, 999, NSD - 1):
            check_ldt_to_naive(acc, "ISO", n, t)
            for off in (0, M.OFF_MAX_S, M.OFF_MIN_S):
                check_odt_to_aware(acc, "ISO", n, t, off)
    for label, a in tz_cases()[0][::9]:
        check_tz_aware(acc, label, a)
    acc.merge(w_timedelta.__wrapped__(0))
    for lo, hi in ((1, 120), (ORD_EPOCH - 60, ORD_EPOCH + 60), (ORD_MAX - 119, ORD_MAX + 1)):
        acc.merge(w_dates.__wrapped__((lo, hi)))
    for lo, hi in ((0, 30), (43185, 43215), (86370, 86400)):
        acc.merge(w_times.__wrapped__((lo, hi)))


@worker
def w_ambient(job):
    label, tz, ordinals, times, offs = job
    inner = Acc()
    old = _set_tz(tz)
    try:
        local_offset = -_time.timezone
        ambient_slice(inner, ordinals, times, offs)
    finally:
        _set_tz(old)
    acc = Acc()
    acc.count(inner.states, inner.transitions, inner.evaluations, inner.nontrivial)
    for k, v in inner.outcomes.items():
        acc.outcome(k, v)
    acc.outcome("ambient:TZ=%s(utc offset %d s)" % (label, local_offset))
    for key, (what, case, py) in inner.violations.items():
        acc.violation(key.replace("C15/", "C15/ambient-tz=%s/" % label, 1), "[process TZ=%s] %s" % (tz, what), {"tz": tz, "case": case}, py)
    for dgr in inner.degraded:
        acc.degrade(dgr)
    acc.sample({"ambient_TZ": tz, "local_utc_offset_s": local_offset, "slice_states": inner.states})
    return acc


# ---------------------------------------------------------------------------------------------------- driver
def _rot(seq, seed):
    seq = list(seq)
    if not seq:
        return seq
    k = seed % len(seq)
    return seq[k:] + seq[:k]


def _split(seq, n):
    seq = list(seq)
    size = max(1, (len(seq) + n - 1) // n)
    return [seq[i:i + size] for i in range(0, len(seq), size)]


def _want(ctx, part):
    only = getattr(ctx, "only", None)
    return not only or part in only


def run(ctx):
    thorough = ctx.tier == "thorough"
    if not private_ok():
        ctx.degrade("LocalDate._ctor(days_since_epoch=...)/_days_since_epoch unavailable or inconsistent: public plus_days/days_between used instead")
    cal_ids = list(CalendarSystem.ids)
    ctx.note("calendars", len(cal_ids))
    b_ord = sorted({dt.date(*x).toordinal() for x in B_DATES})
    if _want(ctx, "date"):
        shards = [(a, min(ORD_MAX + 1, a + 40_000)) for a in range(1, ORD_MAX + 1, 40_000)]
        for acc in pmap(w_dates, _rot(shards, ctx.seed)):
            ctx.merge_part("date", acc)
    if _want(ctx, "date-calendars"):
        jobs = []
        for cid in cal_ids:
            days = cal_day_list(cid, thorough, ctx.seed)
            jobs += [(cid, c) for c in _split(days, 4 if not thorough else 48)]
        for acc in pmap(w_cal_dates, _rot(jobs, ctx.seed)):
            ctx.merge_part("date-calendars", acc)
        if not thorough:
            ctx.cap("date-calendars: non-ISO calendars visit every 211th day inside 0001..9999 plus +/-400 days around every range end "
                    "(every day in the thorough tier)")
    if _want(ctx, "time"):
        for acc in pmap(w_times, _rot([(a, min(86400, a + 1350)) for a in range(0, 86400, 1350)], ctx.seed)):
            ctx.merge_part("time", acc)
    if _want(ctx, "datetime-naive"):
        year1 = list(range(1, 367))
        year9999 = list(range(ORD_MAX - 366, ORD_MAX + 1))
        jobs = [(c, B_TIMES_US, cal_ids) for c in _split(b_ord, 8)]
        jobs += [(c, (0, 86_399_999_999), ()) for c in _split(year1 + year9999, 8)]
        if thorough:
            jobs += [(list(range(a, min(ORD_MAX + 1, a + 30_000))), (47_107_123_456,), ()) for a in range(1, ORD_MAX + 1, 30_000)]
        else:
            st = 997
            jobs += [(c, (47_107_123_456,), ()) for c in _split(list(range(1 + ctx.seed % st, ORD_MAX + 1, st)), 8)]
            ctx.cap("datetime-naive: beyond the boundary dates and all of years 1 and 9999, every 997th day (every day in the thorough tier)")
        for acc in pmap(w_naive, _rot(jobs, ctx.seed)):
            ctx.merge_part("datetime-naive", acc)
        # Pyoda -> stdlib in every calendar, with sub-microsecond parts, inside and outside the stdlib range
        t_ns = (0, 1, 999, 1000, 1001, 43_200_000_000_500, NSD - 1000, NSD - 1)
        jobs = []
        for cid in cal_ids:
            lo, hi, _ = cal_range(cid)
            days = {n for n in (lo, lo + 1, hi - 1, hi, DAY_MIN - 1, DAY_MIN, DAY_MIN + 1, DAY_MIN + 364, DAY_MIN + 365, -1, 0, 11016, DAY_MAX - 1, DAY_MAX, DAY_MAX + 1)
                    if lo <= n <= hi}
            jobs.append((cid, sorted(days), t_ns))
        for acc in pmap(w_ldt_to_naive, _rot(jobs, ctx.seed)):
            ctx.merge_part("datetime-naive", acc)
    if _want(ctx, "datetime-aware"):
        offs = offsets_alphabet(thorough)
        ctx.note("offsets", len(offs))
        a_ord = sorted({dt.date(*x).toordinal() for x in ((1, 1, 1), (1, 1, 2), (1, 12, 31), (2, 1, 1), (1969, 12, 31), (1970, 1, 1), (2000, 2, 29), (2024, 2, 29),
                                                        (9999, 12, 30), (9999, 12, 31))})
        a_times = (0, 1, 43_200_000_000, 64_800_000_000, 86_399_999_999) if not thorough else B_TIMES_US
        jobs = [([o], a_times, c) for o in a_ord for c in _split(offs, 4)]
        for acc in pmap(w_aware, _rot(jobs, ctx.seed)):
            ctx.merge_part("datetime-aware", acc)
        for acc in pmap(w_aware_misc, [(c, a_times) for c in _split(a_ord, 4)]):
            ctx.merge_part("datetime-aware", acc)
        jobs = []
        for cid in cal_ids:
            lo, hi, _ = cal_range(cid)
            days = sorted(n for n in (lo, hi, DAY_MIN - 1, DAY_MIN, DAY_MIN + 1, DAY_MIN + 365, 0, 11016, DAY_MAX, DAY_MAX + 1) if lo <= n <= hi)
            jobs.append((cid, days, (0, 999, 43_200_000_000_500, NSD - 1), (0, 1, -1, 19800, M.OFF_MAX_S, M.OFF_MIN_S)))
        for acc in pmap(w_odt_to_aware, _rot(jobs, ctx.seed)):
            ctx.merge_part("datetime-aware", acc)
        if not thorough:
            ctx.cap("datetime-aware: +/-1 s and +/-59 s neighbours only around every 30th minute offset (around every minute in the thorough tier)")
    if _want(ctx, "timedelta"):
        for acc in pmap(w_timedelta, [0]):
            ctx.merge_part("timedelta", acc)
        span = M.OFF_MAX_S - M.OFF_MIN_S + 1
        for acc in pmap(w_offset_td, _rot([(M.OFF_MIN_S + a, M.OFF_MIN_S + min(span, a + 8192)) for a in range(0, span, 8192)], ctx.seed)):
            ctx.merge_part("timedelta", acc)
    if _want(ctx, "datetime-tzinfo"):
        cases, missing = tz_cases()
        for z in missing:
            ctx.degrade("zoneinfo zone %s not available on this machine: its cases are skipped" % z)
        ctx.note("tzinfo_cases", len(cases))
        for acc in pmap(w_tz_aware, _rot([(a, min(len(cases), a + 64)) for a in range(0, len(cases), 64)], ctx.seed)):
            ctx.merge_part("datetime-tzinfo", acc)
    if _want(ctx, "history"):
        groups = history_groups()
        jobs = [(route, gi) for route in groups for gi in range(len(groups[route]))]
        for acc in pmap(w_history, _rot(jobs, ctx.seed)):
            ctx.merge_part("history", acc)
    if _want(ctx, "ambient"):
        a_ord = sorted({dt.date(*x).toordinal() for x in ((1, 1, 1), (1, 1, 2), (1969, 12, 31), (1970, 1, 1), (2000, 2, 29), (2024, 3, 10), (2024, 11, 3),
                                                        (9999, 12, 30), (9999, 12, 31))})
        offs = (0, 1, -1, 19800, -18000, 32400, M.OFF_MAX_S, M.OFF_MIN_S)
        jobs = [(label, tz, a_ord, (0, 43_200_000_000, 86_399_999_999), offs) for label, tz in AMBIENT_TZS]
        for acc in pmap(w_ambient, _rot(jobs, ctx.seed)):
            ctx.merge_part("ambient", acc)
        ctx.note("ambient", {"main_process_tzname": list(_time.tzname), "repeated_under": [tz for _, tz in AMBIENT_TZS]})
    for cid in cal_ids:
        if not cal_range(cid)[2]:
            ctx.degrade("calendar %s: private day range differs from first day of min_year..last day of max_year (C01's subject); only days inside the public range are used" % cid)
    ctx.rule = ("non-trivial = a value on a range end of the stdlib type or of the calendar, first day of a month, a value with a "
                "sub-microsecond part (truncation direction matters), an aware datetime whose UTC instant leaves 0001..9999, or a value "
                "outside the stdlib range (must raise)")
    ctx.assumptions = [
        "stdlib -> Pyoda -> stdlib must be the identity for naive time (tzinfo None), date, naive datetime, aware datetime with a fixed "
        "whole-second offset inside +/-18 h (Offset has second granularity and that range), timedelta",
        "aware datetime -> Instant -> to_datetime_utc must equal the original instant with tzinfo UTC; when the UTC instant is outside 0001..9999 "
        "to_datetime_utc must raise",
        "offsets beyond +/-18 h cannot be held by Offset: OffsetDateTime.from_aware_datetime / Offset.from_timedelta must raise (any exception)",
        "from_naive_datetime(dt, calendar) is exercised only for calendars whose range contains the day",
        "'fold' is ignored (fixed offsets only)",
        "ambient process state: a slice of every part is repeated in worker processes with TZ=JST-9 and TZ=EST5EDT4,M3.2.0,M11.1.0 (time.tzset()); "
        "the same absolute oracle applies, i.e. results must not depend on the local time zone of the process",
    ]
    # Sub-spaces enumerated completely: every datetime.date; every whole-second Offset<->timedelta; every second of the day x 5
    # microsecond values; (thorough) every day of every calendar inside 0001..9999.  datetime x offset x microsecond as a whole
    # is a boundary product, so the run as a whole is not claimed exhaustive.
    ctx.note("complete_subspaces", ["date: all %d ordinals" % ORD_MAX, "timedelta/offset: all 129601 whole seconds", "time: 86400 seconds x 5 microsecond values"]
             + (["date-calendars: every day of every calendar inside 0001..9999"] if thorough else []))
    ctx.exhaustive = False


# ---------------------------------------------------------------------------------------------------- replay
def replay(rec):
    case = rec.get("case") or {}
    tz = case.get("tz") if isinstance(case, dict) else None
    while isinstance(case, dict) and "case" in case and isinstance(case["case"], dict):
        tz = tz or case.get("tz")
        case = case["case"]
    acc = Acc()
    k = case.get("kind")
    old = _set_tz(tz) if tz else None
    try:
        if k == "date":
            acc.merge(w_dates((case["ordinal"], case["ordinal"] + 1)))
        elif k == "cal-date":
            check_cal_date(acc, case["cal"], case["day"])
        elif k in ("time", "time-ns"):
            sec = case["sec"] if "sec" in case else case["t"] // M.NS_S
            acc.merge(w_times((sec, sec + 1)))
        elif k == "naive":
            check_naive(acc, case["ordinal"], case["us"], [case["cal"]] if "cal" in case else [])
        elif k == "ldt-to-naive":
            check_ldt_to_naive(acc, case["cal"], case["day"], case["t"])
        elif k == "aware":
            check_aware(acc, case["ordinal"], case["us"], case["off"], case.get("off_us", 0))
        elif k == "odt-to-aware":
            check_odt_to_aware(acc, case["cal"], case["day"], case["t"], case["off"])
        elif k in ("timedelta", "duration-to"):
            acc.merge(w_timedelta(0))
        elif k == "tz-aware":
            for label, a in tz_cases()[0]:
                if label == case["zone"] and a.replace(tzinfo=None).isoformat() == case["local"] and a.fold == case["fold"]:
                    check_tz_aware(acc, label, a)
        elif k == "history":
            check_history(acc, case["route"], case["group"])
        elif k == "offset-td":
            acc.merge(w_offset_td((case["s"], case["s"] + 1)))
        else:
            return False
    except Exception as e:  # noqa: BLE001
        if exc_origin(e) == "harness":
            raise
        return True
    finally:
        if tz:
            _set_tz(old)
    if tz:
        return bool(acc.violations)
    return rec.get("key") in acc.violations or (bool(acc.violations) and rec.get("key") is None)
