"""C16 - week-year rules and weekday navigation are self-consistent and match ISO 8601.

sweep engine over (calendar, rule, year) with a window of days around every year start; oracles: models/weekref.py (week 1 rule
on the day-number line), datetime.date.isocalendar / fromisocalendar, brute-force scans for weekday navigation and the n-th weekday.

parts
  weekyear    : rules = ISO + 7x7 regular + 3x7 BCL-style (71).  For every (calendar, rule, year of the year set) and every date
                within +-8 days of the year start (and the first / last days of the calendar):
                  roundtrip  get_local_date(get_week_year(d), get_week_of_week_year(d), d.day_of_week) == d
                  range      1 <= week <= get_weeks_in_week_year(week_year)
                  stepping   from one day to the next the week number goes up by one exactly on the rule's first day of week; the week-year
                             changes only there (to week 1) or, for irregular rules, on the first day of a calendar year
                  definition (week_year, week, weeks in year) == the week-1 model wherever the model is defined
  iso-stdlib  : ISO rule in the ISO calendar == datetime.date.isocalendar() (years 1-9999); from_week_year_week_and_day ==
                date.fromisocalendar for all (year, week 1-53, weekday), raising exactly when the stdlib rejects.
  int-forms   : every entry point taking an IsoDayOfWeek (next / previous / *_or_same / DateAdjusters.* / LocalDateTime.next|previous / n-th weekday /
                from_week_year_week_and_day / get_local_date / the rule factories' first day of week) is also driven with int(member) and with the
                plain int IntEnum arithmetic yields; all forms must agree with the model (a route refusing ints with TypeError/ValueError is recorded).
  long-history: one shared rule object per rule answers > 1024 distinct week-years in two interleaved calendars, then early years are re-asked
                (sequential history on per-rule state; thread interleavings on such state belong to C13).
  navigation  : LocalDate.next/previous, DateAdjusters.next/previous/next_or_same/previous_or_same, LocalDateTime.next/previous:
                every date of the date set x 7 weekdays == brute-force scan on the day-number line (raise iff the range is left).
  nth-weekday : LocalDate.from_year_month_week_and_day(year, month, occurrence 1-5, weekday) == brute-force scan of the month.
"""
from __future__ import annotations

import datetime as _dt

from pyoda_time import CalendarSystem, DateAdjusters, IsoDayOfWeek, LocalDate, LocalTime
from pyoda_time.calendars import CalendarWeekRule, WeekYearRules

from vf.core.evidence import Acc, exc_origin, exc_site
from vf.core.par import pmap
from vf.models import dateline as dl
from vf.models import weekref as wr

LEVEL = "model_checking"
DOWS = [IsoDayOfWeek(k) for k in range(1, 8)]
DOWN = {k: IsoDayOfWeek(k).name for k in range(1, 8)}
BCL = {"FIRST_DAY": 1, "FIRST_FOUR_DAY_WEEK": 4, "FIRST_FULL_WEEK": 7}


def dow_forms(t):
    """The ways a caller can hand over weekday t: the enum member, int(member) (what datetime.date.isoweekday() returns) and the
    plain int that IntEnum arithmetic yields (yesterday % 7 + 1).  Every entry point validates by numeric range, so all three name
    the same weekday."""
    return (("member", DOWS[t - 1]), ("int", int(DOWS[t - 1])), ("intenum-arithmetic", DOWS[(t - 2) % 7] % 7 + 1))


_INT_REFUSED = set()      # routes that refuse plain ints with TypeError / ValueError (recorded, not demanded)


def _int_refused(acc, route, form, got):
    """True when a non-member form was refused with TypeError/ValueError: the route does not take ints - recorded, not a violation."""
    if form != "member" and isinstance(got, _Raised) and isinstance(got.e, (TypeError, ValueError)) and "range" not in str(got.e).lower():
        _INT_REFUSED.add(route)
        acc.degrade("route %s does not accept a plain-int weekday (%s); int forms not demanded there" % (route, type(got.e).__name__))
        return True
    return False


def all_rules():
    """[(rule id, kind, (min_days, first_dow, irregular), factory)] - 71 rules."""
    out = [("iso", "iso", (4, 1, False), lambda: WeekYearRules.iso)]
    for md in range(1, 8):
        for fd in range(1, 8):
            out.append(("reg-min%d-%s" % (md, DOWN[fd]), "regular", (md, fd, False), (lambda md=md, fd=fd: WeekYearRules.for_min_days_in_first_week(md, IsoDayOfWeek(fd)))))
    for name, md in BCL.items():
        for fd in range(1, 8):
            out.append(("bcl-%s-%s" % (name, DOWN[fd]), "irregular", (md, fd, True), (lambda name=name, fd=fd: WeekYearRules.from_calendar_week_rule(getattr(CalendarWeekRule, name), IsoDayOfWeek(fd)))))
    return out


RULES = all_rules()
CORE_RULES = ("iso", "bcl-FIRST_DAY-SUNDAY", "reg-min7-SATURDAY")


def year_sets(cal, tier, seed):
    """(wide set for the core rules, narrow set for all 71 rules)"""
    lo, hi = cal.min_year, cal.max_year
    mid = (lo + hi) // 2
    edge = set(range(lo, min(hi, lo + 2) + 1)) | set(range(max(lo, hi - 2), hi + 1))
    if tier == "thorough":
        wide = set(range(lo, hi + 1))
        narrow = edge | set(range(max(lo, mid - 300), min(hi, mid + 300) + 1))
        return wide, narrow
    span = 400
    base = 1800 if lo <= 1800 and hi >= 2200 else mid
    wide = edge | set(range(max(lo, base), min(hi, base + span) + 1))
    off = lo + (seed * 7919 * 40) % max(1, hi - lo - 40)        # seed: one extra block of 40 years; never decides the verdict
    wide |= set(range(off, min(hi, off + 40) + 1))
    narrow = edge | set(range(max(lo, base), min(hi, base + 28) + 1))
    return wide, narrow


def _rule_obj(rid):
    for r in RULES:
        if r[0] == rid:
            return r
    raise KeyError(rid)


class _Raised:
    def __init__(self, e):
        self.e = e


def _call(fn, *a):
    try:
        return fn(*a)
    except Exception as e:  # noqa: BLE001
        if exc_origin(e) == "harness":
            raise
        return _Raised(e)


def w_weekyear(job):
    cid, tier, rule_ids, years, allrules = job
    acc = Acc()
    cal = CalendarSystem.for_id(cid)
    lo, hi = dl.cal_range(cal)
    model = wr.WeekModel(lambda y: dl.year_start(cal, y), cal.min_year, cal.max_year, hi)
    classes = set()
    rules = [_rule_obj(r) for r in rule_ids]
    robjs = [(rid, kind, spec, mk()) for rid, kind, spec, mk in rules]
    weeks_cache = {}
    W = 8
    for y in years:
        S = dl.year_start(cal, y)
        a, b = max(lo, S - W), min(hi, S + W)
        if y == cal.max_year:
            # also the last days of the calendar
            spans = [(a, b), (max(lo, hi - W), hi)]
        else:
            spans = [(a, b)]
        for (a, b) in spans:
            dates = [dl.from_daynum(n, cal) for n in range(a, b + 1)]
            dws = []
            for n, d in zip(range(a, b + 1), dates):
                w = int(d.day_of_week)
                if w != wr.dow(n):
                    acc.violation("C16/%s/day_of_week/day-line" % cid, "%s has day_of_week %d, day number %d is weekday %d" % (dl.ymd(d), w, n, wr.dow(n)), {"calendar": cid, "date": dl.ymd(d)})
                dws.append(w)
            acc.count(states=len(dates))
            for rid, kind, spec, rule in robjs:
                md, fd, irregular = spec
                prev = None
                for i, d in enumerate(dates):
                    n = a + i
                    acc.count(transitions=1, evaluations=3)
                    case = {"kind": "weekyear", "calendar": cid, "rule": rid, "date": dl.ymd(d), "day_number": n}
                    # model expectation (None where the model needs the start of year min-1)
                    try:
                        exp = model.locate(n, d.year, spec)
                    except wr.Unknown:
                        exp = (d.year - 1, None)
                    below_min = exp[0] < cal.min_year
                    dcls = ("week-year-before-min-year" if below_min else "week-year-after-max-year" if exp[0] > cal.max_year else
                            "first-year" if d.year == cal.min_year else "last-year" if d.year == cal.max_year else "interior") + (
                            "/prev-week-year" if exp[0] < d.year else "/next-week-year" if exp[0] > d.year else "/same-week-year")
                    K = "C16/%s/weekyear/%s/%%s/%s" % (cid, kind, dcls)
                    classes.add((kind, dcls, md if kind != "iso" else 4))
                    wy = _call(rule.get_week_year, d)
                    wk = _call(rule.get_week_of_week_year, d)
                    bad = next(((nm, v) for nm, v in (("get_week_year", wy), ("get_week_of_week_year", wk)) if isinstance(v, _Raised)), None)
                    if bad:
                        e = bad[1].e
                        acc.violation(K % ("%s-raises-%s" % (bad[0], type(e).__name__)), "%s.%s(%s %s) raised %s: %s [%s]" % (rid, bad[0], cid, dl.ymd(d), type(e).__name__, str(e)[:100], exc_site(e)),
                                      case, py=_py_week(cid, rid, dl.ymd(d)))
                        acc.outcome("weekyear:raised")
                        prev = None
                        continue
                    wk_key = (rid, wy)
                    if wk_key not in weeks_cache:
                        weeks_cache[wk_key] = _call(rule.get_weeks_in_week_year, wy, cal)
                        acc.count(evaluations=1)
                    weeks = weeks_cache[wk_key]
                    back = _call(rule.get_local_date, wy, wk, DOWS[dws[i] - 1], cal)
                    bad = next(((nm, v) for nm, v in (("get_weeks_in_week_year", weeks), ("get_local_date", back)) if isinstance(v, _Raised)), None)
                    if bad:
                        e = bad[1].e
                        acc.violation(K % ("%s-raises-%s" % (bad[0], type(e).__name__)), "%s.%s for week-year %d week %d (from %s %s) raised %s: %s [%s]" % (
                            rid, bad[0], wy, wk, cid, dl.ymd(d), type(e).__name__, str(e)[:100], exc_site(e)), case, py=_py_week(cid, rid, dl.ymd(d)))
                        acc.outcome("weekyear:raised")
                        prev = None
                        continue
                    what = "%s on %s %s: week-year %d week %d of %d" % (rid, cid, dl.ymd(d), wy, wk, weeks)
                    ok = True
                    if n == S:          # the weekday given as a plain int must name the same day
                        for form, arg in dow_forms(dws[i])[1:]:
                            acc.count(transitions=1, evaluations=1)
                            b2 = _call(rule.get_local_date, wy, wk, arg, cal)
                            if _int_refused(acc, "IWeekYearRule.get_local_date", form, b2):
                                continue
                            if isinstance(b2, _Raised) or b2 != d:
                                acc.violation("C16/%s/weekyear/%s/get_local_date-int-weekday/arg-%s" % (cid, kind, form), what + "; get_local_date with the weekday given as %s = %r gives %s" % (
                                    form, arg, b2.e if isinstance(b2, _Raised) else dl.ymd(b2)), dict(case, argument_form=form))
                    if back != d:
                        acc.violation(K % "roundtrip", what + "; get_local_date gives %s" % (dl.ymd(back),), case, py=_py_week(cid, rid, dl.ymd(d)))
                        ok = False
                    elif not (1 <= wk <= weeks):
                        acc.violation(K % "week-out-of-range", what, case, py=_py_week(cid, rid, dl.ymd(d)))
                        ok = False
                    elif prev is not None:
                        pwy, pwk = prev
                        first = dws[i] == fd
                        if wy != pwy:
                            legal = wy == pwy + 1 and wk == 1 and (first or (irregular and n == dl.year_start(cal, d.year)))
                            law = "week-year-changes-off-boundary"
                        else:
                            legal = wk == (pwk + 1 if first else pwk)
                            law = "week-not-advancing-on-first-day-of-week" if first else "week-changes-mid-week"
                        if not legal:
                            acc.violation(K % law, what + "; the day before was week-year %d week %d (rule's first day of week %s)" % (pwy, pwk, DOWN[fd]), case, py=_py_week(cid, rid, dl.ymd(d)))
                            ok = False
                    if ok and (wy != exp[0] or (exp[1] is not None and wk != exp[1])):
                        acc.violation(K % "definition", what + "; week-1 definition (min %d days, first day %s, %s) gives week-year %d week %s" % (
                            md, DOWN[fd], "irregular" if irregular else "regular", exp[0], exp[1]), case, py=_py_week(cid, rid, dl.ymd(d)))
                        ok = False
                    if ok:
                        try:
                            mw = model.weeks_in(wy, spec)
                            if mw != weeks:
                                acc.violation(K % "weeks-in-week-year", what + "; the definition gives %d weeks" % mw, case, py=_py_week(cid, rid, dl.ymd(d)))
                                ok = False
                        except wr.Unknown:
                            pass
                    prev = (wy, wk)
                    if ok:
                        acc.outcome("weekyear:%s:%s" % (kind, "prev-week-year" if wy < d.year else "next-week-year" if wy > d.year else "week-%s" % ("1" if wk == 1 else "2" if wk == 2 else "52+" if wk >= 52 else "mid")))
        if len(acc.samples) < 2:
            acc.sample({"part": "weekyear", "calendar": cid, "year": y, "window_days": 2 * W + 1, "rules": len(robjs), "rule_ids_head": [r[0] for r in robjs[:4]]})
    acc.note("classes", sorted("%s/%s/%s/min%d" % ((cid,) + c) for c in classes))
    return acc


def _py_week(cid, rid, ymd):
    if rid == "iso":
        mk = "WeekYearRules.iso"
    elif rid.startswith("reg-"):
        _, md, fd = rid.split("-")
        mk = "WeekYearRules.for_min_days_in_first_week(%s, IsoDayOfWeek.%s)" % (md[3:], fd)
    else:
        _, name, fd = rid.split("-")
        mk = "WeekYearRules.from_calendar_week_rule(CalendarWeekRule.%s, IsoDayOfWeek.%s)" % (name, fd)
    return ("from pyoda_time import CalendarSystem, IsoDayOfWeek, LocalDate\nfrom pyoda_time.calendars import CalendarWeekRule, WeekYearRules\n\n\ndef test_replay():\n"
            "    cal = CalendarSystem.for_id(%r)\n    d = LocalDate(%d, %d, %d, cal)\n    rule = %s\n" % ((cid,) + tuple(ymd) + (mk,)) +
            "    wy, wk = rule.get_week_year(d), rule.get_week_of_week_year(d)\n    assert 1 <= wk <= rule.get_weeks_in_week_year(wy, cal)\n"
            "    assert rule.get_local_date(wy, wk, d.day_of_week, cal) == d\n")


# ------------------------------------------------------------------------------------------------ ISO vs stdlib
def w_iso_stdlib(job):
    tier, ylo, yhi, full = job
    acc = Acc()
    iso = WeekYearRules.iso
    cals = [CalendarSystem.iso, CalendarSystem.gregorian]
    shapes = set()
    for y in range(ylo, yhi):
        d0 = _dt.date(y, 1, 1).toordinal()
        d1 = _dt.date(y, 12, 31).toordinal()
        ords = range(d0, d1 + 1) if full else list(range(d0, d0 + 9)) + list(range(d1 - 8, d1 + 1))
        for o in ords:
            sd = _dt.date.fromordinal(o)
            ic = sd.isocalendar()
            acc.count(states=1, transitions=1, evaluations=2)
            for cal in cals[:1] if (not full and y % 7) else cals:
                d = LocalDate(sd.year, sd.month, sd.day, cal)
                case = {"kind": "iso", "calendar": cal.id, "date": [sd.year, sd.month, sd.day]}
                got = _call(lambda: (iso.get_week_year(d), iso.get_week_of_week_year(d), int(d.day_of_week)))
                pos = "jan-prev-week-year" if ic[0] < sd.year else "dec-next-week-year" if ic[0] > sd.year else "week-53" if ic[1] == 53 else "week-1" if ic[1] == 1 else "other"
                shapes.add(pos)
                if isinstance(got, _Raised):
                    acc.violation("C16/%s/iso-stdlib/raises-%s/%s" % (cal.id, type(got.e).__name__, pos), "ISO rule on %s raised %s" % (sd, got.e), case)
                elif got != (ic[0], ic[1], ic[2]):
                    acc.violation("C16/%s/iso-stdlib/isocalendar/%s" % (cal.id, pos), "ISO rule gives %r for %s, datetime.date.isocalendar() gives %r" % (got, sd, tuple(ic)), case,
                                  py="import datetime\nfrom pyoda_time import LocalDate\nfrom pyoda_time.calendars import WeekYearRules\n\n\ndef test_replay():\n    d = LocalDate(%d, %d, %d)\n"
                                     "    r = WeekYearRules.iso\n    assert (r.get_week_year(d), r.get_week_of_week_year(d)) == tuple(datetime.date(%d, %d, %d).isocalendar())[:2]\n" % (
                                         sd.year, sd.month, sd.day, sd.year, sd.month, sd.day))
                else:
                    acc.outcome("iso:" + pos)
        # from_week_year_week_and_day against fromisocalendar, all weeks 1..53 (+0 and 54 must be rejected) x 7 weekdays
        for wk in ((0, 1, 2, 26, 51, 52, 53, 54) if not full else range(0, 55)):
            for wd in range(1, 8):
                acc.count(transitions=1, evaluations=1)
                try:
                    exp = _dt.date.fromisocalendar(y, wk, wd)
                    if not (1 <= exp.year <= 9999):
                        exp = None
                except ValueError:
                    exp = None
                if exp is None and wk in (1, 52, 53) and (y == 1 or y == 9999):
                    continue        # the stdlib range ends inside this week; pyoda's range is wider - not comparable
                got = _call(LocalDate.from_week_year_week_and_day, y, wk, DOWS[wd - 1])
                case = {"kind": "fromiso", "week_year": y, "week": wk, "weekday": wd}
                if exp is not None and y % 16 == 0:
                    for form, arg in dow_forms(wd)[1:]:
                        acc.count(transitions=1, evaluations=1)
                        g2 = _call(LocalDate.from_week_year_week_and_day, y, wk, arg)
                        if _int_refused(acc, "LocalDate.from_week_year_week_and_day", form, g2):
                            continue
                        if isinstance(g2, _Raised) or dl.ymd(g2) != (exp.year, exp.month, exp.day):
                            acc.violation("C16/ISO/from_week_year_week_and_day/int-weekday/arg-%s" % form, "from_week_year_week_and_day(%d, %d, weekday %d given as %s) gives %s, fromisocalendar gives %s" % (
                                y, wk, wd, form, g2.e if isinstance(g2, _Raised) else dl.ymd(g2), exp), dict(case, argument_form=form))
                        else:
                            acc.outcome("fromiso:int-form-" + form)
                wcls = "week-%s" % ("0" if wk == 0 else "54" if wk == 54 else "53" if wk == 53 else "1" if wk == 1 else "mid")
                if exp is None:
                    if not isinstance(got, _Raised):
                        acc.violation("C16/ISO/from_week_year_week_and_day/accepts-invalid/%s" % wcls, "from_week_year_week_and_day(%d, %d, %d) returned %s; the week does not exist (fromisocalendar rejects)" % (y, wk, wd, dl.ymd(got)), case)
                    else:
                        acc.outcome("fromiso:rejected-" + wcls)
                elif isinstance(got, _Raised):
                    acc.violation("C16/ISO/from_week_year_week_and_day/raises-%s/%s" % (type(got.e).__name__, wcls), "from_week_year_week_and_day(%d, %d, %d) raised %s; fromisocalendar gives %s" % (y, wk, wd, got.e, exp), case)
                elif dl.ymd(got) != (exp.year, exp.month, exp.day):
                    acc.violation("C16/ISO/from_week_year_week_and_day/fromisocalendar/%s" % wcls, "from_week_year_week_and_day(%d, %d, %d) = %s, fromisocalendar gives %s" % (y, wk, wd, dl.ymd(got), exp), case)
                else:
                    acc.outcome("fromiso:" + wcls)
    if ylo in (1, 1800):
        acc.sample({"part": "iso-stdlib", "years": [ylo, yhi - 1], "dates": "all" if full else "first 9 / last 9 days of each year"})
    acc.note("classes", sorted("iso/%s" % s for s in shapes))
    return acc


# ------------------------------------------------------------------------------------------------ long history on shared rule objects
def w_long_history(job):
    """ONE rule object per rule answers > 1024 distinct week-years (two calendars interleaved), then the early years are asked again:
    every answer against the week-1 model / isocalendar.  Exercises whatever per-rule state the library keeps at and beyond its capacity."""
    tier, rid = job
    acc = Acc()
    _, kind, spec, mk = _rule_obj(rid)
    rule = mk()
    cals = [CalendarSystem.iso, CalendarSystem.julian] + ([CalendarSystem.for_id("Hijri Civil-Base15")] if tier == "thorough" else [])
    models = {c.id: wr.WeekModel((lambda y, c=c: dl.year_start(c, y)), c.min_year, c.max_year, dl.cal_range(c)[1]) for c in cals}
    n_years = 1300 if tier == "quick" else 4200
    passes = [("first-pass", range(2, 2 + n_years)), ("re-ask-early", range(2, 80)), ("re-ask-late", range(n_years - 60, 2 + n_years)), ("re-ask-early-again", range(2, 40))]
    for pname, years in passes:
        for y in years:
            for cal in cals:
                for n in (dl.year_start(cal, y), dl.year_end(cal, y)):
                    d = dl.from_daynum(n, cal)
                    acc.count(states=1, transitions=1, evaluations=2)
                    exp = models[cal.id].locate(n, d.year, spec)
                    got = _call(lambda: (rule.get_week_year(d), rule.get_week_of_week_year(d)))
                    if isinstance(got, _Raised) or got != exp:
                        acc.violation("C16/%s/long-history/%s/%s" % (cal.id, kind, pname), "%s (one shared rule object, pass %s) on %s %s gives %r, week-1 definition gives %r" % (
                            rid, pname, cal.id, dl.ymd(d), got.e if isinstance(got, _Raised) else got, exp), {"kind": "history", "rule": rid, "calendar": cal.id, "date": dl.ymd(d), "pass": pname})
                    elif rid == "iso" and cal.id == "ISO" and tuple(_dt.date(d.year, d.month, d.day).isocalendar())[:2] != got:
                        acc.violation("C16/ISO/long-history/iso/isocalendar", "ISO rule on %s gives %r, isocalendar differs" % (dl.ymd(d), got), {"kind": "history", "rule": rid, "calendar": "ISO", "date": dl.ymd(d), "pass": pname})
                    else:
                        acc.outcome("history:%s" % pname)
    acc.sample({"part": "long-history", "rule": rid, "distinct_week_years_per_rule_object": n_years * len(cals), "passes": [p[0] for p in passes]})
    acc.note("classes", ["history/%s/%s" % (rid, p[0]) for p in passes])
    return acc


# ------------------------------------------------------------------------------------------------ rule factories given int weekdays
def w_int_rules(job):
    """WeekYearRules.for_min_days_in_first_week / from_calendar_week_rule with the first day of week given as a plain int: the rule must
    behave exactly like the week-1 definition with that weekday (and like the rule built from the enum member)."""
    tier, rule_ids = job
    acc = Acc()
    cal = CalendarSystem.iso
    hi = dl.cal_range(cal)[1]
    model = wr.WeekModel(lambda y: dl.year_start(cal, y), cal.min_year, cal.max_year, hi)
    years = range(2015, 2027) if tier == "quick" else range(1990, 2060)
    classes = set()
    for rid in rule_ids:
        _, kind, spec, mk = _rule_obj(rid)
        md, fd, irregular = spec
        for form, arg in dow_forms(fd)[1:]:
            route = "WeekYearRules.%s" % ("from_calendar_week_rule" if irregular else "for_min_days_in_first_week")
            rule = _call(lambda: WeekYearRules.from_calendar_week_rule(getattr(CalendarWeekRule, rid.split("-")[1]), arg) if irregular else WeekYearRules.for_min_days_in_first_week(md, arg))
            if _int_refused(acc, route, form, rule):
                continue
            case = {"kind": "introle", "rule": rid, "argument_form": form}
            if isinstance(rule, _Raised):
                acc.violation("C16/ISO/%s/int-first-day/raises-%s/arg-%s" % (route, type(rule.e).__name__, form), "%s with first day %s given as %s raised %s" % (route, DOWN[fd], form, rule.e), case)
                continue
            classes.add((kind, form))
            for y in years:
                S = dl.year_start(cal, y)
                for n in range(S - 8, S + 9):
                    d = dl.from_daynum(n, cal)
                    acc.count(states=1, transitions=1, evaluations=4)
                    exp = model.locate(n, d.year, spec)
                    got = _call(lambda: (rule.get_week_year(d), rule.get_week_of_week_year(d)))
                    ok = not isinstance(got, _Raised) and got == exp
                    if ok:
                        back = _call(lambda: (rule.get_local_date(got[0], got[1], d.day_of_week, cal), rule.get_local_date(got[0], got[1], int(d.day_of_week), cal), rule.get_weeks_in_week_year(got[0], cal)))
                        ok = not isinstance(back, _Raised) and back[0] == d and back[1] == d and back[2] == model.weeks_in(got[0], spec)
                        got = (got, back.e if isinstance(back, _Raised) else (dl.ymd(back[0]), dl.ymd(back[1]), back[2]))
                    if not ok:
                        acc.violation("C16/ISO/%s/int-first-day/%s/arg-%s" % (route, kind, form), "%s built with first day of week %s given as %s = %r: on %s gives %r, the week-1 definition gives %r" % (
                            rid, DOWN[fd], form, arg, dl.ymd(d), got.e if isinstance(got, _Raised) else got, exp), dict(case, date=dl.ymd(d)))
                        break
                    acc.outcome("int-rule:%s:%s" % (kind, form))
    acc.sample({"part": "int-forms", "rules": len(rule_ids), "years": [years[0], years[-1]], "forms": ["int", "intenum-arithmetic"]})
    acc.note("classes", sorted("introle/%s/%s" % c for c in classes))
    return acc


# ------------------------------------------------------------------------------------------------ navigation
def nav_dates(cal, tier):
    lo, hi = dl.cal_range(cal)
    mid = (cal.min_year + cal.max_year) // 2
    L = dl.leap_year_near(cal, mid) or mid
    ns = set(range(lo, lo + 15)) | set(range(hi - 14, hi + 1))
    years = [L] if tier == "quick" else [L, L + 1, cal.min_year, cal.max_year]
    for y in years:
        if cal.min_year <= y <= cal.max_year:
            a, b = dl.year_start(cal, y), dl.year_end(cal, y)
            ns |= set(range(max(lo, a - 8), b + 1)) if tier == "thorough" else (set(range(max(lo, a - 8), a + 70)) | set(range(b - 40, min(hi, b + 9) + 1)))
    return sorted(n for n in ns if lo <= n <= hi)


def w_navigation(job):
    cid, tier = job
    acc = Acc()
    cal = CalendarSystem.for_id(cid)
    lo, hi = dl.cal_range(cal)
    noon = LocalTime(12, 34, 56)
    classes = set()
    ops = [("LocalDate.next", True, +1, lambda d, w: d.next(w)), ("LocalDate.previous", True, -1, lambda d, w: d.previous(w)),
           ("DateAdjusters.next", True, +1, lambda d, w: DateAdjusters.next(w)(d)), ("DateAdjusters.previous", True, -1, lambda d, w: DateAdjusters.previous(w)(d)),
           ("DateAdjusters.next_or_same", False, +1, lambda d, w: DateAdjusters.next_or_same(w)(d)), ("DateAdjusters.previous_or_same", False, -1, lambda d, w: DateAdjusters.previous_or_same(w)(d)),
           ("LocalDate.with_date_adjuster(next_or_same)", False, +1, lambda d, w: d.with_date_adjuster(DateAdjusters.next_or_same(w)))]
    for n in nav_dates(cal, tier):
        d = dl.from_daynum(n, cal)
        acc.count(states=1)
        for name, strict, direction, fn in ops:
            for t in range(1, 8):
                exp = wr.scan_next(n, t, strict) if direction > 0 else wr.scan_prev(n, t, strict)
                rel = "same-weekday" if wr.dow(n) == t else "other-weekday"
                where = "near-range-start" if n - lo < 7 else "near-range-end" if hi - n < 7 else "interior"
                for form, arg in dow_forms(t):
                    acc.count(transitions=1, evaluations=1)
                    cls = "%s-%s" % (rel, where) + ("" if form == "member" else "/arg-" + form)
                    classes.add((name, cls))
                    case = {"kind": "nav", "calendar": cid, "date": dl.ymd(d), "op": name, "weekday": t, "argument_form": form}
                    got = _call(fn, d, arg)
                    K = "C16/%s/%s/%%s/%s" % (cid, name, cls)
                    if not (lo <= exp <= hi):
                        if not isinstance(got, _Raised):
                            acc.violation(K % "no-raise-outside-range", "%s(%s, %s as %s) leaves the calendar range but returned %s" % (name, dl.ymd(d), DOWN[t], form, dl.ymd(got)), case)
                        else:
                            acc.outcome("nav:raises-outside-range")
                        continue
                    if _int_refused(acc, name, form, got):
                        continue
                    if isinstance(got, _Raised):
                        acc.violation(K % ("raises-%s" % type(got.e).__name__), "%s(%s, %s as %s) raised %s: %s" % (name, dl.ymd(d), DOWN[t], form, type(got.e).__name__, str(got.e)[:100]), case)
                        continue
                    if got != dl.from_daynum(exp, cal):
                        acc.violation(K % "nearest-weekday", "%s(%s [%s], %s given as %s = %r) = %s, brute-force scan gives %s" % (
                            name, dl.ymd(d), DOWN[wr.dow(n)], DOWN[t], form, arg, dl.ymd(got), dl.ymd(dl.from_daynum(exp, cal))), case,
                            py=_py_nav(cid, dl.ymd(d), name, t, dl.ymd(dl.from_daynum(exp, cal)), form))
                    else:
                        acc.outcome("nav:%s:%s:%s" % (name.split(".")[-1], rel, form))
        # LocalDateTime.next / previous keep the time of day
        if n % 5 == 0:
            ldt = d.at(noon)
            for t in range(1, 8):
                for name, direction in (("LocalDateTime.next", +1), ("LocalDateTime.previous", -1)):
                    exp = wr.scan_next(n, t) if direction > 0 else wr.scan_prev(n, t)
                    if not (lo <= exp <= hi):
                        continue
                    for form, arg in dow_forms(t):
                        acc.count(transitions=1, evaluations=1)
                        got = _call(ldt.next if direction > 0 else ldt.previous, arg)
                        if _int_refused(acc, name, form, got):
                            continue
                        if isinstance(got, _Raised) or got.date != dl.from_daynum(exp, cal) or got.time_of_day != noon:
                            acc.violation("C16/%s/%s/nearest-weekday/%s%s" % (cid, name, "same-weekday" if wr.dow(n) == t else "other-weekday", "" if form == "member" else "/arg-" + form),
                                          "%s(%s 12:34:56, %s as %s) gives %r" % (name, dl.ymd(d), DOWN[t], form, got.e if isinstance(got, _Raised) else got),
                                          {"kind": "nav", "calendar": cid, "date": dl.ymd(d), "op": name, "weekday": t, "argument_form": form})
    acc.sample({"part": "navigation", "calendar": cid, "dates": len(nav_dates(cal, tier)), "ops": [o[0] for o in ops]})
    acc.note("classes", sorted("%s/nav/%s/%s" % ((cid,) + c) for c in classes))
    return acc


def _py_nav(cid, ymd, name, t, exp, form="member"):
    call = {"LocalDate.next": "d.next(w)", "LocalDate.previous": "d.previous(w)"}.get(name, "%s(w)(d)" % name if name.startswith("DateAdjusters") else "d.with_date_adjuster(DateAdjusters.next_or_same(w))")
    return ("from pyoda_time import CalendarSystem, DateAdjusters, IsoDayOfWeek, LocalDate\n\n\ndef test_replay():\n    cal = CalendarSystem.for_id(%r)\n"
            "    d = LocalDate(%d, %d, %d, cal)\n    w = %s\n    r = %s\n    assert (r.year, r.month, r.day) == %r\n" % ((cid,) + tuple(ymd) + (
                "IsoDayOfWeek(%d)" % t if form == "member" else "%d  # plain int, e.g. datetime.date.isoweekday()" % t if form == "int" else "IsoDayOfWeek(%d) %% 7 + 1  # IntEnum arithmetic gives a plain int" % ((t - 2) % 7 + 1), call, tuple(exp))))


# ------------------------------------------------------------------------------------------------ n-th weekday of month
def w_nth(job):
    years = job
    acc = Acc()
    classes = set()
    for y in years:
        for m in range(1, 13):
            dim = wr.greg_days_in_month(y, m)
            first_dow = wr.dow(wr.days_from_civil(y, m, 1))
            if 1 <= y <= 9999 and (wr.days_from_civil(y, m, 1) != _dt.date(y, m, 1).toordinal() - 719163 or first_dow != _dt.date(y, m, 1).isoweekday()):
                raise AssertionError("weekref.days_from_civil disagrees with datetime for %d-%d" % (y, m))      # harness fault, never a violation
            acc.count(states=1)
            for occ in range(1, 6):
                for t in range(1, 8):
                    acc.count(transitions=1, evaluations=1)
                    exp = wr.nth_weekday(y, m, occ, t)
                    # input class: does the requested weekday coincide with the month's first weekday; is the 5th a real 5th or "last"
                    n_occ = len([d for d in range(1, dim + 1) if wr.dow(wr.days_from_civil(y, m, d)) == t])
                    cls = "occurrence-%d%s/%s" % (occ, "-as-last-of-4" if occ == 5 and n_occ == 4 else "", "weekday-of-the-1st" if t == first_dow else "weekday-%s-the-1st" % ("after" if (t - first_dow) % 7 <= 3 else "before"))
                    classes.add((dim, cls))
                    case = {"kind": "nth", "year": y, "month": m, "occurrence": occ, "weekday": t}
                    if y % 8 == 0 or y < 1 or y > 9990:
                        for form, arg in dow_forms(t)[1:]:
                            acc.count(transitions=1, evaluations=1)
                            g2 = _call(LocalDate.from_year_month_week_and_day, y, m, occ, arg)
                            if _int_refused(acc, "LocalDate.from_year_month_week_and_day", form, g2):
                                continue
                            if isinstance(g2, _Raised) or dl.ymd(g2) != (y, m, exp):
                                acc.violation("C16/ISO/from_year_month_week_and_day/int-weekday/%s/arg-%s" % (cls, form), "from_year_month_week_and_day(%d, %d, %d, %s given as %s = %r) gives %s; scan of the month gives day %d" % (
                                    y, m, occ, DOWN[t], form, arg, g2.e if isinstance(g2, _Raised) else dl.ymd(g2), exp), dict(case, argument_form=form))
                            else:
                                acc.outcome("nth:int-form-" + form)
                    got = _call(LocalDate.from_year_month_week_and_day, y, m, occ, DOWS[t - 1])
                    py = ("from pyoda_time import IsoDayOfWeek, LocalDate\n\n\ndef test_replay():\n    d = LocalDate.from_year_month_week_and_day(%d, %d, %d, IsoDayOfWeek.%s)\n"
                          "    assert (d.year, d.month, d.day) == (%d, %d, %d)\n    assert d.day_of_week == IsoDayOfWeek.%s\n" % (y, m, occ, DOWN[t], y, m, exp, DOWN[t]))
                    if isinstance(got, _Raised):
                        acc.violation("C16/ISO/from_year_month_week_and_day/raises-%s/%s" % (type(got.e).__name__, cls), "from_year_month_week_and_day(%d, %d, %d, %s) raised %s" % (y, m, occ, DOWN[t], got.e), case, py=py)
                        continue
                    g = dl.ymd(got)
                    if g == (y, m, exp) and got.calendar == CalendarSystem.iso:
                        acc.outcome("nth:occurrence-%d%s" % (occ, "(last of 4)" if occ == 5 and n_occ == 4 else ""))
                        continue
                    law = "outside-month" if g[:2] != (y, m) else "wrong-weekday" if wr.dow(wr.days_from_civil(*g)) != t else "wrong-occurrence"
                    acc.violation("C16/ISO/from_year_month_week_and_day/%s/%s" % (law, cls), "from_year_month_week_and_day(%d, %d, %d, %s) = %s (a %s); brute-force scan of the month gives day %d" % (
                        y, m, occ, DOWN[t], g, DOWN[wr.dow(wr.days_from_civil(*g))] if g[1] in range(1, 13) else "?", exp), case, py=py)
    acc.sample({"part": "nth-weekday", "years_head": list(years[:5]), "years": len(years)})
    acc.note("classes", sorted("nth/len%d/%s" % c for c in classes))
    return acc


# ------------------------------------------------------------------------------------------------ driver
def _dispatch(q):
    name, fn, job = q
    return name, globals()[fn](job)


def _split(seq, n):
    return [seq[i::n] for i in range(n) if seq[i::n]]


def run(ctx):
    cals = dl.calendars()
    for t in dl.DEGRADED:
        ctx.degrade(t)
    only = getattr(ctx, "only", None)
    tier, seed = ctx.tier, ctx.seed
    rot = seed % len(cals)
    cals = cals[rot:] + cals[:rot]

    queued = []          # all parts share ONE pool, so no part waits for another part's stragglers

    def part(name, fn, jobs):
        if only and name not in only:
            return
        queued.extend((name, fn.__name__, jb) for jb in jobs)

    def flush():
        classes, order = {}, []
        for name, acc in pmap(_dispatch, list(queued)):
            if name not in classes:
                classes[name] = set()
                order.append(name)
            classes[name] |= set(acc.notes.pop("classes", []))
            ctx.merge_part(name, acc)
        for name in order:
            fin = Acc()
            fin.count(nontrivial=len(classes[name]))
            ctx.merge_part(name, fin)
        del queued[:]

    all_ids = [r[0] for r in RULES]
    jobs = []
    for cid, cal in cals:
        wide, narrow = year_sets(cal, tier, seed)
        if tier == "thorough":
            core = all_ids if cid == "ISO" else [r for r in all_ids if r in CORE_RULES or r in ("reg-min1-MONDAY", "reg-min4-SUNDAY", "bcl-FIRST_FOUR_DAY_WEEK-MONDAY", "bcl-FIRST_FULL_WEEK-FRIDAY")]
        else:
            core = all_ids if cid == "ISO" else list(CORE_RULES)
        rest = [r for r in all_ids if r not in core]
        for ys in _split(sorted(wide), (96 if cid == "ISO" else 12) if tier == "thorough" else (8 if cid == "ISO" else 2)):
            jobs.append((cid, tier, core, ys, False))
        if rest:
            for ys in _split(sorted(narrow), 4 if tier == "thorough" else 1):
                for rr in _split(rest, 4 if tier == "thorough" else 2):
                    jobs.append((cid, tier, rr, ys, True))
    part("weekyear", w_weekyear, jobs)
    if tier == "thorough":
        iso_jobs = [("thorough", y, min(10000, y + 250), True) for y in range(1, 10000, 250)]
    else:
        iso_jobs = [("quick", y, min(10000, y + 625), False) for y in range(1, 10000, 625)] + [("quick", y, y + 50, True) for y in range(1800, 2200, 50)]
    part("iso-stdlib", w_iso_stdlib, iso_jobs)
    part("long-history", w_long_history, [(tier, r) for r in ("iso", "reg-min1-SUNDAY", "bcl-FIRST_FULL_WEEK-MONDAY")])
    part("int-forms", w_int_rules, [(tier, rr) for rr in _split([r[0] for r in RULES if r[1] != "iso"], 10)])
    part("navigation", w_navigation, [(cid, tier) for cid, _ in cals])
    iso = CalendarSystem.iso
    ny = set(range(1800, 2200)) | {iso.min_year, iso.min_year + 1, -1, 0, 1, 2, 9998, iso.max_year}
    if tier == "thorough":
        ny |= set(range(iso.min_year, iso.max_year + 1, 7)) | set(range(1, 2400))
    part("nth-weekday", w_nth, _split(sorted(ny), 16 if tier == "quick" else 64))
    flush()
    dl.report_disagreements(ctx, "C16")
    ctx.note("calendars", len(cals))
    ctx.note("rules", len(RULES))
    ctx.rule = ("weekyear: (calendar, rule, year) x every date within 8 days of the year start (plus the last days of the calendar); quick = ISO calendar x 71 rules x "
                "(range ends + 400-year cycle 1800-2200 + a seed-positioned block of 40 years), every other calendar x 3 core rules x the same kind of year set, and all 71 "
                "rules x (range ends + 29 years) in every calendar; thorough = every year of every calendar x core rules (ISO: all 71) and all 71 rules x 600 years. "
                "non-trivial = distinct (calendar, rule kind, min-days, date class [first/last/interior year, prev/same/next week-year, outside the year range]). "
                "iso-stdlib: quick = first/last 9 days of every year 1-9999 + every date of 1800-2199; thorough = every date of years 1-9999. navigation: non-trivial = "
                "distinct (calendar, operation, same/other weekday, near range start/end/interior). nth-weekday: distinct (month length, occurrence, weekday relation to the 1st).")
    ctx.assumptions = ["the day-number <-> date bijection (C01/C02); weekday of day number n is (n + 3) mod 7 + 1 (1970-01-01 was a Thursday), checked against day_of_week on every visited date",
                       "year starts are read from the public constructor (first day of the chronologically first month)",
                       "the week-1 definition: the first week (starting on the rule's first day of week) with at least min-days days in the calendar year",
                       "the model is not defined for week-years below the calendar's first year (start of year min-1 is not exposed): only the consistency laws are applied there",
                       "datetime.date.isocalendar / fromisocalendar as the ISO-8601 reference for years 1-9999"]
    ctx.exhaustive = True
    ctx.note("exhaustive_scope", "every (calendar, rule, year, date-in-window) combination of the declared year sets; every date of years 1-9999 against the stdlib only in the thorough tier")
    if tier == "quick":
        ctx.cap("weekyear: quick tier visits the year sets described in 'rule', not every year (thorough does); iso-stdlib: quick visits year-boundary windows of all years + all dates of 1800-2199")


def replay(rec):
    case = rec.get("case") or {}
    key = rec.get("key", "")
    kind = case.get("kind")
    if kind == "weekyear":
        cal = CalendarSystem.for_id(case["calendar"])
        y = case["date"][0]
        ys = [yy for yy in (y, y + 1) if cal.min_year <= yy <= cal.max_year]
        return key in w_weekyear((case["calendar"], "quick", [case["rule"]], ys, True)).violations
    if kind == "introle":
        return key in w_int_rules((rec.get("tier", "quick"), [case["rule"]])).violations
    if kind == "history":
        return key in w_long_history((rec.get("tier", "quick"), case["rule"])).violations
    if kind == "nth":
        return key in w_nth([case["year"]]).violations
    if kind == "nav":
        return key in w_navigation((case["calendar"], rec.get("tier", "quick"))).violations
    if kind in ("iso", "fromiso"):
        y = case["date"][0] if kind == "iso" else case["week_year"]
        return key in w_iso_stdlib(("quick", max(1, y - 1), min(10000, y + 2), True)).violations
    return False
