"""C08 - parsing never raises; pattern creation fails only with InvalidPatternError.

Bounded-exhaustive exploration with an exception-type oracle (the only model needed is "what is a valid value"):

  create-short   ALL strings of length <= 3 over the 35-character alphabet grammar.SIGMA as pattern text of each of the
                 seven pattern types (invariant culture; strings of length <= 2 also in two other cultures)
  create-struct  ALL strings of length <= 5 (quick) / 6 (thorough) over the structural alphabet grammar.SIGMA_STRUCT
  generated      the C07 custom-pattern set (<= k fields, every width, five delimiter styles, embedded patterns)
  builtin        every built-in pattern and every standard single-letter pattern (several cultures)
  templates      era / calendar / year-of-era patterns under every template calendar (with_calendar)
  names          EVERY culture: every month / day name, am/pm designator and era name containing a non-alphanumeric
                 character: own text, case variants, and the name with each such character replaced (must fail
                 cleanly unless the result is another name of the field)
  composite      all interleavings of construct / add / add / build of two CompositePatternBuilder()s for different
                 value types: each composite parses / formats only with its own patterns
  metachar       patterns whose literals are format-string metacharacters ({ } {0} %s \\ $1 ..., quoted / escaped / bare):
                 the texts that match them carry those characters into every failure message; every failure's error is
                 requested in full
  ill-formed     embedded ld<>/lt<>/l<> patterns combined with an individual field of the same kind before / after the
                 embedding, embedded twice, every pair of width variants of one field: creation must raise
                 InvalidPatternError, or - if accepted - parsing of the formatted grid and of every re-splicing of its
                 halves must not raise
  extreme-templates  generated patterns under with_template_value for extreme templates (day 31 / 30 / leap day, last
                 day of a leap year and of the last year of every calendar, range ends, 23:59:59.999999999), fed texts
                 that vary every PRESENT field over its whole range (every month, every day, leap and non-leap years)

`create*` must return a pattern or raise InvalidPatternError - nothing else.  Every pattern that was created is then
fed input texts: the formatted value alphabet, EVERY single-edit mutation of some of those texts (delete each position;
substitute / insert each of 12 characters at each position), every digit run replaced by each of 12 replacements,
and pattern-independent hostile texts (empty, NUL, overlong digit runs, non-ASCII digits).  parse() must return a
result object; success => the value is a valid value of the type (inside the range, equal to the value rebuilt from
its components through the public constructors); failure => the error is available on request (exception is an
Exception instance, value / get_value_or_throw raise it, try_get_value returns (False, default)).
"""
from __future__ import annotations

import functools
import os

from pyoda_time import CalendarSystem
from pyoda_time.text import InvalidPatternError

from vf.checks import c07
from vf.core import grammar as G
from vf.core.evidence import Acc, exc_origin, exc_site
from vf.core.par import pmap
from vf.models import textref as T

LEVEL = "model_checking"
KCLS = c07.KCLS
OTHER_CULTURES = ("fi-FI", "ar-SA", "ja-JP", "fr-FR", "en-US")     # '.' time separator, RTL separators, CJK designators, genitive months


def culture(name):
    return c07.culture(name)


# ---------------------------------------------------------------------------------------------------------------
# oracle for one parse call
# ---------------------------------------------------------------------------------------------------------------

_SENTINEL = object()


def text_site(e: BaseException) -> str:
    """'file.py:function' of the innermost frame inside pyoda_time/text (where the escaping exception crossed the
    parsing code) - distinguishes root causes that all end in the same precondition helper."""
    tb = e.__traceback__
    site = None
    while tb is not None:
        fn = tb.tb_frame.f_code.co_filename.replace("\\", "/")
        if "/pyoda_time/text/" in fn:
            site = "%s:%s" % (os.path.basename(fn), tb.tb_frame.f_code.co_name.lstrip("_"))
        tb = tb.tb_next
    return site or exc_site(e)


def show(text, n=80):
    r = repr(text)
    return r if len(r) <= n else r[:n] + "..."


def py_parse(kind, ptext, cname, text, config=""):
    if cname.startswith("syn:"):
        return None          # customised clone: see c07.SYNTHETIC_CULTURES; the replay file carries the case
    cls = KCLS[kind].__name__
    cul = "CultureInfo.invariant_culture" if cname == "" else "CultureInfo(%r)" % cname
    return ("from pyoda_time import CalendarSystem\nfrom pyoda_time._compatibility._culture_info import CultureInfo\n"
            "from pyoda_time.text import %s\n\n"
            "def test_replay():\n    p = %s.create(%r, %s)%s\n    r = p.parse(%r)   # must not raise; success => valid value\n"
            "    if r.success:\n        v = r.value\n        print(v)\n" % (cls, cls, ptext, cul, config, text))


def check_parse(acc: Acc, kind, pat, text, info, deep_protocol):
    """One parse call against the oracle.  info = dict describing the pattern (for the replay)."""
    acc.count(transitions=1, evaluations=1)
    try:
        r = pat.parse(text)
    except Exception as e:  # noqa: BLE001
        if exc_origin(e) == "harness":
            raise
        acc.violation("C08/%s/parse-raises/%s/%s" % (kind, type(e).__name__, text_site(e)),
                      "%s pattern %s parse(%s) raised %s: %s" % (kind, show(info.get("pattern")), show(text), type(e).__name__, str(e)[:200]),
                      dict(info, text=text),
                      py=py_parse(kind, info.get("pattern"), info.get("culture", ""), text, info.get("config_code", ""))
                      if info.get("replayable", True) else None)
        acc.outcome("parse raised " + type(e).__name__)
        return
    try:
        ok = r.success
        if ok:
            v = r.value
            prob = T.validity_problem(kind, v)
            if prob is not None:
                acc.violation("C08/%s/success-invalid-value/%s" % (kind, prob[0]),
                              "%s pattern %s parse(%s) succeeded with an invalid value: %s" % (kind, show(info.get("pattern")), show(text), prob[1]),
                              dict(info, text=text),
                              py=py_parse(kind, info.get("pattern"), info.get("culture", ""), text, info.get("config_code", ""))
                              if info.get("replayable", True) else None)
                acc.outcome("success with INVALID value")
                return
            if deep_protocol:
                got = r.try_get_value(_SENTINEL)
                if not (isinstance(got, tuple) and got[0] is True and got[1] == v) or r.get_value_or_throw() != v:
                    acc.violation("C08/%s/result-protocol/success-accessors" % kind,
                                  "successful result of parse(%s): try_get_value / get_value_or_throw disagree with value" % show(text),
                                  dict(info, text=text))
            acc.outcome("success, valid value")
            acc.count(nontrivial=1)
        else:
            exc = r.exception
            if not isinstance(exc, Exception):
                acc.violation("C08/%s/result-protocol/exception-not-an-exception" % kind,
                              "failed result of parse(%s): exception is %r" % (show(text), type(exc).__name__), dict(info, text=text))
                return
            if deep_protocol:
                raised = None
                try:
                    r.value
                except Exception as e2:  # noqa: BLE001
                    raised = e2
                got = r.try_get_value(_SENTINEL)
                if raised is None or type(raised) is not type(exc) or not (isinstance(got, tuple) and got[0] is False and got[1] is _SENTINEL):
                    acc.violation("C08/%s/result-protocol/failure-accessors" % kind,
                                  "failed result of parse(%s): value raised %r, exception is %r, try_get_value gave %r" % (
                                      show(text), type(raised).__name__, type(exc).__name__, got if not isinstance(got, tuple) else got[0]),
                                  dict(info, text=text))
                    return
            acc.outcome("failure: " + type(exc).__name__)
    except Exception as e:  # noqa: BLE001
        if exc_origin(e) == "harness":
            raise
        acc.violation("C08/%s/result-protocol/unexpected-%s/%s" % (kind, type(e).__name__, exc_site(e)),
                      "inspecting the result of parse(%s) raised %s: %s" % (show(text), type(e).__name__, str(e)[:200]), dict(info, text=text))


def try_create(acc: Acc, kind, text, cname, how=0):
    """create*(text) -> pattern | None; anything but InvalidPatternError is a violation."""
    acc.count(transitions=1, evaluations=1)
    try:
        if cname == "" and how == 1:
            p = KCLS[kind].create_with_invariant_culture(text)
        else:
            p = KCLS[kind].create(text, culture(cname))
        acc.outcome("created")
        return p
    except InvalidPatternError:
        acc.outcome("InvalidPatternError")
        return None
    except Exception as e:  # noqa: BLE001
        if exc_origin(e) == "harness":
            raise
        acc.violation("C08/%s/create/%s/%s" % (kind, type(e).__name__, text_site(e)),
                      "%s.create(%s, %s) raised %s: %s" % (KCLS[kind].__name__, show(text), cname or "invariant", type(e).__name__, str(e)[:200]),
                      {"kind": kind, "pattern": text, "culture": cname},
                      py="from pyoda_time.text import %s, InvalidPatternError\n\ndef test_replay():\n    try:\n        %s.create_with_invariant_culture(%r)\n"
                         "    except InvalidPatternError:\n        pass\n" % (KCLS[kind].__name__, KCLS[kind].__name__, text))
        acc.outcome("create raised " + type(e).__name__)
        return None


# ---------------------------------------------------------------------------------------------------------------
# input texts for a created pattern
# ---------------------------------------------------------------------------------------------------------------

@functools.lru_cache(maxsize=None)
def probe_values(kind, with_cal):
    """Values whose formatted texts seed the mutations (library values)."""
    if kind == "offset":
        vs = (0, 64800, -64800, 19800, -3723, 1)
    elif kind == "duration":
        vs = (0, T.DURATION_MAX, T.DURATION_MIN, -1, 10 * T.NS_D + 23 * T.NS_H + 59 * T.NS_M + 59 * T.NS_S + 999_999_999, 1_500_000_000)
    elif kind == "time":
        vs = ((0, 0, 0, 0), (23, 59, 59, 999_999_999), (12, 0, 0, 0), (7, 8, 9, 120_000_000), (11, 59, 59, 1))
    elif kind == "annual":
        vs = ((1, 1), (2, 29), (12, 31), (10, 9))
    else:
        dates = [("ISO", 2000, 1, 1), ("ISO", 9999, 12, 31), ("ISO", -9998, 1, 1), ("ISO", 2024, 2, 29), ("ISO", 1, 1, 1), ("ISO", -1, 12, 31)]
        if with_cal:
            for cid in CalendarSystem.ids:
                cal = T.Cal.get(cid)
                mm = cal.months_in_year(cal.max_year)
                dates.append((cid, cal.max_year, mm, cal.days_in_month(cal.max_year, mm)))
                dates.append((cid, cal.min_year, 1, 1))
        if kind == "date":
            vs = tuple(dates)
        else:
            if kind == "instant":
                dates = [d for d in dates if d[0] == "ISO"]
            vs = tuple([d + (0, 0, 0, 0) for d in dates] + [dates[1] + (23, 59, 59, 999_999_999), dates[3] + (12, 34, 56, 789_000_000)])
    out = []
    for v in vs:
        try:
            out.append(T.to_lib(kind, v))
        except Exception as e:  # noqa: BLE001
            if exc_origin(e) == "harness":
                raise
    return tuple(out)


def input_texts(acc, pat, values, n_edit, with_runs=True, hostile=True):
    """Ordered, de-duplicated input texts for one pattern."""
    texts = []
    for lv in values:
        try:
            s = pat.format(lv)
            acc.count(transitions=1)
        except Exception as e:  # noqa: BLE001  formatting is C07's business; just skip the seed
            if exc_origin(e) == "harness":
                raise
            acc.outcome("seed value not formattable (C07's concern)")
            continue
        if isinstance(s, str) and s not in texts:
            texts.append(s)
    seen = set()
    for t in texts:
        if t not in seen:
            seen.add(t)
            yield t
    if hostile:
        for t in G.hostile_texts():
            if t not in seen:
                seen.add(t)
                yield t
    if with_runs:
        for t in texts:
            for m in G.run_replacements(t):
                if m not in seen:
                    seen.add(m)
                    yield m
    for t in texts[:n_edit]:
        for m in G.single_edits(t):
            if m not in seen:
                seen.add(m)
                yield m


def probe_pattern(acc, kind, pat, info, values, n_edit, with_runs=True, hostile=True, deep=3):
    acc.count(states=1)
    n = 0
    for text in input_texts(acc, pat, values, n_edit, with_runs, hostile):
        check_parse(acc, kind, pat, text, info, n < deep or n % 64 == 0)
        n += 1
    return n


# ---------------------------------------------------------------------------------------------------------------
# workers
# ---------------------------------------------------------------------------------------------------------------

def create_worker(task):
    mode, kind, lo, hi, maxlen, cnames = task
    acc = Acc()
    alphabet = G.SIGMA if mode == "short" else G.SIGMA_STRUCT
    values = probe_values(kind, False)[:2]
    for idx, text in enumerate(G.string_range(alphabet, maxlen, lo, hi)):
        for cname in cnames:
            if cname != "" and len(text) > 2:
                continue
            pat = try_create(acc, kind, text, cname, idx & 1)
            if pat is None:
                continue
            info = {"kind": kind, "pattern": text, "culture": cname}
            probe_pattern(acc, kind, pat, info, values, 0 if mode == "struct" else (1 if len(text) <= 2 else 0), with_runs=True,
                          hostile=(mode == "short"), deep=1)
            if len(acc.samples) < 2:
                acc.sample({"accepted pattern": text, "kind": kind, "culture": cname or "<invariant>"})
    return acc


def synthetic_for(pat):
    """The customised cultures (c07.SYNTHETIC_CULTURES) whose special feature a pattern can depend on."""
    out = []
    if "ampm" in pat.names:
        out += ["syn:no-ampm", "syn:am-only", "syn:pm-only", "syn:same-ampm", "syn:prefix-ampm", "syn:foo-ampm"]
    if 1 in T.relevant_class_components(pat.text, pat.names):
        out += ["syn:timesep-dot", "syn:timesep-long"]
    if "mtext" in pat.names:
        out.append("syn:month-prefix")
    if "dow" in pat.names:
        out.append("syn:day-prefix")
    return tuple(out)


def generated_worker(task):
    kind, tier, lo, hi, cnames = task
    acc = Acc()
    pats = c07.pattern_list(kind, tier)[lo:hi]
    for pat in pats:
        sens = bool(T.relevant_class_components(pat.text, pat.names)) or pat.delim == "emb-std"
        for cname in (tuple(dict.fromkeys(cnames + synthetic_for(pat) + (OTHER_CULTURES if pat.delim == "emb-std" else ()))) if sens else cnames[:1]):
            p = try_create(acc, kind, pat.text, cname)
            if p is None:
                continue
            values = probe_values(kind, "cal" in pat.names)
            info = {"kind": kind, "pattern": pat.text, "culture": cname}
            if cname == "" or pat.delim == "emb-std":
                probe_pattern(acc, kind, p, info, values, 1 if tier == "quick" else 3)
            else:
                probe_pattern(acc, kind, p, info, values[:3], 0, hostile=False)
    return acc


def builtin_worker(task):
    kind, what, name, cname = task
    acc = Acc()
    info = {"kind": kind, "pattern": name, "culture": cname}
    try:
        if what == "attr":
            pat = getattr(KCLS[kind], name)
            info["pattern"] = getattr(pat, "pattern_text", name)
            info["builtin"] = "%s.%s" % (KCLS[kind].__name__, name)
        else:
            pat = try_create(acc, kind, name, cname)
            if pat is None:
                return acc
    except AttributeError:
        acc.degrade("built-in pattern %s.%s not present" % (KCLS[kind].__name__, name))
        return acc
    except Exception as e:  # noqa: BLE001
        acc.lib_exception("C08/%s/builtin-%s" % (kind, name), e, info)
        return acc
    with_cal = name in ("full_roundtrip", "r") and kind in ("date", "datetime")
    values = probe_values(kind, with_cal)
    if cname != "":
        values = values[:4]
    n = probe_pattern(acc, kind, pat, info, values, len(values), deep=8)
    if len(acc.samples) < 1:
        acc.sample({"pattern": info["pattern"], "kind": kind, "culture": cname or "<invariant>", "input texts": n})
    return acc


TEMPLATE_PATTERNS = ("yyyy'~'gg", "yy'~'g", "gg yyyy MM dd", "yyyy MM dd", "yy'~'MM", "uuuu'-'MM'-'dd", "%c", "c'~'dd", "yy'~'c", "yyyy'~'c",
                     "MMMM'~'d", "dddd'~'d", "c'~'MM", "c'~'uuuu")


def template_worker(task):
    cid, tier = task
    acc = Acc()
    cal = CalendarSystem.for_id(cid)
    tc = T.Cal.get(cid)
    mm = tc.months_in_year(tc.max_year)
    seeds = [(cid, tc.max_year, mm, tc.days_in_month(tc.max_year, mm)), (cid, tc.min_year, 1, 1)]
    mid = {"mundi": 5784, "hegirae": 1445, "persico": 1402, "martyrum": 1740, "bahai": 180, "common": 2024}[T.era_family(cid)]
    seeds.append((cid, mid, 1, 1))
    seeds.append(("ISO", 2000, 1, 1))
    seeds.append(("Hebrew Civil", 5784, 13, 29))
    seeds.append(("Coptic", 1740, 13, 5))
    seeds.append(("Um Al Qura", 1445, 1, 1))
    seeds.append(("Badi", 180, 19, 1))
    values = []
    for sd in seeds:
        try:
            values.append(T.to_lib("date", sd))
        except Exception as e:  # noqa: BLE001
            if exc_origin(e) == "harness":
                raise
    for kind in ("date", "datetime"):
        for ptext in TEMPLATE_PATTERNS:
            text = ptext if kind == "date" else ptext + "' 'HH"
            base = try_create(acc, kind, text, "")
            if base is None:
                continue
            try:
                acc.count(transitions=1, evaluations=1)
                pat = base.with_calendar(cal)
            except InvalidPatternError:
                acc.outcome("with_calendar: InvalidPatternError")
                continue
            except Exception as e:  # noqa: BLE001
                if exc_origin(e) == "harness":
                    raise
                if "MMMM" in ptext and cid == "Badi":
                    acc.outcome("with_calendar raised for a template month without a name (month-name side condition)")
                    continue
                acc.violation("C08/%s/with_calendar/unexpected-%s/%s" % (kind, type(e).__name__, exc_site(e)),
                              "%s.create(%r).with_calendar(%s) raised %s: %s" % (KCLS[kind].__name__, text, cid, type(e).__name__, str(e)[:200]),
                              {"kind": kind, "pattern": text, "calendar": cid})
                continue
            vs = values if kind == "date" else [v.at_midnight() for v in values]
            info = {"kind": kind, "pattern": text, "culture": "", "config": "with_calendar(%s)" % cid,
                    "config_code": ".with_calendar(CalendarSystem.for_id(%r))" % cid}
            probe_pattern(acc, kind, pat, info, vs, 2 if tier == "quick" else len(vs), deep=4)
    return acc


# ---------------------------------------------------------------------------------------------------------------
# extreme template values: absent fields come from a template that is only valid for SOME values of the present fields
# ---------------------------------------------------------------------------------------------------------------

TIME_MAX = (23, 59, 59, 999_999_999)


@functools.lru_cache(maxsize=None)
def leapish_year(cid):
    """A present-day year of the calendar whose year is longest among its neighbours (public API only)."""
    cal = T.Cal.get(cid)
    base = {"mundi": 5784, "hegirae": 1445, "persico": 1402, "martyrum": 1740, "bahai": 180, "common": 2024}[T.era_family(cid)]
    best, best_len = base, -1
    for y in range(base, base + 8):
        if cal.min_year <= y <= cal.max_year:
            n = cal.sys.get_days_in_year(y)
            if n > best_len:
                best, best_len = y, n
    return best


def last_day(cid, y):
    cal = T.Cal.get(cid)
    m = cal.months_in_year(y)
    return (cid, y, m, cal.days_in_month(y, m))


@functools.lru_cache(maxsize=None)
def extreme_templates(kind, cid="ISO"):
    """Template tuples whose own field values are extreme: day 31 / 30 / leap day, last day of a (leap) year, range ends."""
    if kind == "annual":
        return ((1, 31), (3, 31), (2, 29), (12, 31))
    if kind == "time":
        return (TIME_MAX, (12, 0, 0, 1))
    if cid == "ISO":
        dates = (("ISO", 2024, 2, 29), ("ISO", 2000, 1, 31), ("ISO", 9999, 12, 31), ("ISO", -9998, 1, 1), ("ISO", 2023, 12, 31), ("ISO", 2024, 3, 30))
    else:
        cal = T.Cal.get(cid)
        ly = leapish_year(cid)
        cands = [last_day(cid, ly), last_day(cid, cal.max_year), (cid, cal.min_year, 1, 1)]
        m1 = cal.days_in_month(ly, 1)
        cands.append((cid, ly, 1, m1))
        dates = tuple(dict.fromkeys(cands))
    if kind == "date":
        return dates
    if kind == "instant":
        return tuple(d + TIME_MAX for d in dates[:4] if d[1] != -9998) + (("ISO", -9998, 1, 1, 0, 0, 0, 0),)
    return tuple(d + TIME_MAX for d in dates)


@functools.lru_cache(maxsize=None)
def field_grid(kind, cid="ISO"):
    """Library values that vary every present field over its whole range (every month, every day 1..31, leap and
    non-leap years, range ends; every hour / minute) - the seeds of the texts parsed under the extreme templates."""
    out = []
    if kind == "annual":
        iso = T.Cal.get("ISO")
        vs = [(m, d) for m in range(1, 13) for d in range(1, iso.days_in_month(2000, m) + 1)]
    elif kind == "time":
        vs = [(h, mi, sec, ns) for h in range(24) for (mi, sec, ns) in ((0, 0, 0), (59, 59, 999_999_999))]
        vs += [(12, mi, 30, 500_000_000) for mi in range(60)] + [(0, 30, sec, 1) for sec in range(60)]
    else:
        cal = T.Cal.get(cid)
        if cid == "ISO":
            years = [2024, 2023, 2000, 1900, -9998, 9999, 1, 0]
        else:
            ly = leapish_year(cid)
            years = [y for y in dict.fromkeys((ly, ly + 1, ly - 1, cal.min_year, cal.max_year, 2000)) if cal.min_year <= y <= cal.max_year]
        if kind != "date":
            years = years[:2] + years[-4:-2] if cid == "ISO" else years[:3]
        dates = []
        for y in years:
            for m in range(1, cal.months_in_year(y) + 1):
                dim = cal.days_in_month(y, m)
                for d in sorted({1, 15, 28, 29, 30, 31, dim}):
                    if d <= dim:
                        dates.append((cid, y, m, d))
        if kind == "date":
            vs = dates
        else:
            if kind == "instant":
                dates = [d for d in dates if d[0] == "ISO"]
            vs = [d + (0, 0, 0, 0) for d in dates] + [d + TIME_MAX for d in dates[::7]] + [dates[0] + (h, 30, 0, 0) for h in range(24)]
    for v in vs:
        try:
            out.append(T.to_lib(kind, v))
        except Exception as e:  # noqa: BLE001
            if exc_origin(e) == "harness":
                raise
    return tuple(out)


EXTREME_DELIMS = ("", "q", "fixed", "T", "ld+lt")


def extreme_worker(task):
    kind, tier, lo, hi, cids = task
    acc = Acc()
    pats = [p for p in c07.pattern_list(kind, tier) if p.delim in EXTREME_DELIMS][lo:hi]
    for pat in pats:
        base = try_create(acc, kind, pat.text, "")
        if base is None:
            continue
        for cid in cids:
            if cid != "ISO" and not (set(pat.names) & G.DATE_FIELD_NAMES):
                continue
            texts = []
            seen = set()
            for lv in field_grid(kind, cid):
                try:
                    t = base.format(lv)
                except Exception as e:  # noqa: BLE001  (month 13+ with text months etc.: C07's side condition)
                    if exc_origin(e) == "harness":
                        raise
                    continue
                if t not in seen:
                    seen.add(t)
                    texts.append(t)
            acc.count(transitions=len(field_grid(kind, cid)))
            for tv in extreme_templates(kind, cid):
                acc.count(states=1, transitions=1, evaluations=1)
                try:
                    p = base.with_template_value(T.to_lib(kind, tv))
                except InvalidPatternError:
                    acc.outcome("with_template_value: InvalidPatternError")
                    continue
                except Exception as e:  # noqa: BLE001
                    if exc_origin(e) == "harness":
                        raise
                    month = tv[0] if kind == "annual" else (tv[2] if kind != "time" else 0)
                    if "mtext" in pat.names and month > 12:
                        acc.outcome("with_template_value raised for a template month without a name (month-name side condition)")
                        continue
                    acc.violation("C08/%s/with_template_value/%s/%s" % (kind, type(e).__name__, text_site(e)),
                                  "%s.create(%r).with_template_value(%s) raised %s: %s" % (KCLS[kind].__name__, pat.text, tv, type(e).__name__, str(e)[:200]),
                                  {"kind": kind, "pattern": pat.text, "template": tv})
                    continue
                info = {"kind": kind, "pattern": pat.text, "culture": "", "template": tv, "replayable": False}
                for i, t in enumerate(texts):
                    check_parse(acc, kind, p, t, info, i < 2)
    return acc


# ---------------------------------------------------------------------------------------------------------------
# ill-formed composites: embedded pattern + individual field of the same kind, repeated fields
# ---------------------------------------------------------------------------------------------------------------

def illformed_worker(task):
    kind, lo, hi = task
    acc = Acc()
    items = list(G.illformed_composites(kind))[lo:hi]
    for text, family in items:
        acc.count(states=1)
        pat = try_create(acc, kind, text, "")
        if pat is None:
            continue
        acc.outcome("ill-formed composite accepted (%s)" % family)
        # the tree accepts it: parsing must still never raise.  Texts: formatted grid values, and every re-splicing of
        # their two halves at the '~' joint, so the duplicated field takes every other value of its range.
        values = field_grid(kind) if kind in ("annual", "time", "date", "datetime", "instant") else probe_values(kind, False)
        lefts, rights, whole = [], [], []
        for lv in values:
            try:
                t = pat.format(lv)
            except Exception as e:  # noqa: BLE001
                if exc_origin(e) == "harness":
                    raise
                continue
            if t not in whole:
                whole.append(t)
            if t.count("~") == 1:
                a, b = t.split("~")
                if a not in lefts:
                    lefts.append(a)
                if b not in rights:
                    rights.append(b)
        info = {"kind": kind, "pattern": text, "culture": "", "family": family}
        n = 0
        seen = set()
        for t in whole[:200]:
            seen.add(t)
            check_parse(acc, kind, pat, t, info, n < 2)
            n += 1
        for a in lefts[:60]:
            for b in rights[:60]:
                t = a + "~" + b
                if t not in seen:
                    seen.add(t)
                    check_parse(acc, kind, pat, t, info, False)
        for t in G.hostile_texts():
            check_parse(acc, kind, pat, t, info, False)
    return acc


# ---------------------------------------------------------------------------------------------------------------
# literals made of format-string metacharacters
# ---------------------------------------------------------------------------------------------------------------

def metachar_worker(task):
    kind, lo, hi = task
    acc = Acc()
    pats = list(G.metachar_patterns(kind))[lo:hi]
    for pat in pats:
        p = try_create(acc, kind, pat.text, "")
        if p is None:
            continue
        values = probe_values(kind, False)
        info = {"kind": kind, "pattern": pat.text, "culture": ""}
        # every failure's error is requested in full (exception, value, get_value_or_throw, try_get_value)
        probe_pattern(acc, kind, p, info, values, 1, deep=10**9)
    return acc


# ---------------------------------------------------------------------------------------------------------------
# names: every culture-supplied name with a non-alphanumeric character, matched case-insensitively by the parser
# ---------------------------------------------------------------------------------------------------------------

def _has_special(name):
    return any(not ch.isalnum() for ch in name)


def _name_mutations(name):
    """The name with each non-alphanumeric character replaced by another character (one at a time)."""
    out = []
    for i, ch in enumerate(name):
        if not ch.isalnum():
            for rep in ("X", "#"):
                if rep != ch:
                    m = name[:i] + rep + name[i + 1:]
                    if m not in out:
                        out.append(m)
    return out


def names_worker(cnames):
    import pyoda_time as pt
    acc = Acc()
    for cname in cnames:
        P = c07.props(cname)
        jobs = []      # (kind, pattern text, [(text prefix, name, text suffix)], candidate names)
        # months: the date 2001-<m>-15 formats the m-th name; 'MMMM'/'MMM' alone is non-genitive, with 'd' genitive
        for width, tok in ((4, "MMMM"), (3, "MMM")):
            for genitive, ptext in ((False, "%s'~'yyyy" % tok), (True, "%s'~'d" % tok)):
                names = P.months[(width, genitive)]
                cands = [n for k in ((width, False), (width, True)) for n in P.months[k] if n]
                items = [("", names[m], "~2001" if not genitive else "~15") for m in range(1, 13) if m < len(names) and names[m] and _has_special(names[m])]
                if items:
                    jobs.append(("date", ptext, items, cands))
        for width, tok in ((4, "dddd"), (3, "ddd")):
            names = P.days[width]
            cands = [n for n in names if n]
            # 2001-01-01 was a Monday (ISO day 1)
            items = [("", names[d], "~%d~1~2001" % d) for d in range(1, 8) if d < len(names) and names[d] and _has_special(names[d])]
            if items:
                jobs.append(("date", "%s'~'d'~'M'~'yyyy" % tok, items, cands))
        items = [("%d~" % h, n, "") for h, n in ((3, P.am), (3, P.pm)) if n and _has_special(n)]
        if items and P.am and P.pm:
            jobs.append(("time", "h'~'tt", items, [P.am, P.pm]))
        for ident, year in (("common/main", 2001), ("common/before", 2001)):
            if ident in P.eras:
                primary, names = P.eras[ident]
                allnames = [n for e in ("common/main", "common/before") for n in P.eras.get(e, ("", []))[1] if n]
                items = [("2001~", n, "") for n in names if n and _has_special(n)]
                if items:
                    jobs.append(("date", "yyyy'~'gg", items, allnames))
        for kind, ptext, items, cands in jobs:
            pat = try_create(acc, kind, ptext, cname)
            if pat is None:
                continue
            acc.count(states=1)
            info = {"kind": kind, "pattern": ptext, "culture": cname}
            for pre, name, suf in items:
                text = pre + name + suf
                check_parse(acc, kind, pat, text, info, False)
                for variant in (name.upper(), name.lower()):
                    check_parse(acc, kind, pat, pre + variant + suf, info, False)
                for mut in _name_mutations(name):
                    mtext = pre + mut + suf
                    acc.count(transitions=1, evaluations=1)
                    try:
                        r = pat.parse(mtext)
                        ok = r.success
                    except Exception as e:  # noqa: BLE001
                        if exc_origin(e) == "harness":
                            raise
                        acc.violation("C08/%s/parse-raises/%s/%s" % (kind, type(e).__name__, text_site(e)),
                                      "%s pattern %r (%s) parse(%s) raised %s: %s" % (kind, ptext, cname or "invariant", show(mtext), type(e).__name__, str(e)[:160]),
                                      dict(info, text=mtext))
                        continue
                    if ok and not any(T._same_ci(mut, c) or (len(c) < len(mut) and False) for c in cands):
                        acc.violation("C08/%s/accepts-a-text-that-is-not-a-name/%s" % (kind, ptext),
                                      "%s pattern %r (%s): %s is parsed successfully although the name is %s (changed character %r)" % (
                                          kind, ptext, cname or "invariant", show(mtext), show(name), [a for a, b in zip(name, mut) if a != b][:1]),
                                      dict(info, text=mtext, name=name))
                    else:
                        acc.outcome("mutated name rejected" if not ok else "mutated name equals another name")
    return acc


# ---------------------------------------------------------------------------------------------------------------
# composite pattern builders: constructions / add() / build() of several builders interleaved in every order
# ---------------------------------------------------------------------------------------------------------------

def _composite_specs():
    import pyoda_time as pt
    from pyoda_time.text import DurationPattern, LocalTimePattern, OffsetPattern
    mk = lambda cls, t: cls.create_with_invariant_culture(t)     # noqa: E731
    return {
        "offset": ([mk(OffsetPattern, "+HH:mm"), mk(OffsetPattern, "+HH")], [pt.Offset.from_hours_and_minutes(5, 30), pt.Offset.from_hours(-3)], pt.Offset),
        "duration": ([mk(DurationPattern, "-H:mm:ss"), mk(DurationPattern, "-D:hh")], [pt.Duration.from_seconds(3723), pt.Duration.from_hours(49)], pt.Duration),
        "time": ([mk(LocalTimePattern, "HH:mm:ss"), mk(LocalTimePattern, "HH:mm")], [pt.LocalTime(5, 30, 15), pt.LocalTime(23, 59, 0)], pt.LocalTime),
    }


def composite_worker(task):
    """All interleavings of [construct, add, add, build] of the chosen builders (no-argument constructor)."""
    import itertools
    from pyoda_time.text._composite_pattern_builder import CompositePatternBuilder
    names = task
    acc = Acc()
    specs = _composite_specs()
    all_texts = []
    for k in specs:
        pats, vals, _ = specs[k]
        for p in pats:
            for v in vals:
                t = p.format(v)
                if t not in all_texts:
                    all_texts.append(t)
    all_texts += ["", "x", "+05:30", "1:02:03"]
    steps = ["new", "add0", "add1", "build"]
    slots = [n for n in names for _ in steps]
    for order in sorted(set(itertools.permutations(slots))):
        acc.count(states=1)
        builders, built, pos = {}, {}, {n: 0 for n in names}
        try:
            for n in order:
                st = steps[pos[n]]
                pos[n] += 1
                pats = specs[n][0]
                if st == "new":
                    builders[n] = CompositePatternBuilder()
                elif st == "add0":
                    builders[n].add(pats[0], lambda v: True)
                elif st == "add1":
                    builders[n].add(pats[1], lambda v: True)
                else:
                    built[n] = builders[n].build()
                acc.count(transitions=1)
        except Exception as e:  # noqa: BLE001
            if exc_origin(e) == "harness":
                raise
            acc.violation("C08/composite/builder-raises-%s/%s" % (type(e).__name__, text_site(e)), "builder sequence %s raised %s: %s" % (order, type(e).__name__, str(e)[:160]),
                          {"order": list(order)})
            continue
        bad = None
        for n in names:
            pats, vals, typ = specs[n]
            comp = built[n]
            for t in all_texts:
                acc.count(transitions=1, evaluations=1)
                want = None
                for p in pats:
                    r = p.parse(t)
                    if r.success:
                        want = r.value
                        break
                try:
                    r = comp.parse(t)
                    got = r.value if r.success else None
                except Exception as e:  # noqa: BLE001
                    if exc_origin(e) == "harness":
                        raise
                    got = "raised " + type(e).__name__
                if got != want or (got is not None and not isinstance(got, typ)):
                    bad = (n, "parse(%r)" % t, got, want)
                    break
            if bad:
                break
            for v in vals:
                try:
                    got = comp.format(v)
                except Exception as e:  # noqa: BLE001
                    if exc_origin(e) == "harness":
                        raise
                    got = "raised " + type(e).__name__
                want = pats[1].format(v)      # predicates are all true: the last pattern added formats
                acc.count(transitions=1, evaluations=1)
                if got != want:
                    bad = (n, "format(%s)" % c07.short(v), got, want)
                    break
            if bad:
                break
        if bad:
            acc.violation("C08/composite/builders-share-state/%s" % "+".join(names),
                          "builders for %s created with the no-argument constructor in the order %s: the %s composite answers %s with %s, its own patterns give %s" % (
                              "/".join(names), " ".join(order), bad[0], bad[1], c07.short(bad[2], 60), c07.short(bad[3], 60)), {"order": list(order), "types": list(names)})
            break
        acc.count(nontrivial=1)
    acc.outcome("composite builders independent over all interleavings of %s" % "+".join(names))
    return acc


# ---------------------------------------------------------------------------------------------------------------
# driver
# ---------------------------------------------------------------------------------------------------------------

def run(ctx):
    tier = ctx.tier
    only = getattr(ctx, "only", None)
    ctx.rule = "nontrivial = parse calls that succeeded and whose value passed the validity check (the rest are failure results, counted by exception type)"
    ctx.assumptions = [
        "a valid value = components inside the calendar's / type's documented range and equal to the value rebuilt from them through the public constructors",
        "failure protocol: exception is an Exception instance; value and get_value_or_throw raise an exception of that type; try_get_value returns (False, default)",
        "formatting problems of seed values belong to C07 and are skipped here",
    ]
    kinds = [k for k in G.KINDS if not os.environ.get("VERIF_KINDS") or k in os.environ["VERIF_KINDS"].split(",")]
    seed = ctx.seed

    def rot(tasks):
        tasks = list(tasks)
        k = seed % len(tasks) if tasks else 0
        return tasks[k:] + tasks[:k]

    if not only or "builtin" in only:
        tasks = []
        for kind, attr, _ in c07.BUILTINS:
            if kind in kinds:
                tasks.append((kind, "attr", attr, ""))
        for kind in kinds:
            for letter in G.STANDARD[kind]:
                for cname in ("",) + OTHER_CULTURES:
                    if cname == "" or letter in c07.CULTURE_DEPENDENT[kind]:
                        tasks.append((kind, "std", letter, cname))
        for acc in pmap(builtin_worker, rot(tasks)):
            ctx.merge_part("builtin", acc)
    if not only or "templates" in only:
        for acc in pmap(template_worker, rot([(cid, tier) for cid in CalendarSystem.ids])):
            ctx.merge_part("templates", acc)
    if not only or "extreme-templates" in only:
        tasks = []
        all_cids = tuple(CalendarSystem.ids)
        for kind in kinds:
            if kind in ("offset", "duration"):
                continue                      # no template value
            n = len([p for p in c07.pattern_list(kind, tier) if p.delim in EXTREME_DELIMS])
            size = 25 if kind == "date" else 60
            for lo in range(0, n, size):
                cids = all_cids if kind == "date" else (("ISO", "Hebrew Civil", "Coptic") if kind == "datetime" and tier == "thorough" else ("ISO",))
                if kind == "date":
                    cids = ("ISO",) + tuple(c for c in all_cids if c != "ISO")
                tasks.append((kind, tier, lo, min(n, lo + size), cids))
        for acc in pmap(extreme_worker, rot(tasks)):
            ctx.merge_part("extreme-templates", acc)
        ctx.cap("extreme templates: generated patterns with the quoted delimiter / fixed / composite shapes only; non-ISO calendar templates for LocalDate patterns%s" % (
            " and LocalDateTime (Hebrew Civil, Coptic)" if tier == "thorough" else ""))
    if not only or "names" in only:
        allc = c07.all_culture_names()
        for acc in pmap(names_worker, rot([tuple(allc[i:i + 25]) for i in range(0, len(allc), 25)])):
            ctx.merge_part("names", acc)
    if not only or "composite" in only:
        for acc in pmap(composite_worker, [("offset", "duration"), ("duration", "time"), ("time", "offset"), ("duration", "offset")]):
            ctx.merge_part("composite", acc)
    if not only or "metachar" in only:
        tasks = []
        for kind in kinds:
            n = sum(1 for _ in G.metachar_patterns(kind))
            for lo in range(0, n, 60):
                tasks.append((kind, lo, min(n, lo + 60)))
        for acc in pmap(metachar_worker, rot(sorted(tasks, key=lambda t: (t[1], t[0])))):
            ctx.merge_part("metachar", acc)
    if not only or "ill-formed" in only:
        tasks = []
        for kind in kinds:
            n = sum(1 for _ in G.illformed_composites(kind))
            for lo in range(0, n, 150):
                tasks.append((kind, lo, min(n, lo + 150)))
        for acc in pmap(illformed_worker, rot(tasks)):
            ctx.merge_part("ill-formed", acc)
    if not only or "create-short" in only:
        n = G.count_strings(G.SIGMA, 3)
        tasks = []
        for kind in kinds:
            for lo in range(0, n, 2500):
                tasks.append(("short", kind, lo, min(n, lo + 2500), 3, ("", "fi-FI", "ja-JP")))
        ctx.note("short_strings_per_type", n)
        for acc in pmap(create_worker, rot(tasks)):
            ctx.merge_part("create-short", acc)
    if not only or "create-struct" in only:
        maxlen = 5 if tier == "quick" else 6
        n = G.count_strings(G.SIGMA_STRUCT, maxlen)
        tasks = []
        for kind in kinds:
            for lo in range(0, n, 8000):
                tasks.append(("struct", kind, lo, min(n, lo + 8000), maxlen, ("",)))
        ctx.note("structural_strings_per_type", n)
        for acc in pmap(create_worker, rot(tasks)):
            ctx.merge_part("create-struct", acc)
    if not only or "generated" in only:
        tasks = []
        cn = ("", "fi-FI", "ar-SA") if tier == "quick" else ("",) + OTHER_CULTURES
        for kind in kinds:
            n = len(c07.pattern_list(kind, tier))
            for lo in range(0, n, 60):
                tasks.append((kind, tier, lo, min(n, lo + 60), cn))
        tasks = sorted(tasks, key=lambda t: (t[2] // 300, t[0]))
        for acc in pmap(generated_worker, rot(tasks)):
            ctx.merge_part("generated", acc)
        ctx.cap("generated patterns: every single-edit mutation of %s formatted text(s) per pattern, digit-run replacements of all seed texts; non-invariant cultures only for culture-dependent patterns" % ("one" if tier == "quick" else "three"))
    ctx.exhaustive = False
    ctx.cap("pattern texts: all strings <= 3 over a 35-character alphabet and <= %d over the 10-character structural alphabet; longer texts only from the generated grammar" % (5 if tier == "quick" else 6))


def replay(rec) -> bool:
    """Re-execute one recorded create / parse case; True when the same violation key reappears."""
    key = rec.get("key", "")
    case = rec.get("case") or {}
    if "case" in case and isinstance(case["case"], dict):
        case = case["case"]
    kind = case.get("kind") or key.split("/")[1]
    cname = case.get("culture", "") or ""
    acc = Acc()
    if "builtin" in case:
        pat = getattr(KCLS[kind], case["builtin"].split(".", 1)[1])
    else:
        pat = try_create(acc, kind, case.get("pattern"), cname)
        if pat is not None and "calendar" in case:
            try:
                pat = pat.with_calendar(CalendarSystem.for_id(case["calendar"]))
            except Exception as e:  # noqa: BLE001
                return "/with_calendar/" in key and type(e).__name__ in key
        if pat is not None and str(case.get("config", "")).startswith("with_calendar("):
            pat = pat.with_calendar(CalendarSystem.for_id(case["config"][len("with_calendar("):-1]))
    if pat is not None and "template" in case:
        tv = case["template"]
        tv = tuple(tv) if isinstance(tv, list) else tv
        try:
            pat = pat.with_template_value(T.to_lib(kind, tv))
        except Exception as e:  # noqa: BLE001
            return "/with_template_value/" in key and type(e).__name__ in key
    if pat is not None and "text" in case:
        check_parse(acc, kind, pat, case["text"], dict(case), True)
    return key in acc.violations
