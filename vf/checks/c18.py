"""C18 - Interval and DateInterval behave as the sets of instants / days they denote.

explore engine, model = Python frozenset of day indices / half-open pair of extended ints (models/intervalref.py).

parts
  dateinterval : per calendar, per universe of W consecutive days (range start, range end, a year seam, every month
                 seam of a leap year and of the following year): ALL W(W+1)/2 intervals and ALL ordered pairs of them;
                 len, iteration, membership of every universe day +-1, containment, &, |, ==, hash against the set model;
                 construction must reject every end < start and mixed calendars.
  interval     : all (start, end) pairs over an alphabet of instants + None: construction, has_start/has_end,
                 start/end/duration raise exactly when unbounded, membership of every alphabet instant, ==/hash.
  yearmonth    : YearMonth.to_date_interval == the run of days carrying that (year, month) on the day-number line.
  clones       : copy.copy / copy.deepcopy / pickle (protocols 2-5) of every interval, date interval and year-month built: the clone's
                 complete observation set must equal the original's (a route the type rejects with TypeError is skipped and recorded).
  cross-calendar: histories inside one process - the same (y, m, d) field pairs asked in every calendar in which they are valid, in
                 several calendar orders; every answer against the day-number set of the calendar asked (catches state kept
                 between calls that forgets the calendar; per-calendar workers can never see that).
"""
from __future__ import annotations

from pyoda_time import CalendarSystem, DateInterval, Duration, Instant, Interval, LocalDate, Period, YearMonth

from vf.core.evidence import Acc
from vf.core.par import pmap
from vf.models import cloneref as cr
from vf.models import dateline as dl
from vf.models import intervalref as ref

LEVEL = "model_checking"


# ----------------------------------------------------------------------------------------------- universes
def universes(cal, tier):
    """[(kind, first day number)] - windows of W consecutive days; kinds name the seam the window straddles."""
    w = 7 if tier == "quick" else 9
    lo, hi = dl.cal_range(cal)
    out = [("range-start", lo), ("range-end", hi - w + 1)]
    mid = (cal.min_year + cal.max_year) // 2
    ly = dl.leap_year_near(cal, mid) or mid
    years = [ly]
    if tier == "thorough":
        years += [y for y in (ly + 1,) if y <= cal.max_year]
        years += [y for y in (cal.min_year, cal.min_year + 1, cal.max_year - 1, cal.max_year, mid - 7, mid + 11) if y not in years]
    seen = set()
    for y in years:
        ys = dl.year_start(cal, y)
        for m in dl.month_order(cal, y):
            n = dl.daynum(LocalDate(y, m, 1, cal))
            kind = "year-seam" if n == ys else "month-seam"
            first = min(max(n - w // 2, lo), hi - w + 1)
            if first not in seen:
                seen.add(first)
                out.append(("%s %d-%02d" % (kind, y, m), first))
    return w, out


def relation(a, b, c, d):
    """Position of [c,d] relative to [a,b] - the input class used in violation keys."""
    if (a, b) == (c, d):
        return "identical-single" if a == b else "identical"
    if d < a or c > b:
        gap = (a - d - 1) if d < a else (c - b - 1)
        side = "before" if d < a else "after"
        return ("adjacent-" if gap == 0 else "gap1-" if gap == 1 else "gap2plus-") + side
    if a <= c and d <= b:
        return "nested-inner" + ("-touching" if a == c or d == b else "")
    if c <= a and b <= d:
        return "nested-outer" + ("-touching" if a == c or d == b else "")
    return "overlap-" + ("before" if c < a else "after")


def _raises(fn):
    try:
        fn()
    except Exception:  # noqa: BLE001 - "rejects" = any exception
        return True
    return False


def _iv_eq(iv, days, lo_hi):
    return iv is not None and iv.start == days[lo_hi[0]] and iv.end == days[lo_hi[1]]


def _describe(iv):
    return None if iv is None else [dl.ymd(iv.start), dl.ymd(iv.end)]


def w_dateinterval(job):
    cid, tier, shard, nshards = job
    acc = Acc()
    cal = CalendarSystem.for_id(cid)
    other = CalendarSystem.for_id("Julian" if cid == "ISO" else "ISO")
    twin = CalendarSystem.for_id("Gregorian" if cid == "ISO" else ("ISO" if cid == "Gregorian" else cid))
    lo, hi = dl.cal_range(cal)
    w, unis = universes(cal, tier)
    unis = [u for i, u in enumerate(unis) if i % nshards == shard]
    classes = set()
    P = "C18/date/%s" % cid
    for kind, first in unis:
        days = [dl.from_daynum(first + k, cal) for k in range(w)]
        case0 = {"calendar": cid, "universe": kind, "first_day_number": first, "first": dl.ymd(days[0]), "width": w}
        ext = {}
        if first - 1 >= lo:
            ext[-1] = dl.from_daynum(first - 1, cal)
        if first + w <= hi:
            ext[w] = dl.from_daynum(first + w, cal)
        pairs = [(a, b) for a in range(w) for b in range(a, w)]
        ivs = {}
        kk = kind.split(" ")[0]
        # -- construction
        for a in range(w):
            for b in range(w):
                case = dict(case0, a=a, b=b)
                if b < a:
                    acc.count(evaluations=1)
                    if not _raises(lambda: DateInterval(days[a], days[b])):
                        acc.violation("%s/ctor-accepts-end-before-start/%s" % (P, kk), "DateInterval(%s, %s) accepted" % (dl.ymd(days[a]), dl.ymd(days[b])), case)
                    continue
                try:
                    iv = DateInterval(days[a], days[b])
                except Exception as e:  # noqa: BLE001
                    acc.lib_exception("%s/ctor/%s" % (P, kk), e, case)
                    continue
                ivs[(a, b)] = iv
                acc.count(states=1)
        acc.count(evaluations=2)
        if cal.id != other.id:
            od = dl.from_daynum(0, other)  # any date of another calendar
            if not _raises(lambda: DateInterval(days[0], od)) or not _raises(lambda: DateInterval(od.plus_days(-1), days[0])):
                acc.violation("%s/ctor-accepts-mixed-calendars/%s" % (P, other.id), "DateInterval with %s and %s dates accepted" % (cid, other.id), case0)
        if twin.id != cal.id:  # same dates, different calendar identity
            td = days[w - 1].with_calendar(twin)
            acc.count(evaluations=1)
            if not _raises(lambda: DateInterval(days[0], td)):
                acc.violation("%s/ctor-accepts-mixed-calendars/%s" % (P, twin.id), "DateInterval with %s and %s dates accepted" % (cid, twin.id), case0)
        # -- unary laws
        for (a, b), iv in ivs.items():
            sa = ref.dset(a, b)
            case = dict(case0, a=a, b=b, interval=_describe(iv))
            single = "single" if a == b else "multi"
            try:
                acc.count(transitions=4 + w + len(ext), evaluations=4 + w + len(ext))
                if iv.start != days[a] or iv.end != days[b] or iv.calendar != cal:
                    acc.violation("%s/start-end/%s/%s" % (P, kk, single), "start/end/calendar differ from the constructor arguments", case)
                if _len(iv) != len(sa):
                    acc.violation("%s/len/%s/%s" % (P, kk, single), "len %d, set has %d days" % (_len(iv), len(sa)), case)
                got = list(iv)
                if got != days[a:b + 1]:
                    acc.violation("%s/iter/%s/%s" % (P, kk, single), "iteration yields %r" % ([dl.ymd(x) for x in got[:12]],), case)
                for k in list(range(w)) + list(ext):
                    d = days[k] if 0 <= k < w else ext[k]
                    exp = k in sa
                    if (d in iv) != exp or iv.contains(d) != exp:
                        pos = "start-1" if k == a - 1 else "start" if k == a else "end" if k == b else "end+1" if k == b + 1 else ("inside" if exp else "outside")
                        acc.violation("%s/contains-day/%s/%s" % (P, kk, pos), "%s in %s gives %r, set says %r" % (dl.ymd(d), _describe(iv), d in iv, exp), dict(case, k=k))
            except Exception as e:  # noqa: BLE001
                acc.lib_exception("%s/unary/%s" % (P, kk), e, case)
        # -- all ordered pairs
        for (a, b), A in ivs.items():
            sa = ref.dset(a, b)
            for (c, d), B in ivs.items():
                sb = ref.dset(c, d)
                rel = relation(a, b, c, d)
                classes.add((kk, rel))
                acc.outcome("pair:" + rel)
                case = dict(case0, A=[a, b], B=[c, d], relation=rel, A_dates=_describe(A), B_dates=_describe(B))
                acc.count(transitions=5, evaluations=9)
                try:
                    ei = ref.inter(sa, sb)
                    for name, got in (("and", A & B), ("intersection", A.intersection(B))):
                        if (got is None) != (ei is None) or (ei is not None and not _iv_eq(got, days, ei)):
                            acc.violation("%s/%s/%s" % (P, name, rel), "%s of %s and %s gives %s, set intersection is %s" % (
                                name, _describe(A), _describe(B), _describe(got), None if ei is None else [dl.ymd(days[ei[0]]), dl.ymd(days[ei[1]])]), case)
                    eu = ref.union(sa, sb)
                    for name, got in (("or", A | B), ("union", A.union(B))):
                        if (got is None) != (eu is None) or (eu is not None and not _iv_eq(got, days, eu)):
                            acc.violation("%s/%s/%s" % (P, name, rel), "%s of %s and %s gives %s; sets are %s" % (
                                name, _describe(A), _describe(B), _describe(got), "contiguous" if eu else "not contiguous (neither overlapping nor adjacent)"), case)
                    sub = sb <= sa
                    if (B in A) != sub or A.contains(B) != sub:
                        acc.violation("%s/contains-interval/%s" % (P, rel), "%s in %s gives %r, subset is %r" % (_describe(B), _describe(A), B in A, sub), case)
                    eq = sa == sb
                    if (A == B) != eq or (A != B) == eq or A.equals(B) != eq:
                        acc.violation("%s/eq/%s" % (P, rel), "== gives %r for %s, %s" % (A == B, _describe(A), _describe(B)), case)
                    if eq and hash(A) != hash(DateInterval(days[c], days[d])):
                        acc.violation("%s/hash/%s" % (P, rel), "equal intervals hash differently", case)
                except Exception as e:  # noqa: BLE001
                    acc.lib_exception("%s/binary/%s" % (P, rel), e, case)
        if len(acc.samples) < 2:
            acc.sample({"part": "dateinterval", **case0, "intervals": len(ivs), "pairs": len(ivs) ** 2})
    acc.note("classes", sorted("%s/%s/%s" % (cid, k, r) for k, r in classes))
    acc.note("universes", len(unis))
    return acc


# ----------------------------------------------------------------------------------------------- Interval
EPOCH = Instant.from_unix_time_ticks(0)


def ins_ns(i):
    return (i - EPOCH).to_nanoseconds()


def mk_instant(ns):
    return EPOCH.plus_nanoseconds(ns) if ns else EPOCH


def instant_alphabet(tier):
    lo, hi = ins_ns(Instant.min_value), ins_ns(Instant.max_value)
    base = [lo, lo + 1, -1, 0, 1, 10**18, hi - 1, hi]
    if tier == "thorough":
        base += [lo + 100, -86_400 * 10**9, -100, 99, 100, 86_400 * 10**9 - 1, 86_400 * 10**9, hi - 100]
    return sorted(set(base))


def _label(ns, lo, hi):
    if ns is None:
        return "None"
    return {lo: "min", lo + 1: "min+1ns", hi: "max", hi - 1: "max-1ns", 0: "epoch", -1: "epoch-1ns", 1: "epoch+1ns"}.get(ns, "mid")


def w_interval(job):
    tier = job
    acc = Acc()
    alpha = instant_alphabet(tier)
    lo, hi = alpha[0], alpha[-1]
    objs = {ns: mk_instant(ns) for ns in alpha}
    objs[lo], objs[hi] = Instant.min_value, Instant.max_value
    for ns, o in objs.items():
        if ins_ns(o) != ns:
            raise AssertionError("instant alphabet construction broken at %d" % ns)
    ends = [None] + alpha
    built = {}
    classes = set()
    for s in ends:
        for e in ends:
            ls, le = _label(s, lo, hi), _label(e, lo, hi)
            shape = ("unbounded-both" if s is None and e is None else "unbounded-start" if s is None else "unbounded-end" if e is None
                     else "empty" if s == e else "bounded")
            case = {"start_ns": s, "end_ns": e, "shape": shape}
            acc.count(evaluations=1)
            try:
                model = ref.half_open(s, e)
            except ValueError:
                if not _raises(lambda: Interval(None if s is None else objs[s], None if e is None else objs[e])):
                    acc.violation("C18/interval/ctor-accepts-end-before-start/%s>%s" % (ls, le), "Interval(start=%s, end=%s) accepted" % (s, e), case)
                acc.outcome("interval:rejected")
                continue
            try:
                iv = Interval(None if s is None else objs[s], None if e is None else objs[e])
            except Exception as ex:  # noqa: BLE001
                acc.lib_exception("C18/interval/ctor/%s" % shape, ex, case)
                continue
            built[(s, e)] = (iv, model)
            acc.count(states=1)
            acc.outcome("interval:" + shape)
            classes.add((shape, ls, le))
            K = "C18/interval/%%s/%s" % shape
            try:
                acc.count(transitions=6 + len(alpha), evaluations=6 + 2 * len(alpha))
                if iv.has_start != (s is not None) or iv.has_end != (e is not None):
                    acc.violation(K % "has-start-end", "has_start=%r has_end=%r for start=%s end=%s" % (iv.has_start, iv.has_end, ls, le), case)
                for name, bound in (("start", s), ("end", e)):
                    if bound is None:
                        if not _raises(lambda: getattr(iv, name)):
                            acc.violation(K % (name + "-yielded-when-unbounded"), "%s returned a value although the interval is unbounded there" % name, case)
                    else:
                        got = getattr(iv, name)
                        if ins_ns(got) != bound:
                            acc.violation(K % name, "%s is %d ns, constructed with %d" % (name, ins_ns(got), bound), case)
                if s is None or e is None:
                    if not _raises(lambda: iv.duration):
                        acc.violation(K % "duration-yielded-when-unbounded", "duration returned a value for an unbounded interval", case)
                else:
                    dur = iv.duration
                    if not isinstance(dur, Duration) or dur.to_nanoseconds() != e - s:
                        acc.violation(K % "duration", "duration %r, expected %d ns" % (dur, e - s), case)
                parts = tuple(iv)
                exp_parts = (None if s is None else objs[s], None if e is None else objs[e])
                if parts != exp_parts:
                    acc.violation(K % "deconstruct", "iteration gives %r" % (parts,), case)
                for t in alpha:
                    exp = ref.member(model, t)
                    g1, g2 = objs[t] in iv, iv.contains(objs[t])
                    if g1 != exp or g2 != exp:
                        pos = "at-start" if t == s else "at-end" if t == e else "end-1ns" if e is not None and t == e - 1 else "start-1ns" if s is not None and t == s - 1 else ("inside" if exp else "outside")
                        acc.violation(K % ("contains/" + pos), "instant %d ns in [%s, %s) gives %r, model %r" % (t, s, e, g1, exp), dict(case, t=t))
            except Exception as ex:  # noqa: BLE001
                acc.lib_exception("C18/interval/unary/%s" % shape, ex, case)
    keys = sorted(built, key=lambda k: (k[0] is not None, k[0] or 0, k[1] is not None, k[1] or 0))
    for k1 in keys:
        i1, m1 = built[k1]
        for k2 in keys:
            i2, m2 = built[k2]
            acc.count(transitions=1, evaluations=1)
            eq = m1 == m2
            try:
                if (i1 == i2) != eq or (i1 != i2) == eq or i1.equals(i2) != eq or (eq and hash(i1) != hash(i2)):
                    acc.violation("C18/interval/eq/%s" % ("equal" if eq else "different"), "== gives %r for %r and %r" % (i1 == i2, k1, k2), {"a": k1, "b": k2})
            except Exception as ex:  # noqa: BLE001
                acc.lib_exception("C18/interval/eq", ex, {"a": k1, "b": k2})
    acc.count(nontrivial=len(classes))
    acc.sample({"part": "interval", "alphabet_ns": ["None"] + alpha, "constructed": len(built)})
    return acc


# ----------------------------------------------------------------------------------------------- YearMonth
def ym_years(cal, tier, seed):
    lo, hi = cal.min_year, cal.max_year
    mid = (lo + hi) // 2
    if tier == "thorough":
        return list(range(lo, hi + 1)), set(range(mid, min(hi, mid + 40) + 1)) | {lo, lo + 1, hi - 1, hi}
    span = 40
    ys = set(range(lo, min(hi, lo + 2) + 1)) | set(range(max(lo, hi - 2), hi + 1)) | set(range(mid, min(hi, mid + span) + 1))
    # seed: one extra contiguous block of years (never decides the verdict)
    n = hi - lo + 1
    off = lo + (seed * 7919 * span) % max(1, n - span)
    ys |= set(range(off, min(hi, off + span) + 1))
    return sorted(ys), ys


def w_yearmonth(job):
    cid, tier, seed, ylo, yhi = job
    acc = Acc()
    cal = CalendarSystem.for_id(cid)
    lo, hi = dl.cal_range(cal)
    years, full = ym_years(cal, tier, seed)
    shapes = set()
    for y in years:
        if not (ylo <= y < yhi):
            continue
        for m in range(1, cal.get_months_in_year(y) + 1):
            case = {"calendar": cid, "year": y, "month": m}
            acc.count(states=1, transitions=1)
            try:
                iv = YearMonth(year=y, month=m, calendar=cal).to_date_interval()
                sn, en = dl.daynum(iv.start), dl.daynum(iv.end)
                dim = cal.get_days_in_month(y, m)
                shapes.add((dim, m))
                acc.outcome("month-length:%d" % dim)
                K = "C18/yearmonth/%s/%%s/m%02d-len%d" % (cid, m, dim)
                acc.count(evaluations=5)
                if (iv.start.year, iv.start.month, iv.end.year, iv.end.month) != (y, m, y, m) or iv.calendar != cal:
                    acc.violation(K % "wrong-month", "interval %s is not inside %d-%02d" % (_describe(iv), y, m), case)
                if _len(iv) != en - sn + 1 or _len(iv) != dim:
                    acc.violation(K % "len", "len %d, day numbers span %d, get_days_in_month %d" % (_len(iv), en - sn + 1, dim), case)
                if sn > lo:
                    p = dl.from_daynum(sn - 1, cal)
                    if (p.year, p.month) == (y, m):
                        acc.violation(K % "start-not-first-day", "the day before %s is still in the month" % (dl.ymd(iv.start),), case)
                if en < hi:
                    n = dl.from_daynum(en + 1, cal)
                    if (n.year, n.month) == (y, m):
                        acc.violation(K % "end-not-last-day", "the day after %s is still in the month" % (dl.ymd(iv.end),), case)
                if y in full:
                    k = sn
                    acc.count(evaluations=1)
                    for d in iv:
                        if dl.daynum(d) != k or (d.year, d.month) != (y, m):
                            acc.violation(K % "iter", "iteration yields %s at position %d" % (dl.ymd(d), k - sn), case)
                            break
                        k += 1
                    if k != en + 1:
                        acc.violation(K % "iter", "iteration stopped after %d days, month has %d" % (k - sn, en - sn + 1), case)
            except Exception as e:  # noqa: BLE001
                acc.lib_exception("C18/yearmonth/%s" % cid, e, case)
        if len(acc.samples) < 1:
            acc.sample({"part": "yearmonth", "calendar": cid, "year": y, "months": cal.get_months_in_year(y)})
    acc.count(nontrivial=len(shapes))
    return acc


# ----------------------------------------------------------------------------------------------- cross-calendar history
def cross_years(tier):
    return [500, 1400, 1900] if tier == "quick" else [500, 501, 998, 1318, 1400, 1450, 1499, 1900, 1910, 5000]


def _len(x):
    """the raw __len__ value: builtin len() would turn a negative library answer into a ValueError raised in harness code"""
    return x.__len__()


def w_cross(job):
    """ONE process, one history: the same (year, month, day) field values asked in many calendars one after another.
    Every answer is compared with the day-number set model of the calendar it was asked in, so any state the library keeps
    between calls (memo tables, caches keyed without the calendar) shows up as a wrong length / union / membership."""
    tier, order, seed = job
    acc = Acc()
    years = cross_years(tier)
    fields, valid = dl.cross_fields(years)
    per_year = len(fields) // len(years)
    groups = [fields[i * per_year:(i + 1) * per_year] for i in range(len(years))]
    pairs = [(g[i], g[j]) for g in groups for i in range(len(g)) for j in range(i + 1, len(g))]
    group_of = {f: g for g in groups for f in g}
    cids = [cid for cid, _ in dl.calendars()]
    steps = dl.history_orders(pairs, cids, seed)[order]
    prev = None
    shapes = set()
    for k, ((fa, fb), cid) in enumerate(steps):
        a, b = valid[fa].get(cid), valid[fb].get(cid)
        if a is None or b is None:
            continue
        na, nb = dl.daynum(a), dl.daynum(b)
        if na > nb:      # month order differs (Hebrew Scriptural): the interval runs the other way in this calendar
            a, b, na, nb, fa, fb = b, a, nb, na, fb, fa
        acc.count(states=1)
        case = {"kind": "cross", "order": order, "step": k, "calendar": cid, "start": list(fa), "end": list(fb), "previous_step": prev}
        K = "C18/cross-calendar/%%s/%s" % cid
        hint = " (history %s, step %d, previous step %s)" % (order, k, prev)
        shapes.add((cid, nb - na))
        try:
            iv = DateInterval(a, b)
            sa = ref.dset(na, nb)
            ops = [("len", lambda: _len(iv), nb - na + 1), ("days_between", lambda: Period.days_between(a, b), nb - na),
                   ("days_between-reversed", lambda: Period.days_between(b, a), na - nb)]
            if k % 2:
                ops.reverse()          # vary which operation meets the library state first
            for name, fn, exp in ops:
                acc.count(transitions=1, evaluations=1)
                got = fn()
                if got != exp:
                    acc.violation(K % name, "%s of %s..%s in %s gives %r, day numbers say %r%s" % (name, fa, fb, cid, got, exp, hint), case, py=_py_cross(steps[:k + 1], valid, name))
            g = group_of[fa]
            for f in g:
                d = valid[f].get(cid)
                if d is None:
                    continue
                acc.count(transitions=1, evaluations=1)
                exp = na <= dl.daynum(d) <= nb
                if (d in iv) != exp:
                    acc.violation(K % "contains-day", "%s in [%s, %s] (%s) gives %r, model %r%s" % (f, fa, fb, cid, d in iv, exp, hint), case)
            if nb - na < 40:
                acc.count(transitions=1, evaluations=1)
                if [dl.daynum(x) for x in iv] != list(range(na, nb + 1)):
                    acc.violation(K % "iter", "iteration of [%s, %s] in %s does not yield day numbers %d..%d%s" % (fa, fb, cid, na, nb, hint), case)
            for i in (0, 4, 8):
                c, d = valid[g[i]].get(cid), valid[g[i + 2]].get(cid)
                if c is None or d is None:
                    continue
                nc, nd = dl.daynum(c), dl.daynum(d)
                if nc > nd:
                    c, d, nc, nd = d, c, nd, nc
                J = DateInterval(c, d)
                sb = ref.dset(nc, nd)
                acc.count(transitions=4, evaluations=4)
                eu, ei = ref.union(sa, sb), ref.inter(sa, sb)
                gu, gi = iv | J, iv & J
                if (gu is None) != (eu is None) or (gu is not None and (dl.daynum(gu.start), dl.daynum(gu.end), _len(gu)) != (eu[0], eu[1], eu[1] - eu[0] + 1)):
                    acc.violation(K % "or", "union of [%s, %s] and [%s, %s] in %s gives %s, sets say %s%s" % (fa, fb, g[i], g[i + 2], cid, _describe(gu), eu, hint), case)
                if (gi is None) != (ei is None) or (gi is not None and (dl.daynum(gi.start), dl.daynum(gi.end), _len(gi)) != (ei[0], ei[1], ei[1] - ei[0] + 1)):
                    acc.violation(K % "and", "intersection of [%s, %s] and [%s, %s] in %s gives %s, sets say %s%s" % (fa, fb, g[i], g[i + 2], cid, _describe(gi), ei, hint), case)
                if (J in iv) != (sb <= sa) or _len(J) != nd - nc + 1:
                    acc.violation(K % "contains-interval", "[%s, %s] in [%s, %s] (%s) gives %r / len %d, model %r / %d%s" % (g[i], g[i + 2], fa, fb, cid, J in iv, _len(J), sb <= sa, nd - nc + 1, hint), case)
            acc.outcome("cross:%s" % ("span<=31" if nb - na <= 31 else "span<=200" if nb - na <= 200 else "span>200"))
        except Exception as e:  # noqa: BLE001
            acc.lib_exception("C18/cross-calendar/%s" % cid, e, case)
        prev = [list(fa), list(fb), cid]
    acc.sample({"part": "cross-calendar", "order": order, "steps": len(steps), "years": years, "pairs": len(pairs), "head": [[list(p[0]), list(p[1]), c] for p, c in steps[:4]]})
    acc.note("classes", sorted("%s/span%d" % c for c in shapes))
    return acc


def _py_cross(steps, valid, name):
    """standalone history: the last two steps with the same field pair are enough for a state carried between calendars"""
    (fa, fb), cid = steps[-1]
    others = [c for (p, c) in steps[:-1] if p == (fa, fb) and valid[fa].get(c) is not None and valid[fb].get(c) is not None][-3:]
    return ("from pyoda_time import CalendarSystem, DateInterval, LocalDate, Period\n\n\ndef test_replay():\n    fa, fb = %r, %r\n"
            "    for cid in %r:      # the history: same field values, other calendars first\n        cal = CalendarSystem.for_id(cid)\n"
            "        a, b = sorted([LocalDate(*fa, cal), LocalDate(*fb, cal)])\n        n = 0\n        d = a\n        while d != b:\n            d = d.plus_days(1)\n            n += 1\n"
            "        assert len(DateInterval(a, b)) == n + 1, cid\n        assert Period.days_between(a, b) == n, cid\n" % (fa, fb, others + [cid]))


# ----------------------------------------------------------------------------------------------- clone routes
def _obs_interval(iv, objs, alpha):
    o = {}
    o["has_start"] = cr.observe(lambda: iv.has_start)
    o["has_end"] = cr.observe(lambda: iv.has_end)
    o["start"] = cr.observe(lambda: ins_ns(iv.start))
    o["end"] = cr.observe(lambda: ins_ns(iv.end))
    o["duration"] = cr.observe(lambda: iv.duration.to_nanoseconds())
    o["iter"] = cr.observe(lambda: tuple(None if x is None else ins_ns(x) for x in iv))
    o["contains"] = cr.observe(lambda: tuple((objs[t] in iv, iv.contains(objs[t])) for t in alpha))
    o["hash"] = cr.observe(lambda: hash(iv))
    o["repr"] = cr.observe(lambda: repr(iv))
    return o


def _obs_dateinterval(iv, days, partners):
    o = {}
    o["start"] = cr.observe(lambda: dl.ymd(iv.start))
    o["end"] = cr.observe(lambda: dl.ymd(iv.end))
    o["calendar"] = cr.observe(lambda: iv.calendar.id)
    o["len"] = cr.observe(lambda: _len(iv))
    o["iter"] = cr.observe(lambda: [dl.ymd(d) for d in iv])
    o["contains"] = cr.observe(lambda: tuple((d in iv, iv.contains(d)) for d in days))
    o["hash"] = cr.observe(lambda: hash(iv))
    o["repr"] = cr.observe(lambda: repr(iv))
    for i, p in enumerate(partners):
        o["and-%d" % i] = cr.observe(lambda: (_describe(iv & p), _describe(p & iv), _describe(iv.intersection(p))))
        o["or-%d" % i] = cr.observe(lambda: (_describe(iv | p), _describe(p | iv), _describe(iv.union(p))))
        o["contains-interval-%d" % i] = cr.observe(lambda: (p in iv, iv in p, iv == p, p == iv))
    return o


def _compare_clones(acc, kind, shape, orig, obs_fn, case, unsupported):
    """observe the original, then every clone: the observations, == and hash must be those of the original"""
    base = obs_fn(orig)
    acc.count(states=1)
    for route, status, c in cr.clones(orig):
        acc.count(transitions=1, evaluations=len(base) + 2)
        K = "C18/clones/%s/%s/%%s/%s" % (kind, route.split("-")[0] if route.startswith("pickle") else route, shape)
        if status == "unsupported":
            unsupported.add("%s via %s: %s" % (kind, route, str(c)[:60]))
            continue
        if status == "raises":
            acc.violation(K % ("raises-%s" % type(c).__name__), "%s of %s raised %s: %s" % (route, case, type(c).__name__, str(c)[:120]), dict(case, route=route))
            continue
        got = obs_fn(c)
        diff = [k for k in base if got.get(k) != base[k]]
        eq = cr.observe(lambda: (c == orig, orig == c, c != orig, hash(c) == hash(orig)))
        if diff:
            k = diff[0]
            acc.violation(K % k.split("-")[0], "%s clone of %s: %s is %r, the original's is %r (differing observations: %s)" % (route, case, k, got.get(k), base[k], diff[:8]), dict(case, route=route),
                          py=_py_clone(kind, route, case))
        elif eq != (True, True, False, True):
            acc.violation(K % "eq-hash", "%s clone of %s: (clone == orig, orig == clone, clone != orig, hash equal) = %r" % (route, case, eq), dict(case, route=route))
        else:
            acc.outcome("clone:%s:%s" % (kind, route))


def _py_clone(kind, route, case):
    if kind != "Interval":
        return None
    mk = "pickle.loads(pickle.dumps(iv, %s))" % route.split("-")[1] if route.startswith("pickle") else "%s(iv)" % route
    ctor = lambda ns: "None" if ns is None else "Instant.from_unix_time_ticks(0).plus_nanoseconds(%d)" % ns  # noqa: E731
    return ("import copy, pickle\nfrom pyoda_time import Instant, Interval\n\n\ndef test_replay():\n    iv = Interval(%s, %s)\n    c = %s\n    assert c == iv\n"
            "    assert (c.has_start, c.has_end) == (iv.has_start, iv.has_end)\n    assert tuple(c) == tuple(iv)\n" % (ctor(case.get("start_ns")), ctor(case.get("end_ns")), mk))


def w_clones(job):
    what, tier = job
    acc = Acc()
    unsupported = set()
    shapes = set()
    if what == "interval":
        alpha = instant_alphabet(tier)
        lo, hi = alpha[0], alpha[-1]
        objs = {ns: mk_instant(ns) for ns in alpha}
        objs[lo], objs[hi] = Instant.min_value, Instant.max_value
        for s in [None] + alpha:
            for e in [None] + alpha:
                try:
                    ref.half_open(s, e)
                except ValueError:
                    continue
                shape = ("unbounded-both" if s is None and e is None else "unbounded-start" if s is None else "unbounded-end" if e is None else "empty" if s == e else "bounded")
                iv = Interval(None if s is None else objs[s], None if e is None else objs[e])
                shapes.add(("Interval", shape))
                _compare_clones(acc, "Interval", shape, iv, lambda x: _obs_interval(x, objs, alpha), {"kind": "clone", "what": "interval", "start_ns": s, "end_ns": e}, unsupported)
        acc.sample({"part": "clones", "type": "Interval", "routes": list(cr.ROUTES), "alphabet_ns": ["None"] + alpha})
    else:
        cid = what
        cal = CalendarSystem.for_id(cid)
        w, unis = universes(cal, tier)
        for kind, first in unis[:3] if tier == "quick" else unis[:8]:
            days = [dl.from_daynum(first + k, cal) for k in range(w)]
            ivs = {(a, b): DateInterval(days[a], days[b]) for a in range(w) for b in range(a, w)}
            partners = [ivs[k] for k in ((0, 0), (0, 2), (2, 4), (3, 3), (3, w - 1), (0, w - 1))]
            for (a, b), iv in ivs.items():
                shapes.add(("DateInterval", cid, "single" if a == b else "multi"))
                _compare_clones(acc, "DateInterval", cid, iv, lambda x: _obs_dateinterval(x, days, partners),
                                {"kind": "clone", "what": cid, "universe": kind, "first_day_number": first, "a": a, "b": b, "interval": _describe(iv)}, unsupported)
        y = dl.leap_year_near(cal, (cal.min_year + cal.max_year) // 2) or cal.min_year
        for m in range(1, cal.get_months_in_year(y) + 1):
            ym = YearMonth(year=y, month=m, calendar=cal)
            shapes.add(("YearMonth", cid))
            _compare_clones(acc, "YearMonth", cid, ym, lambda x: {"fields": cr.observe(lambda: (x.year, x.month, x.calendar.id)), "interval": cr.observe(lambda: _describe(x.to_date_interval())),
                                                                  "hash": cr.observe(lambda: hash(x)), "plus_months": cr.observe(lambda: (x.plus_months(1).year, x.plus_months(1).month)),
                                                                  "order": cr.observe(lambda: (x < ym, x <= ym, x > ym, x.compare_to(ym)))},
                            {"kind": "clone", "what": cid, "yearmonth": [y, m]}, unsupported)
        if cid in ("ISO", "Badi"):
            acc.sample({"part": "clones", "type": "DateInterval+YearMonth", "calendar": cid, "routes": list(cr.ROUTES), "universes": [u[0] for u in (unis[:3] if tier == "quick" else unis[:8])]})
    acc.note("classes", sorted("/".join(x) for x in shapes))
    acc.note("unsupported", sorted(unsupported))
    return acc


# ----------------------------------------------------------------------------------------------- driver
def run(ctx):
    cals = dl.calendars()
    for t in dl.DEGRADED:
        ctx.degrade(t)
    only = getattr(ctx, "only", None)
    order = list(range(len(cals)))
    order = order[ctx.seed % len(order):] + order[:ctx.seed % len(order)]  # seed rotates visiting order only
    if not only or "dateinterval" in only:
        ns = 3 if ctx.tier == "quick" else 8
        classes, nuni = set(), 0
        for acc in pmap(w_dateinterval, [(cals[i][0], ctx.tier, k, ns) for i in order for k in range(ns)]):
            classes |= set(acc.notes.pop("classes", []))
            nuni += acc.notes.pop("universes", 0)
            ctx.merge_part("dateinterval", acc)
        fin = Acc()
        fin.count(nontrivial=len(classes))   # distinct (calendar, seam kind, relative position) classes, de-duplicated across shards
        fin.note("universes", nuni)
        ctx.merge_part("dateinterval", fin)
    if not only or "interval" in only:
        for acc in pmap(w_interval, [ctx.tier]):
            ctx.merge_part("interval", acc)
    if not only or "yearmonth" in only:
        jobs = []
        for i in order:
            cid, cal = cals[i]
            step = 1 << 30 if ctx.tier == "quick" else 2500
            y = cal.min_year
            while y <= cal.max_year:
                jobs.append((cid, ctx.tier, ctx.seed, y, y + step))
                y += step
        for acc in pmap(w_yearmonth, jobs):
            ctx.merge_part("yearmonth", acc)
    if not only or "cross-calendar" in only:
        classes = set()
        for acc in pmap(w_cross, [(ctx.tier, o, ctx.seed) for o in ("pair-major-forward", "pair-major-reverse", "calendar-major", "interleaved")]):
            classes |= set(acc.notes.pop("classes", []))
            ctx.merge_part("cross-calendar", acc)
        fin = Acc()
        fin.count(nontrivial=len(classes))      # distinct (calendar, span in days) of the shared field pairs
        ctx.merge_part("cross-calendar", fin)
    if not only or "clones" in only:
        classes, unsup = set(), set()
        for acc in pmap(w_clones, [("interval", ctx.tier)] + [(cals[i][0], ctx.tier) for i in order]):
            classes |= set(acc.notes.pop("classes", []))
            unsup |= set(acc.notes.pop("unsupported", []))
            ctx.merge_part("clones", acc)
        fin = Acc()
        fin.count(nontrivial=len(classes))      # distinct (type, shape / calendar) classes cloned
        ctx.merge_part("clones", fin)
        for u in sorted(unsup):
            ctx.degrade("clone route not supported by the type (TypeError), skipped: " + u)
    dl.report_disagreements(ctx, "C18")
    ctx.note("calendars", len(cals))
    ctx.rule = ("clones: every Interval of the instant alphabet, every DateInterval of three universes per calendar and every YearMonth of a leap year per calendar, "
                "each cloned by copy.copy, copy.deepcopy and pickle protocols 2-5; the complete observation set (bounds or refusal, duration, iteration, len, membership, "
                "hash, repr, & | containment with six partner intervals) of the clone must equal the original's; non-trivial = distinct (type, shape / calendar). "
                "cross-calendar: four histories, each inside ONE process: every ordered pair of 11 (year, month, day) field triples per listed year that are valid "
                "in 17-18 calendars at once, asked in every calendar in sequence (pair-major forward / reverse, calendar-major, interleaved) - len, days_between both "
                "ways, membership, iteration, union / intersection / containment - each answer against that calendar's day numbers; non-trivial = distinct (calendar, span). ""dateinterval: per calendar, every window of W consecutive days straddling the range start, the range end and every "
                "month/year seam of a leap year and the next year (W=7 quick, 9 thorough): all W(W+1)/2 intervals and all ordered pairs; "
                "non-trivial = distinct (calendar, seam kind, relative position class) triples, position classes being identical/adjacent/gap1/gap2+/"
                "overlap/nested(+touching) x before/after. interval: all (start,end) over the instant alphabet + None; non-trivial = distinct "
                "(shape, start label, end label). yearmonth: every month of the listed years; non-trivial = distinct (length, month number).")
    ctx.assumptions = ["the day-number <-> date bijection of each calendar (C01/C02) is taken as the axis of the set model",
                       "universe dates are built from day numbers (LocalDate._ctor(days_since_epoch) after a self-check against plus_days/with_calendar)",
                       "'rejects' = raises any exception", "Interval equality is component-wise: a missing start differs from start == Instant.min_value"]
    # exhaustive over the declared finite space (all intervals/pairs of every listed universe); not over all dates
    ctx.exhaustive = True
    ctx.note("exhaustive_scope", "all intervals and ordered pairs of every listed universe; all pairs of the instant alphabet; "
             + ("every month of every year of every calendar" if ctx.tier == "thorough" else "every month of the listed years"))


def replay(rec):
    case = rec.get("case") or {}
    if "case" in case and isinstance(case["case"], dict):
        case = case["case"]
    key = rec.get("key", "")
    if key.startswith("C18/date/"):
        acc = Acc()
        cid = case["calendar"]
        r = w_dateinterval((cid, rec.get("tier", "quick"), 0, 1))
        return key in r.violations
    if key.startswith("C18/interval/"):
        return key in w_interval(rec.get("tier", "quick")).violations
    if key.startswith("C18/clones/"):
        return key in w_clones((case["what"], rec.get("tier", "quick"))).violations
    if key.startswith("C18/cross-calendar/"):
        return key in w_cross((rec.get("tier", "quick"), case["order"], rec.get("seed", 0))).violations
    if key.startswith("C18/yearmonth/"):
        y = case["year"]
        return key in w_yearmonth((case["calendar"], "thorough", 0, y, y + 1)).violations
    return False
