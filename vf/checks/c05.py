"""C05 - local date-times map to exactly the instants whose local rendering is that value.

Sweep over the transitions of every zone (the interval chain walked as in C04).  Around each transition a fixed set of
local values is mapped with the real `map_local` / resolvers / `at_start_of_day` / `ZonedDateTime(local, zone, offset)`
and compared with a brute-force oracle computed from the walked interval list with plain integers:
    expected(L) = sorted { L - o_k : interval k with  start_k <= L - o_k < end_k }.
"""
from __future__ import annotations

from pyoda_time import AmbiguousTimeError, CalendarSystem, Offset, SkippedTimeError, ZonedDateTime
from pyoda_time.time_zones import Resolvers

from vf.core.evidence import Acc, exc_origin
from vf.core.par import pmap
from vf.models import nzdref, tzrules
from vf.models import zonewalk as zw
from vf.models.nzdref import DAY_NS, NS
from vf.models.tzrules import MAX_NS, MIN_NS

LEVEL = "model_checking"
H = 3600 * NS
MARGIN = 19 * H
DELTAS = (-H, -NS, -1, 0, 1, NS, H)
QUICK_TAIL_YEARS = 30
ITEM_CPU_LIMIT = 240        # CPU seconds per work item; a normal item needs < 30
ALIAS_TAIL_YEARS = 3


def _cals():
    out = []
    for name in ("julian", "coptic", "hebrew_civil"):
        try:
            out.append(getattr(CalendarSystem, name))
        except Exception:  # noqa: BLE001
            pass
    return out


def _py_map(zid, L, exp):
    d, nod = divmod(L, DAY_NS)
    y, m, dd = tzrules.civil_from_days(d)
    return ("from pyoda_time import DateTimeZoneProviders, Instant, LocalDate, LocalTime\n\n"
            "def test_replay():\n"
            "    z = DateTimeZoneProviders.tzdb[%r]\n"
            "    ldt = LocalDate(%d, %d, %d) + LocalTime.from_nanoseconds_since_midnight(%d)\n"
            "    m = z.map_local(ldt)\n"
            "    e = Instant.from_unix_time_ticks(0)\n"
            "    got = []\n"
            "    if m.count >= 1: got.append((m.first().to_instant() - e).to_nanoseconds())\n"
            "    if m.count == 2: got.append((m.last().to_instant() - e).to_nanoseconds())\n"
            "    assert (m.count, got) == (%d, %r)  # instants i with i + offset(i) == the local value, from the zone's own intervals\n"
            % (zid, y, m, dd, nod, len(exp), list(exp)))


class _SkipStrict(Exception):
    pass


class _Z:
    """per-zone violation helper.  zid = the key's zone part (a tzdb id, or the CLASS of a synthetic zone); desc/spec identify a
    synthetic zone exactly (text for the message, parameters for the replay)"""

    def __init__(self, acc, zid, desc=None, spec=None):
        self.acc = acc
        self.zid = zid
        self.desc = desc
        self.spec = spec
        self.fired = set()

    def v(self, law, what, py=None, **case):
        if law in self.fired:
            return
        self.fired.add(law)
        c = {"zone": self.zid}
        if self.spec is not None:
            c["synthetic"] = list(self.spec)
            py = None
        c.update(case)
        text = what() if callable(what) else what
        if self.desc:
            text = "[user zone %s] %s" % (self.desc, text)
        self.acc.violation("C05/%s/%s" % (law, self.zid), text, c, py)


# ---- synthetic (user-defined) zones: "for all zones" is not only the tz database --------------------------------

SYN_OFFSETS = (-18 * 3600, -12 * 3600, -(10 * 3600 + 2400), -10 * 3600, -3600, 0, 3600, 1800, 12 * 3600, 14 * 3600, 18 * 3600)
SYN_TODS = (0, 1800, 6 * 3600, 12 * 3600, 20 * 3600, 86399)          # local time of day (old offset) at which the clocks change
SYN_TODS_DOUBLE = (0, 6 * 3600, 86399)
SYN_BASE_DAY = 11109                                                  # 2000-06-01
SYN_BACK_AFTER_DAYS = 40


def _hm(sec):
    sign = "-" if sec < 0 else "+"
    sec = abs(sec)
    return "%s%02d:%02d" % (sign, sec // 3600, sec // 60 % 60) + (":%02d" % (sec % 60) if sec % 60 else "")


def _syn_day(spec):
    return spec[5] if len(spec) > 5 else SYN_BASE_DAY


def syn_desc(spec):
    _, before, after, tod, double = spec[:5]
    return "%s -> %s at local %s on %s%s" % (_hm(before), _hm(after), _hm(tod)[1:], zw.fmt_ns(_syn_day(spec) * DAY_NS)[:10],
                                            (", back %d days later" % SYN_BACK_AFTER_DAYS) if double else "")


def syn_class(spec):
    _, before, after, tod, double = spec[:5]
    d = after - before
    return "synthetic:%s%s:%s%s%s" % ("gap" if d > 0 else "overlap", ">=24h" if abs(d) >= 86400 else "<24h", "at-midnight" if tod == 0 else "not-at-midnight",
                                      ":two-transitions" if double else "", ":whole-day-skip-in-all-calendars" if len(spec) > 5 else "")


def make_synthetic(spec):
    """single transition: pyoda_time.testing's SingleTransitionDateTimeZone; two transitions: a DateTimeZone subclass written here
    through the public base-class constructor and the public ZoneInterval constructor"""
    from pyoda_time import DateTimeZone, Offset
    from pyoda_time.time_zones import ZoneInterval
    _, before, after, tod, double = spec[:5]
    T = _syn_day(spec) * DAY_NS + tod * NS - before * NS
    if not double:
        from pyoda_time.testing.time_zones import SingleTransitionDateTimeZone
        return SingleTransitionDateTimeZone(zw.mk_instant(T), Offset.from_seconds(before), Offset.from_seconds(after), "Syn")
    T2 = T + SYN_BACK_AFTER_DAYS * DAY_NS + (after - before) * NS      # the same local time of day (new offset), 40 days later

    class _ListZone(DateTimeZone):
        def __init__(self, ivs):
            offs = [iv.wall_offset for iv in ivs]
            super().__init__("Syn2", False, min(offs), max(offs))
            self._ivs = ivs
            self._starts = [None if not iv.has_start else zw.ins_ns(iv.start) for iv in ivs]

        def get_zone_interval(self, instant):
            n = zw.ins_ns(instant)
            k = 0
            for i, st in enumerate(self._starts):
                if st is not None and st <= n:
                    k = i
            return self._ivs[k]

    ob, oa, zero = Offset.from_seconds(before), Offset.from_seconds(after), Offset.zero
    return _ListZone([ZoneInterval(name="A", start=None, end=zw.mk_instant(T), wall_offset=ob, savings=zero),
                      ZoneInterval(name="B", start=zw.mk_instant(T), end=zw.mk_instant(T2), wall_offset=oa, savings=zero),
                      ZoneInterval(name="A2", start=zw.mk_instant(T2), end=None, wall_offset=ob, savings=zero)])


def all_calendars():
    from pyoda_time import CalendarSystem as CS
    out = []
    for cid in sorted(CS.ids):
        try:
            out.append(CS.for_id(cid))
        except Exception:  # noqa: BLE001
            pass
    return out


def skip_day_days():
    """days (since 1970-01-01) D for the whole-day-skip zones (-12 -> +12 at local midnight of D, so that D does not exist): the last day of every
    month of a leap and a common Hebrew year in the SCRIPTURAL month numbering (which is not monotonic in time), of ISO 2000, of an Islamic,
    a Persian and a Badi year - taken from the library's own calendars (only to choose where to look)"""
    from pyoda_time import CalendarSystem as CS, LocalDate as LD
    days = set()
    for cal_name, years in (("hebrew_scriptural", (5760, 5761)), ("iso", (2000,)), ("islamic_bcl", (1421,)), ("persian_simple", (1379,)), ("badi", (157,))):
        try:
            cal = getattr(CS, cal_name)
            for y in years:
                for m in range(1, cal.get_months_in_year(y) + 1):
                    dd = LD(y, m, cal.get_days_in_month(y, m), cal).with_calendar(CS.iso)
                    days.add(tzrules.days_from_civil(dd.year, dd.month, dd.day))
        except Exception:  # noqa: BLE001
            continue
    return sorted(days)


def synthetic_specs():
    out = [("syn", -12 * 3600, 12 * 3600, 0, False, d) for d in skip_day_days()]
    for before in SYN_OFFSETS:
        for after in SYN_OFFSETS:
            if after == before:
                continue
            for tod in SYN_TODS:
                out.append(("syn", before, after, tod, False))
            for tod in SYN_TODS_DOUBLE:
                out.append(("syn", before, after, tod, True))
    return out


def chain_is_a_partition(z, L):
    """the C04 chain laws on a walked list (precondition of the brute-force oracle for a user zone)"""
    if not L or L[0][0] is not None or L[-1][1] is not None:
        return "walk does not run from the start to the end of time"
    zmin, zmax = z.min_offset.seconds, z.max_offset.seconds
    for k, t in enumerate(L):
        if k and (t[0] != L[k - 1][1] or (t[2], t[3], t[4]) == (L[k - 1][2], L[k - 1][3], L[k - 1][4])):
            return "intervals %r and %r do not abut or do not differ" % (L[k - 1], t)
        if not (zmin <= t[3] <= zmax):
            return "wall offset outside the advertised min/max in %r" % (t,)
        for q in zw.probe_points(t):
            inst = zw.mk_instant(q)
            if zw.iv_tuple(z.get_zone_interval(inst)) != t or z.get_utc_offset(inst).seconds != t[3]:
                return "point query at %s disagrees with the walk" % zw.fmt_ns(q)
    return None


def expected_instants(idx, L):
    """brute force from the interval list: [(instant, interval index)] sorted by instant"""
    out = []
    T = idx.tuples
    for k in idx.near(L - MARGIN, L + MARGIN):
        t = T[k]
        i = L - t[3] * NS
        if (t[0] is None or t[0] <= i) and (t[1] is None or i < t[1]):
            out.append((i, k))
    out.sort()
    return out


def gap_pair(idx, L):
    """indices (j, j+1) of the two adjacent intervals whose local time lines leave L uncovered between them"""
    T = idx.tuples
    r = idx.near(L - MARGIN, L + MARGIN)
    found = []
    for j in r:
        if j + 1 >= len(T):
            continue
        a, b = T[j], T[j + 1]
        if a[1] is None:
            continue
        if a[1] + a[3] * NS <= L < a[1] + b[3] * NS:
            found.append(j)
    return found


def start_of_day_expected(idx, day):
    """earliest instant whose local date is `day` (days since 1970-01-01), or None; with the wall offset used"""
    d0 = day * DAY_NS
    d1 = d0 + DAY_NS
    best = None
    T = idx.tuples
    for k in idx.near(d0 - MARGIN, d1 + MARGIN):
        t = T[k]
        o = t[3] * NS
        ls = d0 if t[0] is None else max(t[0] + o, d0)
        le = d1 if t[1] is None else min(t[1] + o, d1)
        if ls < le:
            i = ls - o
            if best is None or i < best[0]:
                best = (i, t[3])
    return best


def zdt_instant_ns(zdt):
    return zw.ins_ns(zdt.to_instant())


def check_local(acc, zc, z, idx, L, full, cals=(), zdt_offsets=True, lite=False):
    """one local value L (ns on the local time line) against the oracle"""
    zid = zc.zid
    if not (zw.LOCAL_MIN_NS <= L <= zw.LOCAL_MAX_NS):
        acc.outcome("skipped:local-value-not-representable")
        return
    if not idx.covers(max(MIN_NS, L - MARGIN), min(MAX_NS, L + MARGIN)):
        acc.outcome("skipped:too-close-to-the-end-of-a-walked-window")
        return
    exp_k = expected_instants(idx, L)
    exp = [i for i, _ in exp_k]
    if any(not (MIN_NS <= i <= MAX_NS) for i in exp):
        _edge(acc, zc, z, L)
        return
    acc.count(states=1)
    try:
        ldt = zw.ldt_from_local_ns(L)
        m = z.map_local(ldt)
        acc.count(evaluations=1, transitions=1)
        cnt = m.count
        got = []
        if cnt >= 1:
            got.append(zdt_instant_ns(m.first()))
        if cnt == 2:
            got.append(zdt_instant_ns(m.last()))
        if cnt == 1:
            got_last = zdt_instant_ns(m.last())
            if got_last != got[0]:
                zc.v("map/first-last", "map_local(%s): count 1 but first() and last() differ" % zw.fmt_ns(L), local_ns=L)
        acc.outcome("count-%d" % cnt)
        if cnt != len(exp):
            zc.v("map/count", lambda: "map_local(local %s) reports %d result(s); the zone's own intervals render that local value at %d instant(s): %s" % (
                zw.fmt_ns(L)[:-1], cnt, len(exp), [zw.fmt_ns(i) for i in exp]), py=_py_map(zid, L, exp), local_ns=L, expected=exp, got=got)
            return
        if got != exp:
            zc.v("map/instants", lambda: "map_local(local %s) gives instants %s, expected %s (earlier first)" % (
                zw.fmt_ns(L)[:-1], [zw.fmt_ns(i) for i in got], [zw.fmt_ns(i) for i in exp]), py=_py_map(zid, L, exp), local_ns=L, expected=exp, got=got)
            return
        T = idx.tuples
        before = after = None
        if cnt == 0:
            gp = gap_pair(idx, L)
            e_iv, l_iv = zw.iv_tuple(m.early_interval), zw.iv_tuple(m.late_interval)
            if len(gp) == 1:
                before, after = T[gp[0]], T[gp[0] + 1]
                if (e_iv, l_iv) != (before, after):
                    zc.v("map/gap-intervals", lambda: "map_local(local %s) is skipped; early/late intervals are %s / %s, the gap lies between %s and %s" % (
                        zw.fmt_ns(L)[:-1], zw.fmt_iv(e_iv), zw.fmt_iv(l_iv), zw.fmt_iv(before), zw.fmt_iv(after)), local_ns=L)
            else:
                acc.outcome("gap-pair-not-unique")
        # every result renders as the local value (the converse direction of the oracle, through the public accessors)
        for zdt_f in ((m.first, m.last) if cnt and not lite else ()):
            zdt = zdt_f()
            if zw.ldt_local_ns(zdt.local_date_time) != L:
                zc.v("map/renders", "a result of map_local(local %s) does not render as that local value" % zw.fmt_ns(L)[:-1], local_ns=L)
        # ---- resolvers
        acc.count(evaluations=1 if lite else 2, transitions=1 if lite else 2)
        # strict (skipped for the reduced local set of the thorough tier's far-tail years: raising costs ~1 ms of message formatting)
        try:
            if lite:
                raise _SkipStrict()
            r = z.at_strictly(ldt) if full else Resolvers.strict_resolver(m)
            if cnt != 1:
                zc.v("strict/no-raise", "strict resolution of local %s (count %d) returned instead of raising" % (zw.fmt_ns(L)[:-1], cnt), local_ns=L)
            elif zdt_instant_ns(r) != exp[0]:
                zc.v("strict/instant", "strict resolution of local %s gives %s, expected %s" % (zw.fmt_ns(L)[:-1], zw.fmt_ns(zdt_instant_ns(r)), zw.fmt_ns(exp[0])), local_ns=L)
        except SkippedTimeError:
            if cnt != 0:
                zc.v("strict/raise", "strict resolution of local %s (count %d) raised SkippedTimeError" % (zw.fmt_ns(L)[:-1], cnt), local_ns=L)
        except AmbiguousTimeError:
            if cnt != 2:
                zc.v("strict/raise", "strict resolution of local %s (count %d) raised AmbiguousTimeError" % (zw.fmt_ns(L)[:-1], cnt), local_ns=L)
        except _SkipStrict:
            pass
        # lenient
        r = z.at_leniently(ldt) if full else Resolvers.lenient_resolver(m)
        if cnt >= 1:
            want = exp[0]
            want_off = T[exp_k[0][1]][3]
        elif before is not None:
            want = L - before[3] * NS            # shifted forward by the gap: same instant as if the old offset had continued
            want_off = after[3]
        else:
            want = None
        if want is not None:
            gi = zdt_instant_ns(r)
            if gi != want or r.offset.seconds != want_off:
                zc.v("lenient/" + ("skipped" if cnt == 0 else "ambiguous" if cnt == 2 else "single"),
                     lambda: "lenient resolution of local %s (count %d) gives %s at offset %+ds, expected %s at %+ds" % (
                         zw.fmt_ns(L)[:-1], cnt, zw.fmt_ns(gi), r.offset.seconds, zw.fmt_ns(want), want_off), local_ns=L, expected=want, got=gi)
            elif cnt == 0 and zw.ldt_local_ns(r.local_date_time) != L + (after[3] - before[3]) * NS:
                zc.v("lenient/skipped-local", "lenient result for skipped local %s is not that value shifted forward by the gap" % zw.fmt_ns(L)[:-1], local_ns=L)
            elif cnt == 0:
                # the result's local value must be a proper local date-time: the one its own instant renders as in the zone
                shown = r.local_date_time
                rendered = r.to_instant().in_zone(z).local_date_time
                model = zw.ldt_from_local_ns(L + (after[3] - before[3]) * NS)
                acc.count(evaluations=1, transitions=1)
                if not (shown == rendered == model) or shown.hour > 23:
                    zc.v("lenient/skipped-local-value", lambda: "lenient result for skipped local %s shows local value %s (hour %d); its own instant %s renders in the zone as %s" % (
                        zw.fmt_ns(L)[:-1], shown, shown.hour, zw.fmt_ns(gi), rendered), local_ns=L)
        if full:
            # the same through LocalDateTime / resolve_local / single()
            acc.count(evaluations=4, transitions=4)
            r2 = ldt.in_zone_leniently(z)
            r3 = z.resolve_local(ldt, Resolvers.lenient_resolver)
            r4 = ldt.in_zone(z, Resolvers.lenient_resolver)
            if not (zdt_instant_ns(r2) == zdt_instant_ns(r3) == zdt_instant_ns(r4) == zdt_instant_ns(r)) or not (
                    r2.local_date_time == r3.local_date_time == r4.local_date_time == r.local_date_time):
                zc.v("lenient/entry-points", "in_zone_leniently / resolve_local / in_zone disagree with at_leniently for local %s" % zw.fmt_ns(L)[:-1], local_ns=L)
            for f, nm in ((lambda: ldt.in_zone_strictly(z), "in_zone_strictly"), (m.single, "single")):
                try:
                    r5 = f()
                    if cnt != 1 or zdt_instant_ns(r5) != exp[0]:
                        zc.v("strict/" + nm, "%s for local %s (count %d) returned %s" % (nm, zw.fmt_ns(L)[:-1], cnt, zw.fmt_ns(zdt_instant_ns(r5))), local_ns=L)
                except SkippedTimeError:
                    if cnt != 0:
                        zc.v("strict/" + nm, "%s for local %s (count %d) raised SkippedTimeError" % (nm, zw.fmt_ns(L)[:-1], cnt), local_ns=L)
                except AmbiguousTimeError:
                    if cnt != 2:
                        zc.v("strict/" + nm, "%s for local %s (count %d) raised AmbiguousTimeError" % (nm, zw.fmt_ns(L)[:-1], cnt), local_ns=L)
            # ---- ZonedDateTime(local, zone, offset) accepted iff the offset is the zone's at that instant
            offs = []
            for k in idx.near(L - MARGIN, L + MARGIN):
                if T[k][3] not in offs:
                    offs.append(T[k][3])
            cands = list(offs[:3])
            if offs and offs[0] + 1 not in offs and offs[0] + 1 <= 64800:
                cands.append(offs[0] + 1)          # one second off the offset in force
            for cand in (cands if zdt_offsets else ()):
                    i = L - cand * NS
                    if not (MIN_NS <= i <= MAX_NS):
                        continue
                    valid = T[idx.at(i)][3] == cand
                    acc.count(evaluations=1, transitions=1)
                    try:
                        zz = ZonedDateTime(local_date_time=ldt, zone=z, offset=Offset.from_seconds(cand))
                        if not valid:
                            zc.v("zdt-offset/accepted", "ZonedDateTime(local %s, offset %+ds) accepted although the zone's offset at %s is %+ds" % (
                                zw.fmt_ns(L)[:-1], cand, zw.fmt_ns(i), T[idx.at(i)][3]), local_ns=L, offset=cand)
                        elif zdt_instant_ns(zz) != i or zz.offset.seconds != cand:
                            zc.v("zdt-offset/value", "ZonedDateTime(local %s, offset %+ds) denotes %s" % (zw.fmt_ns(L)[:-1], cand, zw.fmt_ns(zdt_instant_ns(zz))), local_ns=L, offset=cand)
                        acc.outcome("zdt-offset:accepted")
                    except Exception as ex:  # noqa: BLE001
                        if exc_origin(ex) == "harness":
                            raise
                        if valid:
                            zc.v("zdt-offset/rejected", "ZonedDateTime(local %s, offset %+ds) rejected (%s) although the zone's offset at %s is that offset" % (
                                zw.fmt_ns(L)[:-1], cand, type(ex).__name__, zw.fmt_ns(i)), local_ns=L, offset=cand)
                        acc.outcome("zdt-offset:rejected")
            # ---- the same local value expressed in other calendars
            for cal in cals:
                try:
                    lc = ldt.with_calendar(cal)
                except Exception:  # noqa: BLE001
                    acc.outcome("calendar-out-of-range:" + cal.id)
                    continue
                mc = z.map_local(lc)
                acc.count(evaluations=1, transitions=1)
                gc = []
                if mc.count >= 1:
                    f = mc.first()
                    gc.append(zdt_instant_ns(f))
                    if f.calendar.id != cal.id or f.local_date_time != lc:
                        zc.v("calendar/value/" + cal.id, "map_local of a %s local value returns a result in another calendar or with another local value" % cal.id, local_ns=L)
                if mc.count == 2:
                    gc.append(zdt_instant_ns(mc.last()))
                if mc.count != cnt or gc != exp:
                    zc.v("calendar/" + cal.id, "map_local(local %s expressed in %s) gives %d result(s) %s, in ISO %d %s" % (
                        zw.fmt_ns(L)[:-1], cal.id, mc.count, gc, cnt, exp), local_ns=L, calendar=cal.id)
                rl = z.at_leniently(lc)
                acc.count(evaluations=1, transitions=1)
                if want is not None and (zdt_instant_ns(rl) != want or rl.calendar.id != cal.id):
                    zc.v("calendar/lenient/" + cal.id, "at_leniently of a %s local value gives another instant or calendar than in ISO" % cal.id, local_ns=L, calendar=cal.id)
    except Exception as ex:  # noqa: BLE001
        acc.lib_exception("C05/local/%s" % zid, ex, {"zone": zid, "local_ns": L, "local": zw.fmt_ns(L)[:-1], "synthetic": zc.spec and list(zc.spec)})


def _edge(acc, zc, z, L):
    """local values whose instant would lie outside the range of Instant: only 'map_local returns' is demanded"""
    try:
        m = z.map_local(zw.ldt_from_local_ns(L))
        acc.count(evaluations=1, transitions=1, states=1)
        acc.outcome("edge-of-time:count-%d-instant-not-representable" % m.count)
    except Exception as ex:  # noqa: BLE001
        acc.lib_exception("C05/edge/%s" % zc.zid, ex, {"zone": zc.zid, "local_ns": L, "synthetic": zc.spec and list(zc.spec)})


def _sod(d0, cal, route):
    return "%s%s%s" % (zw.fmt_ns(d0)[:10], "" if cal is None else " as a %s date" % cal.id, "" if route == "zone" else ", via LocalDate.at_start_of_day_in_zone")


def check_start_of_day(acc, zc, z, idx, day, cals=(), routes=("zone",)):
    """at_start_of_day for one local date (days since 1970-01-01), in ISO and in each calendar of `cals`, through DateTimeZone.at_start_of_day
    and (routes) LocalDate.at_start_of_day_in_zone: the earliest instant carrying that local date, or a raise when there is none"""
    d0 = day * DAY_NS
    if not (zw.LOCAL_MIN_NS <= d0 and d0 + DAY_NS - 1 <= zw.LOCAL_MAX_NS):
        return
    if not idx.covers(max(MIN_NS, d0 - MARGIN), min(MAX_NS, d0 + DAY_NS + MARGIN)):
        acc.outcome("skipped:too-close-to-the-end-of-a-walked-window")
        return
    exp = start_of_day_expected(idx, day)
    if exp is not None and not (MIN_NS <= exp[0] <= MAX_NS):
        return
    date = zw.local_date_from_days(day)
    for cal in (None,) + tuple(cals):
        try:
            d = date if cal is None else date.with_calendar(cal)
        except Exception:  # noqa: BLE001
            acc.outcome("calendar-out-of-range:" + cal.id)
            continue
        for route in routes:
            acc.count(states=1, evaluations=1, transitions=1)
            try:
                r = z.at_start_of_day(d) if route == "zone" else d.at_start_of_day_in_zone(z)
            except Exception as ex:  # noqa: BLE001
                if exc_origin(ex) == "harness":
                    raise
                acc.outcome("start-of-day:raises-" + type(ex).__name__)
                if exp is not None:
                    zc.v("start-of-day/raises", "at_start_of_day(%s) raised %s; earliest instant with that local date is %s" % (
                        _sod(d0, cal, route), type(ex).__name__, zw.fmt_ns(exp[0])), day=day, calendar=cal and cal.id)
                elif not isinstance(ex, SkippedTimeError):
                    acc.outcome("start-of-day:skipped-day-raises-" + type(ex).__name__)
                continue
            gi = zdt_instant_ns(r)
            acc.outcome("start-of-day:" + ("midnight" if exp and gi + exp[1] * NS == d0 else "later-than-midnight"))
            if exp is None:
                zc.v("start-of-day/no-raise", "at_start_of_day(%s) returned %s although no instant has that local date" % (_sod(d0, cal, route), zw.fmt_ns(gi)),
                     day=day, calendar=cal and cal.id)
            elif gi != exp[0] or r.offset.seconds != exp[1]:
                zc.v("start-of-day/instant", "at_start_of_day(%s) gives %s (offset %+ds), the earliest instant with that local date is %s (offset %+ds)" % (
                    _sod(d0, cal, route), zw.fmt_ns(gi), r.offset.seconds, zw.fmt_ns(exp[0]), exp[1]), day=day, expected=exp[0], got=gi, calendar=cal and cal.id)
            elif r.date != d or (cal is not None and r.calendar.id != cal.id):
                zc.v("start-of-day/date", "at_start_of_day(%s) returns a value with another date or calendar" % _sod(d0, cal, route), day=day, calendar=cal and cal.id)


def check_round_trip(acc, zc, z, t, k, cals):
    """every probe instant of an interval, rendered in the zone and mapped back, recovers that instant"""
    for j, p in enumerate(zw.probe_points(t)):
        inst = zw.mk_instant(p)
        lp = p + t[3] * NS
        if not (zw.LOCAL_MIN_NS <= lp <= zw.LOCAL_MAX_NS):
            acc.outcome("skipped:local-value-not-representable")
            continue
        acc.count(states=1, evaluations=2, transitions=2)
        try:
            zdt = inst.in_zone(z)
            if zdt.offset.seconds != t[3] or zdt_instant_ns(zdt) != p or zw.ldt_local_ns(zdt.local_date_time) != lp:
                zc.v("round-trip/render", "instant %s in zone: offset %+ds local %s; its interval %s" % (
                    zw.fmt_ns(p), zdt.offset.seconds, zdt.local_date_time, zw.fmt_iv(t)), instant_ns=p)
                continue
            ldt = zdt.local_date_time
            m = z.map_local(ldt)
            back = []
            if m.count >= 1:
                back.append(zdt_instant_ns(m.first()))
            if m.count == 2:
                back.append(zdt_instant_ns(m.last()))
            acc.outcome("round-trip:count-%d" % m.count)
            if p not in back:
                zc.v("round-trip/map-back", "instant %s renders as local %s, which maps back to %s" % (zw.fmt_ns(p), zw.fmt_ns(lp)[:-1], [zw.fmt_ns(b) for b in back]),
                     instant_ns=p, py=None)
            if cals and (k + j) % 4 == 0:
                cal = cals[(k + j) // 4 % len(cals)]
                try:
                    zc2 = inst.in_zone(z, cal)
                except Exception:  # noqa: BLE001
                    acc.outcome("calendar-out-of-range:" + cal.id)
                    continue
                acc.count(evaluations=2, transitions=2)
                m2 = z.map_local(zc2.local_date_time)
                b2 = [zdt_instant_ns(m2.first())] if m2.count else []
                if m2.count == 2:
                    b2.append(zdt_instant_ns(m2.last()))
                if zc2.calendar.id != cal.id or zdt_instant_ns(zc2) != p or p not in b2:
                    zc.v("round-trip/calendar/" + cal.id, "instant %s rendered in %s does not map back to itself" % (zw.fmt_ns(p), cal.id), instant_ns=p)
        except Exception as ex:  # noqa: BLE001
            acc.lib_exception("C05/round-trip/%s" % zc.zid, ex, {"zone": zc.zid, "instant_ns": p, "synthetic": zc.spec and list(zc.spec)})


def locals_around(T, o1, o2, lite):
    """the local values examined around a transition at instant T from wall offset o1 to o2 (seconds)"""
    a, b = T + o1 * NS, T + o2 * NS
    mid = T + (o1 + o2) * NS // 2
    if lite:
        return [(a - 1, False), (a, False), (b - 1, False), (b, False), (mid, False)]
    core = {a - 1: 2, a: 1, b - 1: 1, b: 2, mid: 2}     # 2 = also ZonedDateTime(local, zone, offset)
    out = []
    seen = set()
    for base in (a, b):
        for d in DELTAS:
            if base + d not in seen:
                seen.add(base + d)
                out.append(base + d)
    if mid not in seen:
        seen.add(mid)
        out.append(mid)
    day0 = T // DAY_NS
    for d in range(day0 - 1, day0 + 3):
        for e in (-1, 0, 1):
            v = d * DAY_NS + e
            if v not in seen:
                seen.add(v)
                out.append(v)
    return [(v, core.get(v, 0)) for v in out]


def _zone_item(item):
    acc = Acc()
    if zw.too_many_hangs(acc):
        return acc
    try:
        with zw.cpu_limit(ITEM_CPU_LIMIT):
            return _zone_item_body(item, acc)
    except zw.Hang as h:
        zw.hang_violation(acc, "C05", item[0], h)
        return acc


def _zone_item_body(item, acc):
    zid, windows = item
    if isinstance(zid, (tuple, list)):
        # a work item of synthetic zones: each is examined like a tzdb zone, over the whole timeline
        for spec in zid:
            if spec[0] == "syn":
                _examine(acc, _Z(acc, syn_class(spec), syn_desc(spec), spec), spec, windows)
            else:
                _examine_user(acc, spec)
        return acc
    return _examine(acc, _Z(acc, zid), zid, windows)


def check_points_vs_reference(acc, zc, z, idx, lo, hi):
    """get_zone_interval / get_utc_offset at every transition edge -1h, -1ns, 0, +1ns, +1h and at the probe points of every interval,
    against the reference list"""
    L = idx.tuples
    pts = set()
    for t in L:
        for q in zw.probe_points(t):
            pts.add(q)
        if t[0] is not None:
            for d in (-H, -1, 0, 1, H):
                pts.add(t[0] + d)
    for q in sorted(pts):
        if not (lo <= q <= hi and MIN_NS <= q <= MAX_NS) or not idx.covers(q, q):
            continue
        want = L[idx.at(q)]
        inst = zw.mk_instant(q)
        acc.count(evaluations=2, transitions=2)
        try:
            got = zw.iv_tuple(z.get_zone_interval(inst))
            off = z.get_utc_offset(inst).seconds
        except Exception as ex:  # noqa: BLE001
            acc.lib_exception("C05/interval-chain/%s" % zc.zid, ex, {"zone": zc.zid, "instant_ns": q, "synthetic": zc.spec and list(zc.spec)})
            return
        if got != want or off != want[3]:
            zc.v("interval-chain", lambda: "get_zone_interval(%s) = %s (get_utc_offset %+ds); the zone was built with %s there" % (
                zw.fmt_ns(q), zw.fmt_iv(got), off, zw.fmt_iv(want)), instant_ns=q)
            return


def _sweep(acc, zc, z, L, idx, lo, hi, lite, cals):
    """the complete law set over one interval list; returns the number of transitions examined"""
    n = 0
    for k in range(len(L)):
        t = L[k]
        if not lite or k % 8 == 0:
            check_round_trip(acc, zc, z, t, k, () if lite else cals)
        if k == 0 or t[0] is None or not (lo <= t[0] <= hi):
            continue
        p = L[k - 1]
        if t[0] != p[1]:
            continue        # broken chain: C04's finding, not ours
        n += 1
        T, o1, o2 = t[0], p[3], t[3]
        acc.outcome("transition:" + ("gap" if o2 > o1 else "overlap" if o2 < o1 else "no-offset-change") + (":%dh+" % (abs(o2 - o1) // 3600) if abs(o2 - o1) >= 7200 else ""))
        for (v, core) in locals_around(T, o1, o2, lite):
            check_local(acc, zc, z, idx, v, full=bool(core) and not lite, cals=cals if core and not lite else (), zdt_offsets=core == 2, lite=lite)
        if not lite:
            day0 = T // DAY_NS
            dloc = (T + o2 * NS) // DAY_NS
            for d in range(day0 - 1, day0 + 3):
                check_start_of_day(acc, zc, z, idx, d, cals if d == dloc else (), routes=("zone", "date") if (d == dloc or zc.spec is not None) else ("zone",))
    if lo == MIN_NS:
        idx_all = idx
        for v in (zw.LOCAL_MIN_NS, zw.LOCAL_MIN_NS + 1, zw.LOCAL_MIN_NS + 18 * H, zw.LOCAL_MIN_NS + 18 * H + 1):
            check_local(acc, zc, z, idx_all, v, full=True, cals=())
        check_start_of_day(acc, zc, z, idx, zw.LOCAL_MIN_NS // DAY_NS + 1)
    if hi == MAX_NS:
        for v in (zw.LOCAL_MAX_NS, zw.LOCAL_MAX_NS - 1, zw.LOCAL_MAX_NS - 18 * H, zw.LOCAL_MAX_NS - 18 * H - 1):
            check_local(acc, zc, z, idx, v, full=True, cals=())
        check_start_of_day(acc, zc, z, idx, zw.LOCAL_MAX_NS // DAY_NS - 1)
        check_start_of_day(acc, zc, z, idx, zw.LOCAL_MAX_NS // DAY_NS)
    return n


def _examine_user(acc, spec):
    """a user zone with a known reference, uncached and inside the caching wrapper: the reference list (not the zone's own walk) is the oracle,
    so the wrapper is checked differentially against the zone it wraps"""
    raw, cached, problems = zw.build_user_zone(spec)
    for pr in problems:
        acc.degrade("user zones: " + pr)
    ref = zw.user_zone_ref(spec)
    label = zw.user_zone_label(spec)
    for z, how in ((raw, "uncached"), (cached, "cached")):
        if z is None:
            continue
        zc = _Z(acc, "%s:%s" % (label, how), None, tuple(spec) + (how,))
        acc.outcome("user-zone:%s:%s" % ("interval-list" if spec[0] == "packed" else "stored-periods+rules", how))
        _examine(acc, zc, z, [(lo, hi, False) for lo, hi in zw.user_zone_windows(spec)], refzone=ref)


def _examine(acc, zc, zone_ref, windows, refzone=None):
    zid = zc.zid
    cals = _cals()
    try:
        z = zone_ref if refzone is not None else make_synthetic(zone_ref) if zc.spec is not None else zw.provider("bundled")[zid]
    except ImportError:
        acc.degrade("pyoda_time.testing.time_zones.SingleTransitionDateTimeZone not importable: single-transition user zones skipped")
        return acc
    except Exception as ex:  # noqa: BLE001
        acc.lib_exception("C05/lookup/%s" % zid, ex, {"zone": zid, "synthetic": zc.spec and list(zc.spec)})
        return acc
    ntr = 0
    for (lo, hi, lite) in windows:
        if refzone is not None:
            # oracle list from the reference description; the zone itself is only cross-examined against it
            L = tzrules.expected_intervals(refzone, lo, hi)
            idx = zw.Index(L)
            check_points_vs_reference(acc, zc, z, idx, lo, hi)
            ntr += _sweep(acc, zc, z, L, idx, lo, hi, lite, cals)
            continue
        w = zw.walk(z, lo, hi)
        if w.error:
            if w.error[0] == "exception" and exc_origin(w.error[2]) == "harness":
                raise w.error[2]
            acc.violation("C05/walk/%s" % zid, "the zone cannot be walked (%s at %s) - see C04" % (w.error[0], zw.fmt_ns(w.error[1])), {"zone": zid, "instant_ns": w.error[1]})
            if len(w.tuples) < 2:
                continue
        L = w.tuples
        if zc.spec is not None:
            acc.count(evaluations=8 * len(L), transitions=8 * len(L))
            why = None if w.error else chain_is_a_partition(z, L)
            if why or len(L) != (3 if zc.spec[4] else 2):
                # not this property's claim (C04's laws, on a zone C04 does not quantify over): recorded, and the zone is skipped
                acc.cap("user zone [%s] is not the partition it was built as (%s): skipped" % (zc.desc, why or "%d intervals" % len(L)))
                acc.outcome("synthetic-zone-not-a-partition")
                continue
            acc.outcome(zid)
        idx = zw.Index(L)
        ntr += _sweep(acc, zc, z, L, idx, lo, hi, lite, cals)
        if zc.spec is not None and zc.spec[0] == "syn":
            for k in range(1, len(L)):
                T, o1, o2 = L[k][0], L[k - 1][3], L[k][3]
                if o2 - o1 >= 86400:
                    # a gap of a day or more: every skipped local value on a 10-minute grid, through all resolvers and entry points
                    v = T + o1 * NS
                    while v < T + o2 * NS:
                        check_local(acc, zc, z, idx, v, full=True, cals=(), zdt_offsets=False)
                        v += 600 * NS
                    acc.outcome("gap>=24h swept at 10-minute steps")
            if len(zc.spec) > 5:
                # the date in every calendar the library offers, through both entry points
                allc = all_calendars()
                for d in range(zc.spec[5] - 1, zc.spec[5] + 3):
                    check_start_of_day(acc, zc, z, idx, d, allc, routes=("zone", "date"))
                acc.outcome("whole-day skip examined in %d calendars" % len(allc))
    acc.count(nontrivial=ntr)
    if zid in ("Pacific/Apia", "Australia/Lord_Howe", "America/St_Johns", "Pacific/Kwajalein") and windows[0][0] == MIN_NS:
        acc.sample({"zone": zid, "transitions_examined": ntr, "windows": [(zw.fmt_ns(a), zw.fmt_ns(b), "reduced local set" if c else "full local set") for a, b, c in windows]})
    return acc


def build_items(tier, seed):
    _, f = zw.decoded("bundled")
    cmap = nzdref.canonical_map(f)
    items = []
    for zid in nzdref.all_ids(f):
        rz = f["zones"].get(cmap[zid])
        alias = cmap[zid] != zid
        if alias:
            if tier == "quick":
                continue
            wins = [(a, b, False) for a, b in zw.plan(rz, "cycle", cycle_years=ALIAS_TAIL_YEARS)]
            items.append((zid, wins))
            continue
        if tier == "quick":
            wins = [(a, b, False) for a, b in zw.plan(rz, "cycle", cycle_years=QUICK_TAIL_YEARS)]
            if len(wins) == 2:
                # VERIF_SEED positions one extra contiguous block of 6 tail years (full local set); the verdict does not depend on it
                y0 = tzrules.year_of_ns(wins[0][1])
                span = zw.FINAL_FROM_YEAR - 8 - y0
                y = y0 + ((seed + 3) * 977) % span
                wins = [wins[0], (zw.year_start_ns(y), zw.year_start_ns(y + 6), False), wins[1]]
            items.append((zid, wins))
        else:
            full = zw.plan(rz, "full", chunk_years=1200)
            # first window = stored periods + 400 tail years: full local set; later windows: reduced set, except the final years
            for i, (a, b) in enumerate(full):
                if i == 0:
                    items.append((zid, [(a, b, False)]))
                elif b == MAX_NS:
                    cut = zw.year_start_ns(zw.FINAL_FROM_YEAR)
                    if a < cut:
                        items.append((zid, [(a, cut, True)]))
                        items.append((zid, [(cut, b, False)]))
                    else:
                        items.append((zid, [(a, b, False)]))
                else:
                    items.append((zid, [(a, b, True)]))
    est = lambda it: sum(((hi - lo) // (366 * DAY_NS) if lo > MIN_NS else 300) * (1 if lite else 6) for lo, hi, lite in it[1])  # noqa: E731
    items.sort(key=lambda it: (-est(it), it[0], it[1][0][0]))
    # user-defined zones (both tiers, complete grid): 48 work items
    specs = synthetic_specs()
    n = 48
    syn = [(tuple(specs[i::n]), [(MIN_NS, MAX_NS, False)]) for i in range(n)]
    # user zones with a reference description (packed transitions in one cache period; stored periods + rules with a clamped join),
    # each uncached and inside the caching wrapper
    us = zw.user_zone_specs()
    usr = [(tuple(us[i::12]), [(MIN_NS, MAX_NS, False)]) for i in range(12)]
    return syn + usr + items


def run(ctx):
    tier = ctx.tier
    ctx.rule = ("states = (zone, local value) cases mapped; non-trivial = transitions examined (each with up to 27 local values: both local images of the "
                "transition +-{1h,1s,1ns,0}, the middle of the gap/overlap, local midnights of the four surrounding days +-1ns), plus start-of-day for the "
                "four surrounding dates, ZonedDateTime(local, zone, offset) for the neighbouring offsets, three non-ISO calendars for the core values, and "
                "render-and-map-back of four probe instants per interval")
    ctx.assumptions = ["user zones with a reference description (vf/models/zonewalk.user_zone_specs): interval-list zones with 1..6 toggling transitions %s days apart "
                       "inside one 32-day cache period or straddling its boundary, and stored-periods+yearly-rules zones (library _PrecalculatedDateTimeZone) whose "
                       "first rule interval at the join starts before the join; each examined uncached and inside _CachedDateTimeZone._for_zone with the full law "
                       "set, get_zone_interval/get_utc_offset at every edge -1h/-1ns/0/+1ns/+1h and probe point - oracle = tzrules over the description" % (list(zw.PACK_SPACING_DAYS),),
                       "user-defined zones: %d single-transition zones (pyoda_time.testing SingleTransitionDateTimeZone) and %d two-transition zones (a DateTimeZone "
                       "subclass built through the public constructors) over offsets before/after in %s s x local time of day of the change in %s s, examined with the "
                       "same law set over the whole timeline after the C04 chain laws have been confirmed on them" % (
                           sum(1 for x in synthetic_specs() if not x[4]), sum(1 for x in synthetic_specs() if x[4]), list(SYN_OFFSETS), list(SYN_TODS)),
                       "oracle = brute force over the zone's own interval list (walked as in C04, whose correctness C04/C06 establish)",
                       "offsets lie within +-18h, so intervals further than 19h from a local value cannot render it",
                       "local values whose instant would fall outside the range of Instant are only required not to make map_local raise",
                       "quick: canonical zones; stored periods + %d tail years + one seed-positioned block of 6 years + 9997..9999; aliases (same bytes) in the thorough tier only" % QUICK_TAIL_YEARS,
                       "thorough: canonical zones to the end of time - full local set for stored periods + 400 tail years + 9997..9999; for the years in between a "
                       "reduced set (5 values per transition: map_local count/instants/gap intervals and the lenient resolver; render-and-map-back for every 8th interval)"]
    for d in zw.DEGRADED:
        ctx.degrade(d)
    items = build_items(tier, ctx.seed)
    if ctx.seed and items:
        r = ctx.seed % len(items)
        items = items[r:] + items[:r]
    for it, a in zip(items, pmap(_zone_item, items)):
        ctx.merge_part("zones" if isinstance(it[0], str) else "user-zones", a)
    ctx.note("work_items", len(items))
    ctx.note("tzdb_zone_ids", len({it[0] for it in items if isinstance(it[0], str)}))
    ctx.note("synthetic_user_zones", len(synthetic_specs()))
    ctx.note("user_zones_with_reference", len(zw.user_zone_specs()))
    if tier == "quick":
        ctx.cap("quick tier: recurring tails examined for %d years after their start + 6 seed-positioned years + 9997-9999; aliases not examined" % QUICK_TAIL_YEARS)
    else:
        ctx.cap("thorough tier: tail years between tail start + 400 and 9997 use the reduced local set; aliases use stored periods + %d tail years + 9997-9999" % ALIAS_TAIL_YEARS)
    ctx.exhaustive = False


def replay(rec):
    case = rec.get("case") or {}
    if isinstance(case, dict) and isinstance(case.get("case"), dict):
        case = case["case"]
    zid = case.get("zone")
    if zid is None:
        return False
    acc = Acc()
    if case.get("synthetic") and case["synthetic"][0] in ("packed", "precalc"):
        _examine_user(acc, tuple(case["synthetic"][:-1]))
        for k, v in acc.violations.items():
            print(k, v[0])
        return bool(acc.violations)
    if case.get("synthetic"):
        spec = tuple(case["synthetic"])
        zc = _Z(acc, syn_class(spec), syn_desc(spec), spec)
        z = make_synthetic(spec)
    else:
        zc = _Z(acc, zid)
        z = zw.provider("bundled")[zid]
    centre = case.get("local_ns", case.get("instant_ns"))
    if centre is None and case.get("day") is not None:
        centre = case["day"] * DAY_NS
    if centre is None:
        return False
    lo = max(MIN_NS, centre - 400 * DAY_NS)
    hi = min(MAX_NS, centre + 400 * DAY_NS)
    w = zw.walk(z, lo, hi)
    if w.error:
        print("walk fails:", w.error[0], zw.fmt_ns(w.error[1]))
        return True
    idx = zw.Index(w.tuples)
    if "local_ns" in case:
        check_local(acc, zc, z, idx, case["local_ns"], True, _cals())
    if "day" in case:
        check_start_of_day(acc, zc, z, idx, case["day"], _cals())
    if "instant_ns" in case:
        k = idx.at(case["instant_ns"])
        check_round_trip(acc, zc, z, w.tuples[k], 0, _cals())
    for k, v in acc.violations.items():
        print(k, v[0])
    return bool(acc.violations)
