"""C02 - calendar dates denote the physical day their published definitions prescribe.

Sweep of the real calendar code in lock-step with models/calref.py (independent published algorithms) and,
for ISO, with datetime.date over all 3,652,059 ordinals.
"""
from __future__ import annotations

import datetime as _dt

from pyoda_time import CalendarSystem, IsoDayOfWeek, LocalDate
from pyoda_time.calendars import Era

from vf.core import impl
from vf.core.evidence import Acc
from vf.core.par import chunks, pmap
from vf.models import calref

LEVEL = "model_checking"


def arithmetic_ids():
    return [i for i in CalendarSystem.ids if calref.for_id(i) is not None]


# ---- year / month level ------------------------------------------------------------------------

def _years_shard(arg):
    cal_id, y0, y1 = arg
    acc = Acc()
    cal = CalendarSystem.for_id(cal_id)
    ref = calref.for_id(cal_id)
    gj = cal_id in ("ISO", "Gregorian", "Julian")
    single_era = None if gj else list(cal.eras())[0]
    for y in range(y0, y1):
        acc.count(states=1, nontrivial=1)
        try:
            exp_start = ref.year_start(y)
            order = ref.month_order(y)
            first = LocalDate(y, order[0], 1, cal)
            got_start = impl.days_of(first)
            acc.count(evaluations=4, transitions=1)
            if got_start != exp_start:
                acc.violation("C02/%s/year-start/y%d" % (cal_id, y), "year %d starts on day %d, published algorithm says %d" % (y, got_start, exp_start),
                              {"calendar": cal_id, "year": y, "impl": got_start, "ref": exp_start}, py=_py(cal_id, y, order[0], 1, exp_start))
            if bool(cal.is_leap_year(y)) != bool(ref.is_leap(y)):
                acc.violation("C02/%s/leap/y%d" % (cal_id, y), "is_leap_year(%d) = %r, reference %r" % (y, cal.is_leap_year(y), ref.is_leap(y)),
                              {"calendar": cal_id, "year": y})
            if cal.get_months_in_year(y) != len(order):
                acc.violation("C02/%s/months-in-year/y%d" % (cal_id, y), "get_months_in_year(%d) = %d, reference %d" % (y, cal.get_months_in_year(y), len(order)),
                              {"calendar": cal_id, "year": y})
            if cal.get_days_in_year(y) != ref.year_len(y):
                acc.violation("C02/%s/year-length/y%d" % (cal_id, y), "get_days_in_year(%d) = %d, reference %d" % (y, cal.get_days_in_year(y), ref.year_len(y)),
                              {"calendar": cal_id, "year": y})
            run = exp_start
            for m in order:
                ml = ref.month_len(y, m)
                acc.count(states=1, transitions=1, evaluations=3)
                d1 = LocalDate(y, m, 1, cal)
                if impl.days_of(d1) != run:
                    acc.violation("C02/%s/month-start/y%d" % (cal_id, y), "%d-%d-1 is day %d, reference %d" % (y, m, impl.days_of(d1), run),
                                  {"calendar": cal_id, "year": y, "month": m}, py=_py(cal_id, y, m, 1, run))
                if cal.get_days_in_month(y, m) != ml:
                    acc.violation("C02/%s/month-length/y%d" % (cal_id, y), "get_days_in_month(%d, %d) = %d, reference %d" % (y, m, cal.get_days_in_month(y, m), ml),
                                  {"calendar": cal_id, "year": y, "month": m})
                # the era / year-of-era construction route must denote the same day (reference era arithmetic: G/J have
                # BCE = 1 - year for years <= 0, every other calendar has a single era with year_of_era = year)
                try:
                    if gj:
                        era_, yoe_ = (Era.common, y) if y >= 1 else (Era.before_common, 1 - y)
                    else:
                        era_, yoe_ = single_era, y
                    de = LocalDate(yoe_, m, ml, cal, era_)
                    acc.count(evaluations=1)
                    if impl.days_of(de) != run + ml - 1:
                        acc.violation("C02/%s/era-route/y%d" % (cal_id, y), "LocalDate(era=%s, year_of_era=%d, %d, %d) is day %d, reference %d" % (era_, yoe_, m, ml, impl.days_of(de), run + ml - 1),
                                      {"calendar": cal_id, "year": y, "month": m})
                except Exception as e:  # noqa: BLE001
                    acc.lib_exception("C02/%s/era-route/y%d" % (cal_id, y), e, {"calendar": cal_id, "year": y, "month": m, "day": ml})
                dl = LocalDate(y, m, ml, cal)
                if impl.days_of(dl) != run + ml - 1:
                    acc.violation("C02/%s/month-end/y%d" % (cal_id, y), "%d-%d-%d is day %d, reference %d" % (y, m, ml, impl.days_of(dl), run + ml - 1),
                                  {"calendar": cal_id, "year": y, "month": m}, py=_py(cal_id, y, m, ml, run + ml - 1))
                wd = int(dl.day_of_week)
                if wd != calref.iso_weekday(run + ml - 1):
                    acc.violation("C02/%s/day-of-week/y%d" % (cal_id, y), "%d-%d-%d reports weekday %d, day number says %d" % (y, m, ml, wd, calref.iso_weekday(run + ml - 1)),
                                  {"calendar": cal_id, "year": y, "month": m})
                run += ml
        except Exception as e:  # noqa: BLE001
            acc.lib_exception("C02/%s/y%d" % (cal_id, y), e, {"calendar": cal_id, "year": y})
    acc.outcome("years-ok:%s" % cal_id, y1 - y0)
    if y0 % 4000 < 250:
        acc.sample({"calendar": cal_id, "year": y0, "ref_year_start": ref.year_start(y0), "ref_months": [ref.month_len(y0, m) for m in ref.month_order(y0)]})
    return acc


def _py(cal_id, y, m, d, n):
    return ("from pyoda_time import CalendarSystem, LocalDate, Period\n\ndef test_replay():\n"
            "    cal = CalendarSystem.for_id(%r)\n    d = LocalDate(%d, %d, %d, cal)\n"
            "    # published algorithm: this date is day %d counted from 1970-01-01 ISO\n"
            "    assert Period.days_between(LocalDate(1970, 1, 1).with_calendar(cal), d) == %d\n" % (cal_id, y, m, d, n, n))


# ---- day level -----------------------------------------------------------------------------------

def _locate(ref, n, hint_year):
    y = hint_year
    while ref.year_start(y + 1) <= n:
        y += 1
    while ref.year_start(y) > n:
        y -= 1
    run = ref.year_start(y)
    order = ref.month_order(y)
    for idx, m in enumerate(order):
        ml = ref.month_len(y, m)
        if n < run + ml:
            return y, idx, n - run + 1, order
        run += ml
    raise AssertionError("reference year %d shorter than its successor's start" % y)


def _days_shard(arg):
    cal_id, a, b = arg
    acc = Acc()
    cal = CalendarSystem.for_id(cal_id)
    ref = calref.for_id(cal_id)
    try:
        hint = impl.date_from_days(cal, a).year
    except Exception as e:  # noqa: BLE001
        acc.lib_exception("C02/%s/days" % cal_id, e, {"calendar": cal_id, "day": a})
        return acc
    y, idx, d, order = _locate(ref, a, hint)
    ml = ref.month_len(y, order[idx])
    nviol = 0
    for n in range(a, b):
        acc.count(states=1, transitions=1, evaluations=1)
        try:
            ld = impl.date_from_days(cal, n)
            got = (ld.year, ld.month, ld.day, int(ld.day_of_week))
        except Exception as e:  # noqa: BLE001
            acc.lib_exception("C02/%s/day/y%d" % (cal_id, y), e, {"calendar": cal_id, "day": n})
            got = None
        exp = (y, order[idx], d, calref.iso_weekday(n))
        if got is not None and got != exp and nviol < 50:
            nviol += 1
            acc.violation("C02/%s/day/y%d" % (cal_id, y), "day %d is %r (y, m, d, weekday), published algorithm says %r" % (n, got, exp),
                          {"calendar": cal_id, "day": n, "impl": got, "ref": exp})
        d += 1
        if d > ml:
            d = 1
            idx += 1
            if idx == len(order):
                y += 1
                idx = 0
                order = ref.month_order(y)
            ml = ref.month_len(y, order[idx])
    acc.count(nontrivial=b - a)
    return acc


# ---- ISO vs datetime.date ------------------------------------------------------------------------

def _iso_shard(arg):
    a, b = arg
    acc = Acc()
    iso = CalendarSystem.iso
    off = 719163
    for o in range(a, b):
        pyd = _dt.date.fromordinal(o)
        n = o - off
        acc.count(states=1, transitions=2, evaluations=2)
        try:
            ld = LocalDate.from_date(pyd)
            t = (ld.year, ld.month, ld.day, int(ld.day_of_week), impl.days_of(ld), ld.calendar is iso)
            exp = (pyd.year, pyd.month, pyd.day, pyd.isoweekday(), n, True)
            if t != exp:
                acc.violation("C02/ISO/from_date/y%d" % pyd.year, "LocalDate.from_date(%s) -> %r, expected %r" % (pyd, t, exp), {"ordinal": o})
            back = LocalDate(pyd.year, pyd.month, pyd.day).to_date()
            if back != pyd:
                acc.violation("C02/ISO/to_date/y%d" % pyd.year, "LocalDate(%d,%d,%d).to_date() -> %s" % (pyd.year, pyd.month, pyd.day, back), {"ordinal": o})
            ld2 = impl.date_from_days(iso, n)
            if (ld2.year, ld2.month, ld2.day) != (pyd.year, pyd.month, pyd.day):
                acc.violation("C02/ISO/day/y%d" % pyd.year, "day %d -> %r, datetime says %s" % (n, (ld2.year, ld2.month, ld2.day), pyd), {"ordinal": o})
        except Exception as e:  # noqa: BLE001
            acc.lib_exception("C02/ISO/y%d" % pyd.year, e, {"ordinal": o})
    acc.count(nontrivial=b - a)
    return acc


def day_blocks(cal, ref, tier, seed):
    lo, hi = impl.day_range(cal)
    if ref.valid_from_year:
        lo = max(lo, ref.year_start(ref.valid_from_year))
    if tier == "thorough":
        return [(a, b) for a, b in chunks(lo, hi + 1, 200_000)]
    blocks = []

    def add(c, r):
        a, b = max(lo, c - r), min(hi + 1, c + r)
        if a < b:
            blocks.append((a, b))
    add(lo, 1200)
    add(hi, 1200)
    for c in (0, -3, -25567, 47482, -719162, -719528):   # epoch, weekday sign split, 1900, 2100, ISO year 1, ISO year 0
        add(c, 800)
    span = hi - lo - 60_000
    if span > 0:
        s = lo + (seed * 7_919_003 + 123_457) % span
        blocks.append((s, s + 60_000))
    return blocks


# every named way of obtaining a calendar and the calendar it is documented to give (Noda Time's documented ids; the Islamic ids
# are "Hijri <Epoch>-<Pattern>", islamic_bcl is the BCL's HijriCalendar = base-16 pattern with the astronomical epoch)
NAMED_ACCESSORS = {
    "iso": "ISO", "gregorian": "Gregorian", "julian": "Julian", "coptic": "Coptic", "badi": "Badi", "um_al_qura": "Um Al Qura",
    "hebrew_civil": "Hebrew Civil", "hebrew_scriptural": "Hebrew Scriptural", "islamic_bcl": "Hijri Astronomical-Base16",
    "persian_simple": "Persian Simple", "persian_arithmetic": "Persian Arithmetic", "persian_astronomical": "Persian Algorithmic",
}


def _named_routes(acc: Acc):
    """the reference comparison above goes through for_id(id); every other public route to a calendar must hand out that same
    object: static properties, the Hebrew/Islamic factories with every argument combination"""
    from pyoda_time.calendars import HebrewMonthNumbering, IslamicEpoch, IslamicLeapYearPattern
    routes = [("CalendarSystem.%s" % n, (lambda n=n: getattr(CalendarSystem, n)), cid) for n, cid in NAMED_ACCESSORS.items()]
    camel = {"BASE15": "Base15", "BASE16": "Base16", "INDIAN": "Indian", "HABASH_AL_HASIB": "HabashAlHasib", "CIVIL": "Civil", "ASTRONOMICAL": "Astronomical"}
    for pat in IslamicLeapYearPattern:
        for ep in IslamicEpoch:
            routes.append(("get_islamic_calendar(%s, %s)" % (pat.name, ep.name), (lambda pat=pat, ep=ep: CalendarSystem.get_islamic_calendar(pat, ep)),
                           "Hijri %s-%s" % (camel[ep.name], camel[pat.name])))
    for num in HebrewMonthNumbering:
        routes.append(("get_hebrew_calendar(%s)" % num.name, (lambda num=num: CalendarSystem.get_hebrew_calendar(num)), "Hebrew %s" % camel.get(num.name, num.name.capitalize())))
    known = set(CalendarSystem.ids)
    for name, fn, cid in routes:
        acc.count(states=1, evaluations=1, transitions=1, nontrivial=1)
        try:
            cal = fn()
        except Exception as e:  # noqa: BLE001
            acc.lib_exception("C02/named-route/%s" % name, e, {"route": name})
            continue
        if cal.id != cid:
            acc.violation("C02/named-route/wrong-calendar/%s" % name, "%s gives calendar %r; it is documented to give %r" % (name, cal.id, cid), {"route": name})
        elif cid in known and cal is not CalendarSystem.for_id(cid):
            acc.violation("C02/named-route/other-object/%s" % name, "%s gives an object other than for_id(%r)" % (name, cid), {"route": name})
        acc.outcome("named-route")
    for name in sorted(n for n in dir(CalendarSystem) if not n.startswith("_")):
        # an accessor this table does not know (added later) is recorded, never judged
        try:
            v = getattr(CalendarSystem, name)
        except Exception:  # noqa: BLE001
            continue
        if isinstance(v, CalendarSystem) and name not in NAMED_ACCESSORS:
            acc.degrade("calendar accessor CalendarSystem.%s is not in the table of documented accessors: not checked" % name)
    acc.sample({"named_routes": [r[0] for r in routes][:8]})


def run(ctx):
    ids = arithmetic_ids()
    acc = Acc()
    _named_routes(acc)
    ctx.merge_part("named_routes", acc)
    ctx.rule = ("every year and month of each arithmetic calendar compared with the independent published algorithm (year start, leap flag, "
                "length, months, month starts/ends, weekday); day-level lock-step walk on blocks (quick) or the whole range (thorough); ISO vs "
                "datetime.date over all ordinals; non-trivial = distinct (calendar, year) and (calendar, day) states compared")
    ctx.assumptions = ["calref.py is an independent transcription of the published algorithms and epochs",
                       "Persian arithmetic compared from year 475 only (the property's own scope)"]
    ctx.note("arithmetic_calendar_ids", ids)
    for d in impl.DEGRADED:
        ctx.degrade(d)
    jobs = []
    for i in ids:
        cal = CalendarSystem.for_id(i)
        ref = calref.for_id(i)
        y0 = max(cal.min_year, ref.valid_from_year or cal.min_year)
        for a, b in chunks(y0, cal.max_year + 1, 250):
            jobs.append((i, a, b))
    for acc in pmap(_years_shard, jobs, chunksize=4):
        ctx.merge_part("years_months", acc)
    jobs = []
    for i in ids:
        cal = CalendarSystem.for_id(i)
        ref = calref.for_id(i)
        for a, b in day_blocks(cal, ref, ctx.tier, ctx.seed):
            jobs.append((i, a, b))
    for acc in pmap(_days_shard, jobs):
        ctx.merge_part("days", acc)
    lo, hi = _dt.date.min.toordinal(), _dt.date.max.toordinal()
    for acc in pmap(_iso_shard, list(chunks(lo, hi + 1, 60_000))):
        ctx.merge_part("iso_vs_datetime", acc)
    ctx.sample({"iso_ordinals": [lo, hi]})
    ctx.exhaustive = ctx.tier == "thorough"
    if ctx.tier != "thorough":
        ctx.cap("day-level walk limited to boundary blocks + one seed-positioned block of 60000 days per calendar (year/month level and ISO-vs-datetime are complete)")
