"""C04 - each time zone partitions the whole timeline into maximal offset intervals.

A zone is treated as a chain of interval states: i0 = Instant.min_value, z(k) = zone.get_zone_interval(i(k)),
i(k+1) = z(k).end, until an interval without end.  Every zone id of the built-in provider is walked twice (through the
provider's caching wrapper and through the zone underneath it); the walked list is then cross-examined by point
queries, by get_zone_intervals, and against the zone's advertised min/max offsets.
"""
from __future__ import annotations

import itertools

from pyoda_time import DateTimeZone, Instant, Interval, Offset

from vf.core.evidence import Acc, exc_origin
from vf.core.par import pmap
from vf.models import tzrules
from vf.models import zonewalk as zw
from vf.models.nzdref import DAY_NS, NS
from vf.models.tzrules import MAX_NS, MIN_NS

LEVEL = "model_checking"



def _cpu_limit(lo, hi):
    """CPU seconds granted to one (zone, window): about six times what a 2-transitions-per-year zone needs"""
    years = 450 if lo == MIN_NS else (hi - lo) // (365 * DAY_NS)
    return 30 + years // 10


ALIAS_TAIL_YEARS = 30     # an alias is rebuilt from the very bytes of its canonical zone; its recurring tail is walked for 30 years + 9997..9999


def _case(zid, **kw):
    d = {"zone": zid}
    d.update(kw)
    return d


def _py_point(zid, p, exp, raw=False):
    return ("from pyoda_time import DateTimeZoneProviders, Instant\n\n"
            "def test_replay():\n"
            "    z = DateTimeZoneProviders.tzdb[%r]%s\n"
            "    ns = %d\n"
            "    i = Instant.from_unix_time_ticks(ns // 100).plus_nanoseconds(ns %% 100)\n"
            "    zi = z.get_zone_interval(i)\n"
            "    e = Instant.from_unix_time_ticks(0)\n"
            "    got = ((zi.start - e).to_nanoseconds() if zi.has_start else None, (zi.end - e).to_nanoseconds() if zi.has_end else None,\n"
            "           zi.name, zi.wall_offset.seconds, zi.savings.seconds)\n"
            "    assert got == %r  # the interval met by walking the zone forward from the start of time\n"
            "    assert i in zi\n" % (zid, "._time_zone" if raw else "", p, tuple(exp)))


class _Z:
    """per-zone violation helper: one key per (law, zone), formatted lazily"""

    def __init__(self, acc, zid):
        self.acc = acc
        self.zid = zid
        self.fired = set()

    def v(self, law, what, py=None, **case):
        if law in self.fired:
            return
        self.fired.add(law)
        self.acc.violation("C04/%s/%s" % (law, self.zid), what() if callable(what) else what, _case(self.zid, **case), py)


def _decades(lo, hi, first_transition):
    """boundaries for the get_zone_intervals comparison: lo, every decade start inside (from 20 years before the first
    transition on - the stretch before it is one interval), hi"""
    out = [lo]
    y_from = tzrules.year_of_ns(max(lo, (first_transition if first_transition is not None else lo) - 20 * 366 * DAY_NS))
    y_to = tzrules.year_of_ns(hi)
    y = y_from - y_from % 10
    while y <= y_to:
        b = zw.year_start_ns(y)
        if lo < b < hi:
            out.append(b)
        y += 10
    out.append(hi)
    return out


def check_window(acc: Acc, zc: _Z, z, u, lo, hi, ref=None):
    """walk [lo, hi] through the provider's zone, judging every step while the zone's cache is warm; then walk the zone
    underneath the cache and compare.  Returns (first tuple, last tuple, broken) or None when nothing could be walked."""
    zid = zc.zid
    zmin, zmax = z.min_offset.seconds, z.max_offset.seconds
    st = {"p": None, "pobj": None, "plast": None}

    def on_step(k, cur, zi, t):
        s, e = t[0], t[1]
        p, pobj = st["p"], st["pobj"]
        # ---- the chain
        if not ((s is None or s <= cur) and (e is None or cur < e)):
            zc.v("contain", lambda: "get_zone_interval(%s) returned %s which does not contain that instant" % (zw.fmt_ns(cur), zw.fmt_iv(t)),
                 instant_ns=cur, got=t, py=_py_point(zid, cur, t))
        if p is not None:
            if s != p[1]:
                zc.v("abut", lambda: "interval %s is followed by %s: %s" % (zw.fmt_iv(p), zw.fmt_iv(t), "gap" if s is not None and s > p[1] else "overlap"),
                     instant_ns=cur, previous=p, got=t, py=_py_point(zid, cur, (p[1],) + tuple(t[1:])))
            if (t[2], t[3], t[4]) == (p[2], p[3], p[4]):
                zc.v("maximal", lambda: "adjacent intervals do not differ in name, wall offset or savings: %s | %s" % (zw.fmt_iv(p), zw.fmt_iv(t)),
                     instant_ns=cur, previous=p, got=t)
            acc.outcome("transition:" + ("name-only" if (t[3], t[4]) == (p[3], p[4]) else "gap" if t[3] > p[3] else "overlap" if t[3] < p[3] else "savings-only"))
        try:
            std = zi.standard_offset
            if zi.wall_offset != std + zi.savings or t[3] != std.seconds + t[4]:
                zc.v("wall-sum", lambda: "wall offset %d != standard %d + savings %d in %s" % (t[3], std.seconds, t[4], zw.fmt_iv(t)), instant_ns=cur)
            if not (z.min_offset <= zi.wall_offset <= z.max_offset) or not (zmin <= t[3] <= zmax):
                zc.v("minmax", lambda: "wall offset %+ds of %s lies outside the advertised [%+d, %+d]" % (t[3], zw.fmt_iv(t), zmin, zmax), instant_ns=cur)
        except Exception as ex:  # noqa: BLE001
            acc.lib_exception("C04/offsets/%s" % zid, ex, _case(zid, instant_ns=cur))
        acc.count(evaluations=2)
        # ---- get_zone_intervals right around the transition into this interval
        if p is not None and s is not None and s == p[1] and MIN_NS < s < MAX_NS:
            for a, b, exp in ((s - 1, s + 1, [p, t]), (s, s + 1, [t]), (s - 1, s, [p]), (s, s, [])):
                _zone_intervals(acc, zc, z, None, a, b, False, exp)
        # ---- point queries: start, start+1ns, midpoint, end-1ns
        pts = zw.probe_points(t)
        inst = None
        for j, q in enumerate(pts):
            inst = zw.mk_instant(q)
            try:
                if q != cur:
                    got = zw.iv_tuple(z.get_zone_interval(inst))
                    acc.count(evaluations=1)
                    if got != t:
                        zc.v("point/cached", lambda: "provider zone: get_zone_interval(%s) = %s, but walking forward from the start of time that instant lies in %s" % (
                            zw.fmt_ns(q), zw.fmt_iv(got), zw.fmt_iv(t)), instant_ns=q, got=got, walked=t, py=_py_point(zid, q, t))
                off = z.get_utc_offset(inst).seconds
                acc.count(evaluations=1)
                if off != t[3]:
                    zc.v("utc-offset/cached", lambda: "provider zone: get_utc_offset(%s) = %+ds, wall offset of its interval %s" % (zw.fmt_ns(q), off, zw.fmt_iv(t)), instant_ns=q)
                if u is not None:
                    if q != cur:        # the walk through the uncached zone asks at `cur` itself
                        got = zw.iv_tuple(u.get_zone_interval(inst))
                        acc.count(evaluations=1)
                        if got != t:
                            zc.v("point/raw", lambda: "uncached zone: get_zone_interval(%s) = %s, but walking forward from the start of time that instant lies in %s" % (
                                zw.fmt_ns(q), zw.fmt_iv(got), zw.fmt_iv(t)), instant_ns=q, got=got, walked=t, py=_py_point(zid, q, t, True))
                    if (k & 15) == 0 and j == len(pts) - 1:
                        off = u.get_utc_offset(inst).seconds
                        acc.count(evaluations=1)
                        if off != t[3]:
                            zc.v("utc-offset/raw", lambda: "uncached zone: get_utc_offset(%s) = %+ds, wall offset of its interval %s" % (zw.fmt_ns(q), off, zw.fmt_iv(t)), instant_ns=q)
                # exactly one interval claims the instant
                acc.count(evaluations=1)
                if inst not in zi or (pobj is not None and inst in pobj):
                    zc.v("exactly-one", lambda: "instant %s: `in` is %s for its own interval %s and %s for the previous one" % (
                        zw.fmt_ns(q), inst in zi, zw.fmt_iv(t), pobj is not None and inst in pobj), instant_ns=q)
            except Exception as ex:  # noqa: BLE001
                acc.lib_exception("C04/point/%s" % zid, ex, _case(zid, instant_ns=q, instant=zw.fmt_ns(q)))
        if st["plast"] is not None and st["plast"] in zi:
            zc.v("exactly-one", lambda: "the last nanosecond of %s is also claimed by the next interval %s" % (zw.fmt_iv(p), zw.fmt_iv(t)), instant_ns=cur)
        st["p"], st["pobj"], st["plast"] = t, zi, inst

    wz = zw.walk(z, lo, hi, on_step=on_step)
    acc.count(transitions=wz.steps, evaluations=wz.steps)
    if wz.error:
        kind, cur, info = wz.error
        if kind == "exception":
            if exc_origin(info) == "harness":
                raise info
            acc.lib_exception("C04/walk/%s" % zid, info, _case(zid, instant_ns=cur, instant=zw.fmt_ns(cur), through="provider zone"))
        else:
            zc.v("no-progress", "get_zone_interval(%s) returned %s which does not end after the queried instant" % (zw.fmt_ns(cur), zw.fmt_iv(info)),
                 instant_ns=cur, py=_py_point(zid, cur, info))
        if not wz.tuples:
            return None
    L = wz.tuples
    objs = wz.objs
    n = len(L)
    acc.count(states=n)
    if ref is not None and L != ref:
        i = 0
        while i < min(len(L), len(ref)) and L[i] == ref[i]:
            i += 1
        zc.v("reference", "interval #%d of the walk is %s; the zone was built with %s there" % (
            i, L[i:i + 1] and zw.fmt_iv(L[i]), ref[i:i + 1] and zw.fmt_iv(ref[i])), instant_ns=lo)
    if lo == MIN_NS and L[0][0] is not None:
        zc.v("first-has-start", "the interval at Instant.min_value has a start: %s" % zw.fmt_iv(L[0]), instant_ns=lo)
    if hi == MAX_NS and not wz.error:
        last = L[-1]
        if last[1] is not None:
            zc.v("last-has-end", "the interval at the end of the walk has an end: %s" % zw.fmt_iv(last), instant_ns=hi)
        try:
            zl = z.get_zone_interval(Instant.max_value)
            acc.count(evaluations=2)
            if zw.iv_tuple(zl) != last or Instant.max_value not in objs[-1]:
                zc.v("max-in-last", "Instant.max_value lies in %s, the walk ended with %s" % (zw.fmt_iv(zw.iv_tuple(zl)), zw.fmt_iv(last)),
                     instant_ns=MAX_NS, py=_py_point(zid, MAX_NS, last))
        except Exception as ex:  # noqa: BLE001
            acc.lib_exception("C04/max-value/%s" % zid, ex, _case(zid, instant_ns=MAX_NS))
    # ---- the zone underneath the cache gives the same chain
    if u is not None:
        try:
            umin, umax = u.min_offset.seconds, u.max_offset.seconds
            bad = next((t for t in L if not (umin <= t[3] <= umax)), None)
            if bad is not None:
                zc.v("minmax-raw", "wall offset %+ds of %s lies outside the [%+d, %+d] advertised by the uncached zone" % (bad[3], zw.fmt_iv(bad), umin, umax))
            acc.outcome("minmax:" + ("tight" if (zmin, zmax) == (min(t[3] for t in L), max(t[3] for t in L)) else "not-attained-in-this-window"))
        except Exception as ex:  # noqa: BLE001
            acc.lib_exception("C04/raw-minmax/%s" % zid, ex, _case(zid))
        wu = zw.walk(u, lo, hi)
        acc.count(transitions=wu.steps, evaluations=wu.steps)
        if wu.error and wu.error[0] == "exception":
            if exc_origin(wu.error[2]) == "harness":
                raise wu.error[2]
            acc.lib_exception("C04/walk-raw/%s" % zid, wu.error[2], _case(zid, instant_ns=wu.error[1], instant=zw.fmt_ns(wu.error[1]), through="uncached zone"))
        elif wu.tuples != L or wu.error:
            i = 0
            while i < min(len(wu.tuples), n) and wu.tuples[i] == L[i]:
                i += 1
            a = L[i] if i < n else None
            b = wu.tuples[i] if i < len(wu.tuples) else None
            q = (L[i - 1][1] if i > 0 else lo)
            zc.v("cached-vs-raw", "walk through the caching wrapper and through the wrapped zone differ at step %d (query %s): cached %s, uncached %s" % (
                i, zw.fmt_ns(q), a and zw.fmt_iv(a), b and zw.fmt_iv(b)), instant_ns=q, cached=a, uncached=b,
                py=_py_point(zid, q, a, raw=True) if a else None)
    # ---- get_zone_intervals over each decade yields the same sub-lists (alternately on the cached and the uncached zone)
    first_tr = next((t[0] for t in L if t[0] is not None), None)
    idx = zw.Index(L)
    bounds = _decades(lo, hi, first_tr)
    for i in range(len(bounds) - 1):
        a, b = bounds[i], bounds[i + 1]
        _zone_intervals(acc, zc, u if (u is not None and i & 1) else z, idx, a, b, bool(i & 2))
    # ---- cache-order histories on fresh cached zones, for every transition on the first or last day of a 32-day cache period
    if u is not None:
        check_histories(acc, zc, z, u, L, lo, hi)
    # ---- route histories: get_utc_offset as the FIRST question about a period whose cache slot holds an aliased period's node
    if u is not None:
        check_route_histories(acc, zc, z, u, L, lo, hi)
    # ---- 32-day cache periods with several transitions (all of them are walked and queried after the 2nd transition)
    multi = zw.transitions_per_cache_period(L)
    for pnum, cnt in multi.items():
        acc.outcome("cache-period-with-%d-transitions" % cnt)
    if multi:
        acc.notes.setdefault("multi_transition_periods", {})[zid] = sorted(zw.fmt_ns((p << 5) * DAY_NS)[:10] for p in multi)[:6]
    return L[0], L[-1], bool(wz.error)


CACHE_PERIOD_DAYS = 32       # _PERIOD_SHIFT = 5
CACHE_SLOTS = 512            # __CACHE_SIZE: periods p and p +- 512k share a slot


def fresh_cached(z, u):
    """a new, empty caching wrapper around the same underlying zone (private factory; None when unavailable)"""
    try:
        f = type(z)._for_zone(u)
    except Exception:  # noqa: BLE001
        return None
    return f if (f is not z and f is not u and type(f) is type(z)) else None


def check_histories(acc, zc, z, u, L, lo, hi):
    """Operation histories on the zone-interval cache (vf.models.zonewalk.cache_order_histories: period-edge transitions with the neighbouring /
    aliased period asked first, and intervals longer than 512 periods with an aliased earlier period asked first), each replayed on a fresh
    cached zone.  Every answer must be the interval the walked list / the uncached zone gives for that instant."""
    zid = zc.zid
    idx = zw.Index(L)
    want = {}

    def oracle(q):
        if q not in want:
            # inside the walked stretch the walked list (already shown equal to the uncached zone's) is the oracle
            want[q] = L[idx.at(q)] if idx.covers(q, q) else zw.iv_tuple(u.get_zone_interval(zw.mk_instant(q)))
            acc.count(evaluations=1)
        return want[q]

    last_anchor = None
    for anchor, kind, name, seq in zw.cache_order_histories(L, lo, hi, full=True):
        if anchor != last_anchor:
            last_anchor = anchor
            want.clear()
            acc.outcome("cache-history:" + kind)
        f = fresh_cached(z, u)
        if f is None:
            acc.degrade("fresh caching wrapper not constructible (_CachedDateTimeZone._for_zone): cache-order histories skipped")
            return
        for i, q in enumerate(seq):
            try:
                exp = oracle(q)
                got = zw.iv_tuple(f.get_zone_interval(zw.mk_instant(q)))
            except Exception as ex:  # noqa: BLE001
                acc.lib_exception("C04/history/%s" % zid, ex, _case(zid, instant_ns=q, history=seq[:i + 1]))
                break
            acc.count(evaluations=1, transitions=1)
            if got != exp:
                zc.v("history", lambda: "fresh cached zone asked in turn about %s: the answer for %s is %s, the uncached zone says %s (%s at %s; %s)" % (
                    [zw.fmt_ns(x) for x in seq[:i + 1]], zw.fmt_ns(q), zw.fmt_iv(got), zw.fmt_iv(exp), kind, zw.fmt_ns(anchor), name),
                    instant_ns=q, history=list(seq[:i + 1]), py=_py_history(zid, seq[:i + 1], exp))
                break


ROUTE_EVERY = 8          # every 8th walked interval (fixed residue: the selection does not depend on the seed)


def check_route_histories(acc, zc, z, u, L, lo, hi):
    """Two-step histories mixing the two query routes.  For every 8th walked interval and a in {start + 33 days, end - 33 days} (instants whose
    whole 32-day cache period lies inside the interval, when it is long enough), a fresh cached zone is asked
        get_zone_interval(a), then get_utc_offset(a + 512 periods), get_utc_offset(a - 512 periods), get_utc_offset(a + 1024 periods)
    - each get_utc_offset is the first question about its period, whose cache slot holds the node of an aliased period.
    Every offset must be the wall offset of the interval the uncached zone / the walked list gives for that instant."""
    zid = zc.zid
    idx = zw.Index(L)
    span = CACHE_PERIOD_DAYS * CACHE_SLOTS * DAY_NS
    margin = (CACHE_PERIOD_DAYS + 1) * DAY_NS
    for k in range(0, len(L), ROUTE_EVERY):
        t = L[k]
        s0 = MIN_NS if t[0] is None else t[0]
        e0 = MAX_NS if t[1] is None else t[1]
        if e0 - s0 <= 2 * margin:
            continue
        for a in (s0 + margin, e0 - margin):
            if not (lo <= a <= hi):
                continue
            f = fresh_cached(z, u)
            if f is None:
                acc.degrade("fresh caching wrapper not constructible (_CachedDateTimeZone._for_zone): route histories skipped")
                return
            seq = [a] + [q for q in (a + span, a - span, a + 2 * span) if MIN_NS <= q <= MAX_NS]
            try:
                got0 = zw.iv_tuple(f.get_zone_interval(zw.mk_instant(a)))
                acc.count(evaluations=1, transitions=1)
                if got0 != t:
                    zc.v("route-history", lambda: "fresh cached zone: get_zone_interval(%s) = %s, walked %s" % (zw.fmt_ns(a), zw.fmt_iv(got0), zw.fmt_iv(t)), instant_ns=a)
                    continue
                for i, q in enumerate(seq[1:]):
                    want = (L[idx.at(q)] if idx.covers(q, q) else zw.iv_tuple(u.get_zone_interval(zw.mk_instant(q))))[3]
                    off = f.get_utc_offset(zw.mk_instant(q)).seconds
                    acc.count(evaluations=2, transitions=1)
                    if off != want:
                        zc.v("route-history", lambda: "fresh cached zone asked get_zone_interval(%s) and then get_utc_offset for %s: the offset at %s is reported as %+ds, the zone's offset there is %+ds" % (
                            zw.fmt_ns(a), [zw.fmt_ns(x) for x in seq[1:i + 2]], zw.fmt_ns(q), off, want),
                            instant_ns=q, history=seq[:i + 2], py=_py_route(zid, seq[:i + 2], want))
                        break
            except Exception as ex:  # noqa: BLE001
                acc.lib_exception("C04/route-history/%s" % zid, ex, _case(zid, instant_ns=a, history=seq))
        acc.outcome("route-history:interval-examined")


def _py_route(zid, seq, want):
    return ("from pyoda_time import Instant\nfrom pyoda_time.time_zones._tzdb_date_time_zone_source import TzdbDateTimeZoneSource\n\n"
            "def test_replay():\n"
            "    z = TzdbDateTimeZoneSource.default.for_id(%r)   # a fresh zone object with an empty interval cache\n"
            "    mk = lambda ns: Instant.from_unix_time_ticks(ns // 100).plus_nanoseconds(ns %% 100)\n"
            "    seq = %r\n"
            "    z.get_zone_interval(mk(seq[0]))\n"
            "    for ns in seq[1:]:\n"
            "        off = z.get_utc_offset(mk(ns)).seconds\n"
            "    assert off == %d  # == z.get_zone_interval(mk(seq[-1])).wall_offset.seconds on a fresh zone\n" % (zid, list(seq), want))


def _py_history(zid, seq, exp):
    return ("from pyoda_time import Instant\nfrom pyoda_time.time_zones._tzdb_date_time_zone_source import TzdbDateTimeZoneSource\n\n"
            "def test_replay():\n"
            "    z = TzdbDateTimeZoneSource.default.for_id(%r)   # a fresh zone object with an empty interval cache\n"
            "    e = Instant.from_unix_time_ticks(0)\n"
            "    for ns in %r:\n"
            "        zi = z.get_zone_interval(Instant.from_unix_time_ticks(ns // 100).plus_nanoseconds(ns %% 100))\n"
            "    got = ((zi.start - e).to_nanoseconds() if zi.has_start else None, (zi.end - e).to_nanoseconds() if zi.has_end else None,\n"
            "           zi.name, zi.wall_offset.seconds, zi.savings.seconds)\n"
            "    assert got == %r  # what the zone answers for the last instant when asked without that history\n" % (zid, list(seq), tuple(exp)))


def _zone_intervals(acc, zc, z, idx, a, b, use_interval, exp=None):
    if exp is None:
        L = idx.tuples
        exp = [L[k] for k in idx.near(a, b - 1)] if a < b else []
        exp = [t for t in exp if (t[0] is None or t[0] < b) and (t[1] is None or t[1] > a)]
    try:
        ia, ib = zw.mk_instant(a), zw.mk_instant(b)
        gen = z.get_zone_intervals(interval=Interval(start=ia, end=ib)) if use_interval else z.get_zone_intervals(start=ia, end=ib)
        got = [zw.iv_tuple(x) for x in itertools.islice(gen, len(exp) + 2)]     # bounded: a broken generator may never stop
        acc.count(evaluations=1, transitions=len(got))
        if got != exp:
            i = 0
            while i < min(len(got), len(exp)) and got[i] == exp[i]:
                i += 1
            zc.v("zone-intervals", lambda: "get_zone_intervals(%s, %s) yields %d intervals, the walk has %d there; first difference at #%d: %s vs %s" % (
                zw.fmt_ns(a), zw.fmt_ns(b), len(got), len(exp), i, got[i:i + 1] and zw.fmt_iv(got[i]), exp[i:i + 1] and zw.fmt_iv(exp[i])),
                start_ns=a, end_ns=b, instant_ns=a)
    except Exception as ex:  # noqa: BLE001
        acc.lib_exception("C04/zone-intervals/%s" % zc.zid, ex, _case(zc.zid, start_ns=a, end_ns=b, instant_ns=a))


def _zone_item(item):
    """worker: one zone id, a list of windows"""
    zid, windows, light = item
    acc = Acc()
    zc = _Z(acc, zid)
    if zw.too_many_hangs(acc):
        acc.notes["seams"] = {}
        return acc
    try:
        z = zw.provider("bundled")[zid]
    except Exception as ex:  # noqa: BLE001
        acc.lib_exception("C04/lookup/%s" % zid, ex, _case(zid))
        return acc
    u = zw.uncached(z)
    if u is None and type(z).__name__ != "_FixedDateTimeZone":
        acc.degrade("zone underneath the caching wrapper not reachable (_time_zone): cached-vs-uncached comparison skipped")
    ends = []
    for (lo, hi) in windows:
        try:
            with zw.cpu_limit(_cpu_limit(lo, hi)):
                r = check_window(acc, zc, z, u, lo, hi)
        except zw.Hang as h:
            zw.hang_violation(acc, "C04", zid, h, {"window": [lo, hi]})
            r = None
        ends.append((lo, hi, r))
    acc.notes["seams"] = {zid: [(lo, hi, r and r[0], r and r[1]) for lo, hi, r in ends]}
    acc.outcome("zone-kind:%s" % type(u if u is not None else z).__name__)
    if len(acc.samples) < 1 and zid in ("Europe/Vienna", "Asia/Shanghai", "Asia/Gaza", "Europe/London"):
        acc.sample({"zone": zid, "windows": [(zw.fmt_ns(lo), zw.fmt_ns(hi)) for lo, hi in windows],
                    "first": ends[0][2] and zw.fmt_iv(ends[0][2][0]), "last": ends[-1][2] and zw.fmt_iv(ends[-1][2][1])})
    return acc


# ---- one zone object asked about every cache period of years 1..9999 (thorough tier) ---------------------------

DEEP_HISTORY_ZONES = ("Europe/London", "Pacific/Apia")


def _deep_history_item(zid):
    """A single fresh cached zone is asked about the 16th day of every 32-day period from year 1 to year 9999 in ascending order
    (about 114,000 distinct periods on one object - far beyond any cache capacity), then about every one of them once more in DESCENDING
    order (an ascending second round only ever asks about periods the cache has just dropped); both answers must be what the uncached zone says.  Reaches faults that need tens of thousands of cached periods on one object."""
    acc = Acc()
    zc = _Z(acc, zid)
    try:
        z = zw.provider("bundled")[zid]
        u = zw.uncached(z)
        f = fresh_cached(z, u) if u is not None else None
        if f is None:
            acc.degrade("fresh caching wrapper not constructible: deep single-object history skipped")
            return acc
        p0 = (zw.year_start_ns(1) // DAY_NS) >> 5
        p1 = (zw.year_start_ns(9999) // DAY_NS) >> 5
        want = {}
        with zw.cpu_limit(900):
            for rnd in (1, 2):
                for pnum in (range(p0, p1 + 1) if rnd == 1 else range(p1, p0 - 1, -1)):
                    q = (pnum * CACHE_PERIOD_DAYS + 16) * DAY_NS
                    inst = zw.mk_instant(q)
                    if rnd == 1:
                        want[pnum] = zw.iv_tuple(u.get_zone_interval(inst))
                    got = zw.iv_tuple(f.get_zone_interval(inst))
                    acc.count(evaluations=2 if rnd == 1 else 1, transitions=1)
                    if got != want[pnum]:
                        zc.v("deep-history", lambda: "one cached zone object asked about every 32-day period from year 1 on: in round %d the answer for %s is %s, the uncached zone says %s" % (
                            rnd, zw.fmt_ns(q), zw.fmt_iv(got), zw.fmt_iv(want[pnum])), instant_ns=q, round=rnd)
                        return acc
        acc.count(states=p1 - p0 + 1, nontrivial=len(set(want.values())))
        acc.outcome("deep-history:periods-on-one-object", p1 - p0 + 1)
    except zw.Hang as h:
        zw.hang_violation(acc, "C04", zid, h, {"part": "deep-history"})
    except Exception as ex:  # noqa: BLE001
        acc.lib_exception("C04/deep-history/%s" % zid, ex, _case(zid))
    return acc


# ---- user zones with a reference description --------------------------------------------------------------

def _user_item(specs):
    """interval-list zones with 1..6 transitions packed into one cache period, and stored-periods+rules zones whose join needs the clamp:
    the cached wrapper is walked and cross-examined exactly like a provider zone, the uncached zone underneath is its differential partner,
    and the walked list must equal the reference list derived from the description"""
    acc = Acc()
    for spec in specs:
        label = zw.user_zone_label(spec)
        zc = _Z(acc, label)
        try:
            raw, cached, problems = zw.build_user_zone(spec)
            for pr in problems:
                acc.degrade("user zones: " + pr)
            if raw is None:
                continue
            ref = zw.user_zone_ref(spec)
            for lo, hi in zw.user_zone_windows(spec):
                exp = tzrules.expected_intervals(ref, lo, hi)
                with zw.cpu_limit(_cpu_limit(lo, hi)):
                    if cached is not None:
                        check_window(acc, zc, cached, raw, lo, hi, ref=exp)
                    else:
                        check_window(acc, zc, raw, None, lo, hi, ref=exp)
            acc.outcome("user-zone:" + ("interval-list" if spec[0] == "packed" else "stored-periods+rules"))
        except zw.Hang as h:
            zw.hang_violation(acc, "C04", label, h, {"synthetic": list(spec)})
        except Exception as ex:  # noqa: BLE001
            acc.lib_exception("C04/user-zone/%s" % label, ex, {"synthetic": list(spec)})
    acc.notes.pop("multi_transition_periods", None)
    return acc


# ---- fixed-offset zones ----------------------------------------------------------------------------

def fixed_offsets():
    out = []
    for h in range(-36, 37):
        base = h * 1800
        for d in range(-5, 6):
            o = base + d
            if -64800 <= o <= 64800 and o not in out:
                out.append(o)
    return out


FIXED_PROBES = (MIN_NS, MIN_NS + 1, -DAY_NS, -1, 0, 1, 1_700_000_000 * NS + 123_456_789, MAX_NS - 1, MAX_NS)


def _fixed_item(offsets):
    acc = Acc()
    for o in offsets:
        name = "utc" if o is None else "for_offset(%+d)" % o
        zc = _Z(acc, name)
        try:
            z = DateTimeZone.utc if o is None else DateTimeZone.for_offset(Offset.from_seconds(o))
            oo = 0 if o is None else o
            exp = None
            acc.count(states=1, nontrivial=1)
            for p in FIXED_PROBES:
                inst = zw.mk_instant(p)
                zi = z.get_zone_interval(inst)
                t = zw.iv_tuple(zi)
                acc.count(evaluations=3, transitions=1)
                if t[0] is not None or t[1] is not None or t[3] != oo or t[4] != 0 or inst not in zi or zi.standard_offset.seconds != oo:
                    zc.v("fixed/interval", "fixed zone %s: get_zone_interval(%s) = %s, expected one endless interval with wall offset %+ds, savings 0" % (
                        name, zw.fmt_ns(p), zw.fmt_iv(t), oo), instant_ns=p, offset=o)
                if exp is None:
                    exp = t
                elif t != exp:
                    zc.v("fixed/same-interval", "fixed zone %s returns different intervals at different instants: %s vs %s" % (name, zw.fmt_iv(exp), zw.fmt_iv(t)), offset=o)
                if z.get_utc_offset(inst).seconds != oo:
                    zc.v("fixed/utc-offset", "fixed zone %s: get_utc_offset(%s) = %d" % (name, zw.fmt_ns(p), z.get_utc_offset(inst).seconds), offset=o)
            if z.min_offset.seconds != oo or z.max_offset.seconds != oo:
                zc.v("fixed/minmax", "fixed zone %s advertises [%d, %d]" % (name, z.min_offset.seconds, z.max_offset.seconds), offset=o)
            w = zw.walk(z, MIN_NS, MAX_NS)
            got = [zw.iv_tuple(x) for x in itertools.islice(z.get_zone_intervals(start=Instant.min_value, end=Instant.max_value), 3)]
            acc.count(evaluations=2, transitions=2)
            if w.error or w.tuples != [exp] or got != [exp]:
                zc.v("fixed/walk", "fixed zone %s: walk gives %r, get_zone_intervals gives %r" % (name, w.tuples[:3], got[:3]), offset=o)
            acc.outcome("fixed:" + ("utc" if oo == 0 else "half-hour" if oo % 1800 == 0 else "odd-second"))
        except Exception as ex:  # noqa: BLE001
            acc.lib_exception("C04/fixed/%s" % name, ex, {"offset_seconds": o})
    return acc


# ---- driver -----------------------------------------------------------------------------------

def build_items(tier, seed, which="bundled"):
    """[(zone id, windows, light)] for every id of the provider; heavy items first (deterministic)"""
    _, f = zw.decoded(which)
    cmap = {}
    from vf.models import nzdref
    cmap = nzdref.canonical_map(f)
    items = []
    for zid in nzdref.all_ids(f):
        rz = f["zones"].get(cmap.get(zid))
        alias = cmap.get(zid) != zid
        if tier == "thorough" and not alias:
            wins = zw.plan(rz, "full", chunk_years=950)
            for w in wins:
                items.append((zid, [w], False))
            continue
        wins = zw.plan(rz, "cycle", cycle_years=ALIAS_TAIL_YEARS if alias else zw.CYCLE_YEARS)
        if tier == "quick" and len(wins) == 2 and not alias:
            # VERIF_SEED positions one extra contiguous block of 25 tail years; the verdict does not depend on it
            y0 = tzrules.year_of_ns(wins[0][1])
            span = zw.FINAL_FROM_YEAR - 26 - y0
            if span > 0:
                y = y0 + ((seed + 1) * 1009) % span
                wins = [wins[0], (zw.year_start_ns(y), zw.year_start_ns(y + 25)), wins[1]]
        items.append((zid, wins, False))
    est = lambda it: sum((hi - lo) // (366 * DAY_NS) if lo > MIN_NS else 450 for lo, hi in it[1])  # noqa: E731
    items.sort(key=lambda it: (-est(it), it[0], it[1][0][0]))
    return items


def run(ctx):
    tier = ctx.tier
    ctx.rule = ("states = (zone id, interval) pairs met by the forward walk; non-trivial = transitions (an interval with a predecessor that "
                "differs from it), counted per zone id; every interval is additionally queried at start, start+1ns, midpoint and end-1ns "
                "through the provider's cached zone and through the zone underneath the cache; for every transition on the first/last day of a 32-day "
                "cache period three operation histories (aliased periods +-512/+-1024 first, then around the transition, and reversed) are replayed on "
                "fresh cached zones and compared with the uncached zone; for every 8th interval a two-route history (get_zone_interval at an instant, "
                "then get_utc_offset 512/1024 periods away as the first question about that period); 60 user zones with a reference description "
                "(1..6 transitions packed into / straddling one cache period; stored periods + rules with a clamped join) get the same treatment "
                "through _CachedDateTimeZone._for_zone; thorough tier: one zone object asked twice about each of ~114,000 cache periods")
    ctx.assumptions = ["window plan (where the recurring tail starts) is read from the .nzd bytes by the independent decoder; it decides only where to walk",
                       "quick tier: recurring tails are walked for one full 400-year Gregorian cycle after the tail start plus 9997..9999 "
                       "(yearly rules are periodic in 146,097 days); thorough tier walks every canonical zone to the end of time",
                       "alias ids (rebuilt from the very bytes of their canonical zone; C06 checks that equality) are walked in both tiers over their stored "
                       "periods + %d tail years + 9997..9999" % ALIAS_TAIL_YEARS]
    for d in zw.DEGRADED:
        ctx.degrade(d)
    items = build_items(tier, ctx.seed)
    if ctx.seed and items:
        r = ctx.seed % len(items)
        items = items[r:] + items[:r]
    only = getattr(ctx, "only", None)
    seams = {}
    if not only or "zones" in only:
        for a in pmap(_zone_item, items):
            for zid, lst in a.notes.pop("seams", {}).items():
                seams.setdefault(zid, []).extend(lst)
            mt = a.notes.pop("multi_transition_periods", None)
            if mt:
                ctx.notes.setdefault("multi_transition_periods_examples", {}).update(mt)
            ctx.merge_part("zones", a)
        # seams between adjacent windows of one zone (thorough tier): the interval holding the shared instant must be the same
        seam_acc = Acc()
        dup = 0
        zones_done = 0
        for zid, lst in seams.items():
            lst.sort(key=lambda r: r[0])
            zones_done += 1
            for i in range(len(lst) - 1):
                (lo1, hi1, f1, l1), (lo2, hi2, f2, l2) = lst[i], lst[i + 1]
                if hi1 == lo2 and l1 is not None and f2 is not None:
                    dup += 1
                    seam_acc.count(evaluations=1)
                    if tuple(l1) != tuple(f2):
                        seam_acc.violation("C04/seam/%s" % zid, "walk segments of %s disagree about the interval holding %s: %s vs %s" % (
                            zid, zw.fmt_ns(hi1), l1, f2), {"zone": zid, "instant_ns": hi1})
        seam_acc.count(states=-dup)
        ctx.merge_part("zones", seam_acc)
        ctx.note("zone_ids_walked", zones_done)
        ctx.note("window_items", len(items))
        ex = ctx.notes.get("multi_transition_periods_examples", {})
        ctx.notes["multi_transition_periods_examples"] = {k: ex[k] for k in sorted(ex)[:400] if k in ("Europe/Vienna", "Asia/Shanghai", "Asia/Gaza")} or dict(list(sorted(ex.items()))[:5])
        ctx.note("zones_with_multi_transition_periods", len(ex))
        for must in ("Europe/Vienna", "Asia/Shanghai", "Asia/Gaza"):
            if must not in ex:
                ctx.cap("expected multi-transition cache period not met in %s (data changed?)" % must)
    if not only or "user-zones" in only:
        us = zw.user_zone_specs()
        for a in pmap(_user_item, [us[i::12] for i in range(12)]):
            ctx.merge_part("user-zones", a)
        ctx.note("user_zones_with_reference", len(us))
    if tier == "thorough" and (not only or "deep-history" in only):
        for a in pmap(_deep_history_item, list(DEEP_HISTORY_ZONES)):
            ctx.merge_part("deep-history", a)
    if not only or "fixed" in only:
        offs = [None] + fixed_offsets()
        shards = [offs[i::16] for i in range(16)]
        for a in pmap(_fixed_item, shards):
            ctx.merge_part("fixed", a)
    # non-trivial = transitions observed
    ctx.nontrivial += sum(v for k, v in ctx.outcomes.items() if k.startswith("transition:"))
    if "zones" in ctx.parts:
        ctx.parts["zones"]["nontrivial"] = sum(v for k, v in ctx.outcomes.items() if k.startswith("transition:"))
    # declared finite space of the thorough tier: every interval of every canonical zone + the alias windows + the fixed-offset list
    ctx.exhaustive = (tier == "thorough") and not only and not ctx.caps and not ctx.degraded and not any("/no-termination/" in k for k in ctx.violations)
    if tier == "quick":
        ctx.cap("quick tier: recurring tails walked for 400 years after their start + one seed-positioned block of 25 years + years 9997-9999")


def replay(rec):
    case = rec.get("case") or {}
    if isinstance(case, dict) and "case" in case and isinstance(case["case"], dict):
        case = case["case"]
    zid = case.get("zone")
    p = case.get("instant_ns")
    if zid is None:
        return False
    acc = Acc()
    zc = _Z(acc, zid)
    z = zw.provider("bundled")[zid]
    u = zw.uncached(z)
    if p is None:
        lo, hi = MIN_NS, min(MAX_NS, zw.year_start_ns(2500))
    else:
        lo = max(MIN_NS, p - 800 * DAY_NS)
        hi = min(MAX_NS, p + 800 * DAY_NS)
    check_window(acc, zc, z, u, lo, hi)
    for k, v in acc.violations.items():
        print(k, v[0])
    return bool(acc.violations)
