"""C19 - clocks follow their simple model under any sequence of operations (sequential + threads)."""
from __future__ import annotations

import itertools

from vf.core import sched

sched.install_lock_factory()

import datetime as _dt  # noqa: E402
import time as _time  # noqa: E402

from pyoda_time import CalendarSystem, DateTimeZone, DateTimeZoneProviders, Duration, Instant, SystemClock, ZonedClock  # noqa: E402
from pyoda_time.testing import FakeClock  # noqa: E402

from vf.core.evidence import Acc, exc_origin  # noqa: E402
from vf.core.par import pmap  # noqa: E402

LEVEL = "model_checking"
NS_DAY = 86_400 * 10**9
UNIT_NS = {"nanoseconds": 1, "ticks": 100, "milliseconds": 10**6, "seconds": 10**9, "minutes": 60 * 10**9,
           "hours": 3600 * 10**9, "days": NS_DAY}


def ins_ns(i: Instant) -> int:
    d = i - Instant.from_unix_time_ticks(0)
    return d.to_nanoseconds()


def mk_instant(ns: int) -> Instant:
    return Instant.from_unix_time_ticks(0).plus_nanoseconds(ns)


MIN_NS = ins_ns(Instant.min_value)
MAX_NS = ins_ns(Instant.max_value)


def alphabet(tier):
    ops = [("read",), ("get_auto",)]
    for d in (0, 1, -NS_DAY, 2**63 + 1):
        ops.append(("advance", d))
    amounts = (1, -3) if tier == "quick" else (1, -3, 2**31 + 7)
    for u in UNIT_NS:
        for n in amounts:
            ops.append(("advance_" + u, n))
    for r in (0, NS_DAY + 5, MAX_NS):
        ops.append(("reset", r))
    for a in (0, 10**9, -1):
        ops.append(("set_auto", a))
    return ops


def apply_impl(clock: FakeClock, op):
    k = op[0]
    if k == "read":
        return ins_ns(clock.get_current_instant())
    if k == "get_auto":
        return clock.auto_advance.to_nanoseconds()
    if k == "advance":
        return clock.advance(Duration.from_nanoseconds(op[1]))
    if k.startswith("advance_"):
        return getattr(clock, k)(op[1])
    if k == "reset":
        return clock.reset(mk_instant(op[1]))
    if k == "set_auto":
        clock.auto_advance = Duration.from_nanoseconds(op[1])
        return None
    raise AssertionError(op)


class Raises(Exception):
    pass


def apply_model(st, op):
    """st = [now, auto]; returns the observable result or raises Raises when the range is left."""
    k = op[0]
    if k == "read":
        new = st[0] + st[1]
        if not (MIN_NS <= new <= MAX_NS):
            raise Raises()
        r = st[0]
        st[0] = new
        return r
    if k == "get_auto":
        return st[1]
    if k == "advance" or k.startswith("advance_"):
        d = op[1] if k == "advance" else op[1] * UNIT_NS[k[len("advance_"):]]
        new = st[0] + d
        if not (MIN_NS <= new <= MAX_NS):
            raise Raises()
        st[0] = new
        return None
    if k == "reset":
        st[0] = op[1]
        return None
    if k == "set_auto":
        st[1] = op[1]
        return None
    raise AssertionError(op)


def run_sequence(seq, acc: Acc, lock_free_probe=True):
    """Replay seq on a fresh real clock and on the model; compare every observation."""
    clock = FakeClock(mk_instant(0))
    st = [0, 0]
    obs = []
    for i, op in enumerate(seq):
        exp_raise = False
        try:
            exp = apply_model(st, op)
        except Raises:
            exp_raise = True
            exp = None
        res = sched.run_schedule(lambda: ([lambda: apply_impl(clock, op)], None), [], ("_fake_clock.py",), False)[0]
        acc.count(transitions=1)
        if res.status != "OK":
            acc.violation("C19/seq/%s/%s" % (res.status.lower(), op[0]),
                          "operation %r does not complete (%s) after %r" % (op, res.status, seq[:i]),
                          {"kind": "seq", "seq": seq[:i + 1]}, py=_py_seq(seq[:i + 1]))
            return obs
        err = res.errors[0]
        if err is not None:
            if exp_raise and isinstance(err, (ValueError, OverflowError)):
                obs.append("raise")
                continue
            if exc_origin(err) == "harness":
                raise err
            acc.violation("C19/seq/unexpected-%s/%s" % (type(err).__name__, op[0]),
                          "operation %r raised %r after %r" % (op, err, seq[:i]), {"kind": "seq", "seq": seq[:i + 1]},
                          py=_py_seq(seq[:i + 1]))
            return obs
        if exp_raise:
            acc.violation("C19/seq/no-raise/%s" % op[0], "operation %r left the Instant range but returned %r (history %r)" % (op, res.results[0], seq[:i]),
                          {"kind": "seq", "seq": seq[:i + 1]}, py=_py_seq(seq[:i + 1]))
            return obs
        got = res.results[0]
        obs.append(got)
        if got != exp:
            acc.violation("C19/seq/result/%s" % op[0], "after %r, %r returned %r, model says %r" % (seq[:i], op, got, exp),
                          {"kind": "seq", "seq": seq[:i + 1], "expected": exp, "got": got}, py=_py_seq(seq[:i + 1]))
            return obs
    return obs


def _py_seq(seq):
    return ("from pyoda_time import Duration, Instant\nfrom pyoda_time.testing import FakeClock\n\n"
            "def test_replay():\n    # operations (name, nanoseconds or unit count); advance_* must complete and match now+auto model\n"
            "    seq = %r\n    clock = FakeClock(Instant.from_unix_time_ticks(0))\n"
            "    import threading\n    def body():\n        for op in seq:\n"
            "            if op[0]=='read': clock.get_current_instant()\n"
            "            elif op[0]=='advance': clock.advance(Duration.from_nanoseconds(op[1]))\n"
            "            elif op[0].startswith('advance_'): getattr(clock, op[0])(op[1])\n"
            "            elif op[0]=='reset': clock.reset(Instant.from_unix_time_ticks(0).plus_nanoseconds(op[1]))\n"
            "            elif op[0]=='set_auto': clock.auto_advance = Duration.from_nanoseconds(op[1])\n"
            "    t = threading.Thread(target=body, daemon=True); t.start(); t.join(10)\n"
            "    assert not t.is_alive(), 'clock operation deadlocked'\n" % (seq,))


# ---- sequential exploration, sharded by the first operation -------------------------------------

_SEQ_CFG = {}


def _seq_shard(first_idx):
    tier, depth = _SEQ_CFG["tier"], _SEQ_CFG["depth"]
    ops = alphabet(tier)
    acc = Acc()
    first = ops[first_idx]
    finals = set()
    for init_auto in (0, 10**9):       # start from a non-initial configuration too (auto-advance given to the constructor)
        for d in range(0, depth):
            for rest in itertools.product(ops, repeat=d):
                seq = (first,) + rest
                acc.count(evaluations=1, states=1)
                obs = run_sequence_fast(seq, acc, init_auto)
                finals.add((init_auto, obs))
    acc.count(nontrivial=len(finals))
    if first_idx < 3:
        acc.sample({"sequence": ((first,) + tuple(ops[:depth - 1])), "model_final": "see outcomes"})
    return acc


def run_sequence_fast(seq, acc, init_auto=0):
    """Same comparison as run_sequence but without a scheduler (used once completion of every operation kind has
    been established by the scheduled runs - a deadlocking operation would hang here, so those kinds are skipped)."""
    clock = FakeClock(mk_instant(0), Duration.from_nanoseconds(init_auto)) if init_auto else FakeClock(mk_instant(0))
    st = [0, init_auto]
    seq0 = seq
    if init_auto:
        seq = (("ctor_auto", init_auto),) + tuple(seq)   # recorded in replays; skipped when applying
    for i, op in enumerate(seq):
        if op[0] == "ctor_auto":
            continue
        if op[0] in _SEQ_CFG["hanging"]:
            return ("skipped-hanging", op[0])
        exp_raise = False
        try:
            exp = apply_model(st, op)
        except Raises:
            exp_raise = True
            exp = None
        acc.count(transitions=1)
        try:
            got = apply_impl(clock, op)
        except sched.LockTimeout:
            acc.violation("C19/seq/never-completes/%s" % op[0], "operation %r does not complete after %r (the clock's lock is still held)" % (op, seq[:i]),
                          {"kind": "seq", "seq": seq[:i + 1]}, py=_py_seq(seq[:i + 1]))
            return ("viol",)
        except (ValueError, OverflowError) as e:
            if exp_raise:
                continue
            acc.violation("C19/seq/unexpected-%s/%s" % (type(e).__name__, op[0]),
                          "operation %r raised %r after %r" % (op, e, seq[:i]), {"kind": "seq", "seq": seq[:i + 1]},
                          py=_py_seq(seq[:i + 1]))
            return ("viol",)
        except Exception as e:  # noqa: BLE001
            if exc_origin(e) == "harness":
                raise
            acc.violation("C19/seq/unexpected-%s/%s" % (type(e).__name__, op[0]),
                          "operation %r raised %r after %r" % (op, e, seq[:i]), {"kind": "seq", "seq": seq[:i + 1]},
                          py=_py_seq(seq[:i + 1]))
            return ("viol",)
        if exp_raise:
            acc.violation("C19/seq/no-raise/%s" % op[0], "operation %r left the Instant range but returned %r (history %r)" % (op, got, seq[:i]),
                          {"kind": "seq", "seq": seq[:i + 1]}, py=_py_seq(seq[:i + 1]))
            return ("viol",)
        if got != exp:
            acc.violation("C19/seq/result/%s" % op[0], "after %r, %r returned %r, model says %r" % (seq[:i], op, got, exp),
                          {"kind": "seq", "seq": seq[:i + 1], "expected": exp, "got": got}, py=_py_seq(seq[:i + 1]))
            return ("viol",)
    # final observable state must equal the model's too
    try:
        fin = (ins_ns(clock.get_current_instant()) if MIN_NS <= st[0] + st[1] <= MAX_NS else None, clock.auto_advance.to_nanoseconds())
    except sched.LockTimeout:
        acc.violation("C19/seq/never-completes/final-read", "a read does not complete after %r (the clock's lock is still held)" % (seq,),
                      {"kind": "seq", "seq": seq}, py=_py_seq(seq))
        return ("viol",)
    except (ValueError, OverflowError) as e:
        acc.violation("C19/seq/final-read-raises", "after %r a read raised %r although the model stays inside the Instant range" % (seq, e),
                      {"kind": "seq", "seq": seq}, py=_py_seq(seq))
        return ("viol",)
    exp_fin = (st[0] if fin[0] is not None else None, st[1])
    if fin != exp_fin:
        acc.violation("C19/seq/final-state", "after %r the clock is at %r, model says %r" % (seq, fin, exp_fin),
                      {"kind": "seq", "seq": seq}, py=_py_seq(seq))
    return exp_fin


# ---- threads -----------------------------------------------------------------------------------

THREAD_OPS = {
    "read": lambda c: ins_ns(c.get_current_instant()),
    "advance": lambda c: c.advance(Duration.from_nanoseconds(7)),
    "advance_seconds": lambda c: c.advance_seconds(100),
    "reset": lambda c: c.reset(mk_instant(10**15)),
    "set_auto": lambda c: setattr(c, "auto_advance", Duration.from_nanoseconds(3 * 10**9)),
    # reset to the very Instant OBJECT the clock was constructed with (an identity-based "nothing changed" test in the
    # clock is fooled only by this): the ABA shape, used as the second operation of a thread
    "reset_initial": lambda c: c.reset(_T0_OBJECT),
}
_T0_OBJECT = mk_instant(0)


def seq_model_outcomes(threads_ops):
    """all outcomes (per-thread read results, final now, final auto) of sequential interleavings of whole operations"""
    n = len(threads_ops)
    outs = set()

    def rec(pos, st, res):
        if all(pos[i] == len(threads_ops[i]) for i in range(n)):
            outs.add((tuple(tuple(r) for r in res), st[0], st[1]))
            return
        for i in range(n):
            if pos[i] < len(threads_ops[i]):
                op = threads_ops[i][pos[i]]
                st2 = list(st)
                res2 = [list(r) for r in res]
                if op == "read":
                    res2[i].append(st2[0])
                    st2[0] += st2[1]
                elif op == "advance":
                    st2[0] += 7
                elif op == "advance_seconds":
                    st2[0] += 100 * 10**9
                elif op == "reset":
                    st2[0] = 10**15
                elif op == "set_auto":
                    st2[1] = 3 * 10**9
                elif op == "reset_initial":
                    st2[0] = 0
                pos2 = list(pos)
                pos2[i] += 1
                rec(pos2, st2, res2)

    rec([0] * n, [0, 10**9], [[] for _ in range(n)])
    return outs


def _thread_harness(cfg):
    threads_ops, bound, opcodes, max_runs = cfg
    acc = Acc()
    allowed = seq_model_outcomes(threads_ops)

    def make():
        clock = FakeClock(_T0_OBJECT, Duration.from_nanoseconds(10**9))

        def body(ops):
            def f():
                out = []
                for o in ops:
                    r = THREAD_OPS[o](clock)
                    if o == "read":
                        out.append(r)
                return out
            return f
        return [body(ops) for ops in threads_ops], {"clock": clock}

    def check(s, c):
        if s.status != "OK":
            return (s.status,), "execution does not complete: %s" % s.status
        if any(e is not None for e in s.errors):
            e = [e for e in s.errors if e is not None][0]
            if exc_origin(e) == "harness" and not isinstance(e, sched.Abort):
                raise e
            return ("error", type(e).__name__), "thread raised %r" % (e,)
        clock = c["clock"]
        reads = tuple(tuple(r) for r in s.results)
        auto = clock.auto_advance.to_nanoseconds()
        clock.auto_advance = Duration.zero
        now = ins_ns(clock.get_current_instant())
        out = (reads, now, auto)
        flat = [x for r in reads for x in r]
        if len(set(flat)) != len(flat) and not any(o.startswith("reset") for t in threads_ops for o in t):
            return out, "two reads returned the same instant with a non-zero auto-advance: %r" % (reads,)
        if out not in allowed:
            return out, "outcome %r is not the result of any sequential order of the operations" % (out,)
        return out, None

    r = sched.explore(make, ("_fake_clock.py",), bound, opcodes, check, max_runs, max_seconds=600)
    name = "|".join(",".join(t) for t in threads_ops)
    acc.count(states=r["runs"], evaluations=r["runs"], transitions=r["runs"] * max(1, r["points_max"]),
              nontrivial=len(r["outcomes"]))
    for o, n in r["outcomes"].items():
        acc.outcome("%s => %r" % (name, o), n)
    if r["capped"]:
        acc.cap("threads %s bound %d opcodes=%s capped at %d executions" % (name, bound, opcodes, max_runs))
    for label, what, schedule in r["violations"]:
        acc.violation("C19/threads/%s/%s" % (name, label[0] if isinstance(label[0], str) else "outcome"),
                      "%s [threads %s, preemption bound %d, %s granularity]" % (what, name, bound, "opcode" if opcodes else "line"),
                      {"kind": "threads", "threads": threads_ops, "schedule": schedule, "opcodes": opcodes})
    acc.sample({"threads": threads_ops, "bound": bound, "opcodes": opcodes, "executions": r["runs"], "outcomes": len(r["outcomes"])})
    return acc


def _system_clock_harness(cfg):
    """two threads reading SystemClock.instance while the OS clock (behind a seam) shows one and the same value:
    both must get exactly that value, whatever was read before (a coarse OS clock makes equal readings normal)"""
    bound, opcodes, max_runs = cfg
    acc = Acc()
    import pyoda_time._system_clock as sc

    class _FakeTime:
        def __init__(self):
            self.now = 0

        def time_ns(self):
            return self.now
    fake = _FakeTime()
    X0, X = 1_700_000_000_000_000_000, 1_700_000_061_000_000_000

    def make():
        sc.time = fake
        fake.now = X0
        SystemClock.instance.get_current_instant()          # an earlier, different reading
        fake.now = X
        return [lambda: ins_ns(SystemClock.instance.get_current_instant()), lambda: ins_ns(SystemClock.instance.get_current_instant())], {}

    def check(s, c):
        if s.status != "OK":
            return (s.status,), "execution does not complete: %s" % s.status
        if any(e is not None for e in s.errors):
            e = [e for e in s.errors if e is not None][0]
            if exc_origin(e) == "harness" and not isinstance(e, sched.Abort):
                raise e
            return ("error", type(e).__name__), "thread raised %r" % (e,)
        out = tuple(s.results)
        return out, (None if out == (X, X) else "two threads read the system clock while the OS time was %d ns: got %r" % (X, out))
    real_time = sc.time
    try:
        r = sched.explore(make, ("_system_clock.py",), bound, opcodes, check, max_runs, max_seconds=120)
    finally:
        sc.time = real_time
    acc.count(states=r["runs"], evaluations=r["runs"], transitions=r["runs"] * max(1, r["points_max"]), nontrivial=len(r["outcomes"]))
    for o, n in r["outcomes"].items():
        acc.outcome("system|system => %r" % (o,), n)
    if r["capped"]:
        acc.cap("threads system|system capped at %d executions" % max_runs)
    for label, what, schedule in r["violations"]:
        acc.violation("C19/threads/system-clock/%s" % ("outcome" if not isinstance(label[0], str) else label[0]),
                      "%s [preemption bound %d, %s granularity]" % (what, bound, "opcode" if opcodes else "line"),
                      {"kind": "system-threads", "schedule": schedule, "opcodes": opcodes})
    acc.sample({"threads": "system|system", "bound": bound, "opcodes": opcodes, "executions": r["runs"]})
    return acc


# ---- ZonedClock / SystemClock ----------------------------------------------------------------

def zoned_and_system(acc: Acc):
    tz = DateTimeZoneProviders.tzdb
    zones = [DateTimeZone.utc, tz["Europe/London"], tz["Pacific/Apia"], tz["Australia/Lord_Howe"], DateTimeZone.for_offset(__import__("pyoda_time").Offset.from_hours_and_minutes(5, 30))]
    cals = [CalendarSystem.iso, CalendarSystem.julian, CalendarSystem.hebrew_civil, CalendarSystem.coptic]
    instants = [0, 1, -1, NS_DAY - 1, NS_DAY, -NS_DAY, 1_325_203_200 * 10**9, 1_325_203_200 * 10**9 - 1,  # Apia date-line jump 2011-12-30
                1_616_893_200 * 10**9, 1_616_893_200 * 10**9 - 1, 1_616_893_200 * 10**9 + 1,  # London spring forward 2021-03-28 01:00Z
                4_102_444_800 * 10**9 + 123_456_789, -2_208_988_800 * 10**9 + 999_999_999]
    epoch = _dt.datetime(1970, 1, 1)
    def check_zc(zc, ns, inst, z, cal, route):
        acc.count(states=1, evaluations=1, transitions=6, nontrivial=1)
        off = z.get_utc_offset(inst).seconds
        local_ns = ns + off * 10**9
        days, nod = divmod(local_ns, NS_DAY)
        pyd = (epoch + _dt.timedelta(days=days)).date()
        try:
            if ins_ns(zc.get_current_instant()) != ns:
                acc.violation("C19/zoned%s/instant" % route, "ZonedClock.get_current_instant differs from the wrapped clock", {"ns": ns, "zone": z.id, "route": route})
            zdt = zc.get_current_zoned_date_time()
            ldt = zc.get_current_local_date_time()
            odt = zc.get_current_offset_date_time()
            d = zc.get_current_date()
            t = zc.get_curent_time_of_day()
            iso_d = d.with_calendar(CalendarSystem.iso)
            got = (ins_ns(zdt.to_instant()), zdt.zone.id, zdt.calendar.id, zdt.offset.seconds,
                   ins_ns(odt.to_instant()), odt.offset.seconds, odt.calendar.id,
                   (iso_d.year, iso_d.month, iso_d.day), d.calendar.id, t.nanosecond_of_day,
                   ldt.date == d, ldt.time_of_day == t, zdt.local_date_time == ldt, odt.local_date_time == ldt)
            exp = (ns, z.id, cal.id, off, ns, off, cal.id, (pyd.year, pyd.month, pyd.day), cal.id, nod, True, True, True, True)
            if got != exp:
                acc.violation("C19/zoned%s/render/%s" % (route, cal.id), "ZonedClock%s getters give %r, model %r" % (route and " obtained through " + route, got, exp),
                              {"ns": ns, "zone": z.id, "calendar": cal.id, "route": route})
            acc.outcome("zoned-ok" + route)
        except Exception as e:  # noqa: BLE001
            acc.lib_exception("C19/zoned" + route, e, {"ns": ns, "zone": z.id, "calendar": cal.id, "route": route})

    for ns in instants:
        inst = mk_instant(ns)
        for z in zones:
            for cal in cals:
                fc = FakeClock(inst, Duration.from_nanoseconds(0))
                zc = fc.in_zone(z, cal)
                check_zc(zc, ns, inst, z, cal, "")
                # a ZonedClock is itself a clock: the IClock conveniences applied to it must behave as on the wrapped clock
                # (documented default calendar ISO, whatever the calendar of the receiver)
                try:
                    z2 = zones[(zones.index(z) + 1) % len(zones)]
                    check_zc(zc.in_zone(z2), ns, inst, z2, CalendarSystem.iso, "/nested:in_zone")
                    check_zc(zc.in_zone(z2, CalendarSystem.coptic), ns, inst, z2, CalendarSystem.coptic, "/nested:in_zone+calendar")
                    check_zc(zc.in_utc(), ns, inst, DateTimeZone.utc, CalendarSystem.iso, "/nested:in_utc")
                    check_zc(fc.in_utc(), ns, inst, DateTimeZone.utc, CalendarSystem.iso, "/in_utc")
                    check_zc(ZonedClock(zc, z2, cal), ns, inst, z2, cal, "/nested:ctor")
                except Exception as e:  # noqa: BLE001
                    acc.lib_exception("C19/zoned/nested", e, {"ns": ns, "zone": z.id, "calendar": cal.id})
    # SystemClock: the OS time behind a seam
    real = _time.time_ns
    try:
        for ns in [0, 1, 999, 10**9 - 1, 1_700_000_000_123_456_789, 253_402_300_799 * 10**9 + 999_999_999]:
            _time.time_ns = lambda ns=ns: ns
            import pyoda_time._system_clock as sc
            saved = sc.time.time_ns
            sc.time.time_ns = _time.time_ns
            try:
                got = ins_ns(SystemClock.instance.get_current_instant())
            finally:
                sc.time.time_ns = saved
            acc.count(states=1, evaluations=1, transitions=1, nontrivial=1)
            if got != ns:
                acc.violation("C19/system/ns", "SystemClock returned %d ns for an OS time of %d ns" % (got, ns), {"ns": ns})
        if SystemClock.instance is not SystemClock.instance:
            acc.violation("C19/system/singleton", "SystemClock.instance is not a singleton", {})
    finally:
        _time.time_ns = real
    a = real()
    got = ins_ns(SystemClock.instance.get_current_instant())
    b = real()
    acc.count(evaluations=1)
    if not (a <= got <= b):
        acc.violation("C19/system/os-time", "SystemClock %d not within [%d, %d]" % (got, a, b), {})


def zoned_histories(acc: Acc, depth):
    """ONE ZonedClock over a FakeClock; every sequence (length <= depth) of clock movements across and around real
    transitions, reading every getter after each step.  Oracle: the reading depends on the current instant only."""
    tz = DateTimeZoneProviders.tzdb
    cases = [("Europe/London", CalendarSystem.iso), ("Australia/Lord_Howe", CalendarSystem.julian), ("Pacific/Apia", CalendarSystem.hebrew_civil)]
    epoch = _dt.datetime(1970, 1, 1)
    for zid, cal in cases:
        z = tz[zid]
        zi = z.get_zone_interval(mk_instant(1_600_000_000 * 10**9))
        if not (zi.has_start and zi.has_end):
            continue
        a, b = ins_ns(zi.start), ins_ns(zi.end)          # two consecutive real transitions
        targets = [a - 3600 * 10**9, a - 1, a, a + 1, (a + b) // 2, b - 1, b, b + 3600 * 10**9]
        # local-day boundaries around both transitions (a reading remembered "until the end of the local day" is only wrong
        # on a day whose length was changed by a transition): local midnights of the surrounding days +- 30 min
        for T in (a, b):
            for side_off in {z.get_utc_offset(mk_instant(T - 1)).seconds, z.get_utc_offset(mk_instant(T)).seconds}:
                day0 = ((T + side_off * 10**9) // NS_DAY) * NS_DAY - side_off * 10**9     # UTC instant of local midnight of T's day
                for k in (0, 1):
                    for eps in (-1800 * 10**9, 1800 * 10**9):
                        targets.append(day0 + k * NS_DAY + eps)
        targets = sorted(set(targets))
        moves = [("reset", t) for t in targets] + [("advance", d) for d in (b - a, a - b, 1, -1)]

        def expect(ns):
            off = z.get_utc_offset(mk_instant(ns)).seconds
            days, nod = divmod(ns + off * 10**9, NS_DAY)
            pyd = (epoch + _dt.timedelta(days=days)).date()
            return (ns, off, (pyd.year, pyd.month, pyd.day), nod)

        def reading(zc):
            zdt = zc.get_current_zoned_date_time()
            odt = zc.get_current_offset_date_time()
            d = zc.get_current_date().with_calendar(CalendarSystem.iso)
            t = zc.get_curent_time_of_day()
            ldt = zc.get_current_local_date_time()
            i2 = ldt.with_calendar(CalendarSystem.iso)
            return (ins_ns(zc.get_current_instant()), zdt.offset.seconds, (d.year, d.month, d.day), t.nanosecond_of_day,
                    ins_ns(zdt.to_instant()), odt.offset.seconds, ins_ns(odt.to_instant()), (i2.year, i2.month, i2.day), ldt.nanosecond_of_day, zdt.calendar.id)
        n = 0
        for dlen in range(1, depth + 1):
            for seq in itertools.product(moves, repeat=dlen):
                start_at = (a + b) // 2
                fc = FakeClock(mk_instant(start_at))
                zc = fc.in_zone(z, cal)
                now = start_at
                n += 1
                acc.count(evaluations=1)
                try:
                    reading(zc)                      # a first reading, so that anything cached is cached
                    for i, (kind, v) in enumerate(seq):
                        if kind == "reset":
                            fc.reset(mk_instant(v))
                            now = v
                        else:
                            fc.advance(Duration.from_nanoseconds(v))
                            now += v
                        acc.count(transitions=1)
                        e = expect(now)
                        got = reading(zc)
                        exp = (e[0], e[1], e[2], e[3], e[0], e[1], e[0], e[2], e[3], cal.id)
                        if got != exp:
                            acc.violation("C19/zoned-history/%s" % zid,
                                          "after clock movements %r a reading on the same ZonedClock gives %r, the instant/zone/calendar model says %r" % (seq[:i + 1], got, exp),
                                          {"kind": "zoned-history", "zone": zid, "calendar": cal.id, "moves": [list(m) for m in seq[:i + 1]]})
                            raise StopIteration
                except StopIteration:
                    break
                except Exception as e:  # noqa: BLE001
                    acc.lib_exception("C19/zoned-history/%s" % zid, e, {"zone": zid, "moves": [list(m) for m in seq]})
                    break
            else:
                continue
            break
        acc.count(states=n, nontrivial=n)
        acc.outcome("zoned-history:%s" % zid)
        acc.sample({"zoned_history": zid, "calendar": cal.id, "transitions_ns": [a, b], "moves": len(moves), "depth": depth, "histories": n})


# ---- driver --------------------------------------------------------------------------------------

def run(ctx):
    tier = ctx.tier
    ctx.rule = ("sequential: every operation sequence up to the stated depth over the operation alphabet, replayed on a fresh "
                "FakeClock and compared step by step with the now/auto-advance model (non-trivial = distinct final model states); "
                "threads: every schedule of the 2-3 thread harnesses within the preemption bound (non-trivial = distinct outcomes); "
                "zoned/system: product of instants x zones x calendars")
    ctx.assumptions = ["CPython GIL: interleavings happen only between bytecodes of traced files (testing/_fake_clock.py) and at lock operations",
                       "amount alphabet is finite (see samples); Instant range ends included"]
    # 1. completion of every operation kind, under the scheduler (a self-deadlock is reported, not hung on)
    ops = alphabet(tier)
    hanging = set()
    acc = Acc()
    for op in ops:
        before = len(acc.violations)
        run_sequence([op], acc)
        run_sequence([("set_auto", 10**9), ("read",), op, ("read",)], acc)
        if len(acc.violations) > before and any("deadlock" in k or "livelock" in k for k in list(acc.violations)[before:]):
            hanging.add(op[0])
        acc.count(states=2, evaluations=2, nontrivial=1)
    ctx.merge_part("completion", acc)
    # 2. all sequences
    depth = 3 if tier == "quick" else 4
    _SEQ_CFG.update(tier=tier, depth=depth, hanging=hanging)
    for a in pmap(_seq_shard, range(len(ops))):
        ctx.merge_part("sequences", a)
    ctx.note("sequence_depth", depth)
    ctx.note("alphabet_size", len(ops))
    ctx.note("operation_kinds_skipped_because_they_hang", sorted(hanging))
    # 3. threads
    ok_ops = [o for o in ("read", "advance", "advance_seconds", "reset", "set_auto") if o not in hanging]
    harnesses = []
    two = [(("read",), ("read",)), (("read", "read"), ("read",)), (("read",), ("advance",)), (("read",), ("reset",)),
           (("read",), ("set_auto",)), (("advance",), ("advance",)), (("read", "read"), ("read", "read"))]
    if "advance_seconds" in ok_ops:
        two += [(("read",), ("advance_seconds",)), (("advance_seconds",), ("advance",))]
    # ABA shapes: thread B changes something and then puts the clock back onto its initial Instant object
    aba_first = ("set_auto", "advance", "reset") if tier == "quick" else tuple(o for o in ok_ops)
    for first in aba_first:
        if first in ok_ops and "reset" in ok_ops:
            two.append((("read",), (first, "reset_initial")))
    for t in two:
        harnesses.append((t, 2, True, 20000 if tier == "quick" else 200000))
    three = [(("read",), ("read",), ("read",)), (("read",), ("read",), ("advance",)), (("read",), ("reset",), ("read",))]
    for t in three:
        harnesses.append((t, 2, True, 4000 if tier == "quick" else 150000))
    for a in pmap(_thread_harness, harnesses):
        ctx.merge_part("threads", a)
    for a in pmap(_system_clock_harness, [(2, True, 20000)]):
        ctx.merge_part("threads", a)
    # 4. zoned + system
    acc = Acc()
    zoned_and_system(acc)
    ctx.merge_part("zoned_system", acc)
    acc = Acc()
    zoned_histories(acc, 2 if tier == "quick" else 3)
    ctx.merge_part("zoned_histories", acc)
    ctx.exhaustive = not ctx.caps


def replay(rec):
    case = rec.get("case") or {}
    acc = Acc()
    if case.get("kind") == "seq":
        run_sequence([tuple(o) for o in case["seq"]], acc)
    elif case.get("kind") == "threads":
        a = _thread_harness((tuple(tuple(t) for t in case["threads"]), 2, bool(case.get("opcodes")), 50000))
        acc.merge(a)
    for k, v in acc.violations.items():
        print(k, v[0])
    return bool(acc.violations)
