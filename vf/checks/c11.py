"""C11 - OffsetDateTime / OffsetDate / OffsetTime / ZonedDateTime keep instant, local time, offset, calendar in step.

Model checking, six exhaustive parts over explicit finite alphabets, each in lock-step with the int model
vf/models/offsetref.py:

  odt      breadth-first exploration (depth 2) of every operation sequence over an operation alphabet (with_offset,
           with_calendar, +/- Duration in all spellings, date/time adjusters, conversions through OffsetDate,
           OffsetTime, LocalDateTime, fixed-zone ZonedDateTime) from every (instant x offset x calendar) initial state.
           States are canonicalised (local day, nanosecond of day, offset, calendar) and de-duplicated globally.
  zdt      the same for ZonedDateTime over (instant x zone x calendar) with +/- Duration, instants placed on and
           next to real transitions of the zones (offset must be re-derived from the zone).
  zlocal   ZonedDateTime(local, zone, offset) around every transition of each zone (inside / just outside gaps and overlaps,
           offsets before / after / unrelated): accepted exactly when the zone's offset at local - offset is that offset.
  zstart   DateTimeZone.at_start_of_day / LocalDate.at_start_of_day_in_zone on the dates around every transition (midnight gaps
           included) in ISO and non-ISO calendars: earliest instant of the date, zone and calendar retained, result.date == date.
  zclock   histories: one ZonedClock over one FakeClock per history, EVERY sequence of <= 3 clock movements (advance to the
           next transition, advance back to 1 ns before the current interval, +/-1 ns, negative auto-advance, reset to
           instants on / next to real transitions) with every getter read after each movement, for the zones with
           transitions in ISO and non-ISO calendars (a reading must not depend on earlier readings of the same object).
  offsets  complete sweep of ALL 129,601 offsets of the +/-18 h range (x a nanosecond-of-day alphabet containing the
           bit-46/47 packing boundaries) through OffsetTime packing, Instant.with_offset and with_offset(-o).
"""
from __future__ import annotations

import array

from pyoda_time import (  # noqa: E402
    CalendarSystem,
    DateTimeZone,
    DateTimeZoneProviders,
    Duration,
    Instant,
    LocalDate,
    LocalDateTime,
    LocalTime,
    Offset,
    OffsetDate,
    OffsetDateTime,
    OffsetTime,
    Period,
    ZonedDateTime,
)

from vf.core.evidence import Acc, exc_origin
from vf.core.par import chunks, pmap
from vf.models import offsetref as R

LEVEL = "model_checking"
NSD = R.NSD
H = 3600 * 10**9
RAISES = R.RAISES

# Noda Time's OffsetDateTime.InZone keeps the calendar; this tree's goes through Instant.in_zone (ISO).  The property
# statement does not name in_zone, so this is recorded as an outcome/note, not demanded.
STRICT_IN_ZONE_CALENDAR = False

EPOCH = Instant.from_unix_time_ticks(0)
ISO = CalendarSystem.iso
ISO_EPOCH = LocalDate(1970, 1, 1)


# ------------------------------------------------------------------------------------------------ binding helpers

def ins_ns(i: Instant) -> int:
    return (i - EPOCH).to_nanoseconds()


def mk_instant(ns: int) -> Instant:
    return EPOCH.plus_nanoseconds(ns)


_DUR = {}


def mk_dur(ns: int) -> Duration:
    d = _DUR.get(ns)
    if d is None:
        d = _DUR[ns] = Duration.from_nanoseconds(ns)
    return d


_OFF = {}


def mk_off(s: int) -> Offset:
    o = _OFF.get(s)
    if o is None:
        o = _OFF[s] = Offset.from_seconds(s)
    return o


def _day_public(date: LocalDate) -> int:
    return Period.days_between(ISO_EPOCH, date.with_calendar(ISO))


def _day_private(date: LocalDate) -> int:
    return date._days_since_epoch


day_of = _day_public


class Env:
    pass


ENV = None


def _probe_day(cal, d):
    try:
        ISO_EPOCH.plus_days(d).with_calendar(cal)
        return True
    except Exception as e:  # noqa: BLE001
        if exc_origin(e) == "harness":
            raise
        return False


def _bisect_range(cal):
    iso_lo, iso_hi = _day_public(LocalDate.min_iso_value), _day_public(LocalDate.max_iso_value)
    assert _probe_day(cal, 0)
    lo, hi = iso_lo - 1, 0          # lo invalid (or iso bound), hi valid
    while hi - lo > 1:
        mid = (lo + hi) // 2
        if _probe_day(cal, mid):
            hi = mid
        else:
            lo = mid
    mn = hi
    lo, hi = 0, iso_hi + 1
    while hi - lo > 1:
        mid = (lo + hi) // 2
        if _probe_day(cal, mid):
            lo = mid
        else:
            hi = mid
    return mn, lo


def env() -> Env:
    """Built once in the main process before forking; every worker inherits it."""
    global ENV, day_of
    if ENV is not None:
        return ENV
    E = Env()
    E.degraded = []
    # day numbers: private fast path if it agrees with the public one on a probe set
    try:
        probes = [LocalDate(1970, 1, 1), LocalDate(2024, 2, 29), LocalDate(-9998, 1, 1), LocalDate(9999, 12, 31),
                  LocalDate(5784, 7, 1, CalendarSystem.hebrew_scriptural), LocalDate(1, 1, 1, CalendarSystem.coptic)]
        if all(_day_private(p) == _day_public(p) for p in probes):
            day_of = _day_private
        else:
            E.degraded.append("LocalDate._days_since_epoch disagrees with Period.days_between; public path used")
    except Exception:  # noqa: BLE001
        E.degraded.append("LocalDate._days_since_epoch not reachable; public path used (slower)")
    E.cal_ids = list(CalendarSystem.ids)
    E.cals = {c: CalendarSystem.for_id(c) for c in E.cal_ids}
    cal_days = {}
    for cid, cal in E.cals.items():
        rng = None
        try:
            mn, mx = cal._min_days, cal._max_days
            iso_lo, iso_hi = _day_public(LocalDate.min_iso_value), _day_public(LocalDate.max_iso_value)
            ok = _probe_day(cal, mn) and _probe_day(cal, mx)
            if mn - 1 >= iso_lo:
                ok = ok and not _probe_day(cal, mn - 1)
            if mx + 1 <= iso_hi:
                ok = ok and not _probe_day(cal, mx + 1)
            if ok:
                rng = (mn, mx)
            else:
                E.degraded.append("calendar %s: _min_days/_max_days disagree with what with_calendar accepts; range found by bisection" % cid)
        except AttributeError:
            E.degraded.append("CalendarSystem._min_days/_max_days not reachable; ranges found by bisection")
        if rng is None:
            rng = _bisect_range(cal)
        cal_days[cid] = rng
    E.ranges = R.Ranges(ins_ns(Instant.min_value), ins_ns(Instant.max_value), cal_days)
    # harness self-check: instants and durations are built exactly
    for ns in (0, 1, -1, E.ranges.imin, E.ranges.imax, 19782 * NSD + 2**46, -NSD - 1):
        if ins_ns(mk_instant(ns)) != ns or mk_dur(ns).to_nanoseconds() != ns:
            raise RuntimeError("harness cannot build instant/duration %d exactly through the public API" % ns)
    tz = DateTimeZoneProviders.tzdb
    E.zones = [("UTC", DateTimeZone.utc), ("UTC+05:30", DateTimeZone.for_offset(mk_off(19800)))]
    for zid in ("Europe/London", "Pacific/Apia", "Australia/Lord_Howe", "America/St_Johns", "Pacific/Kiritimati"):
        try:
            E.zones.append((zid, tz[zid]))
        except Exception:  # noqa: BLE001
            E.degraded.append("zone %s not available from the tzdb provider" % zid)
    # fixed zones that are NOT the canonical for_offset zone of their offset: tz database ids with their own id / name, and a
    # user-made fixed zone; a value must keep exactly its zone through every operation documented to retain it
    for zid in ("Etc/GMT+5", "EST", "Etc/UTC", "GMT"):
        try:
            z = tz[zid]
            if z.id == zid:
                E.zones.append((zid, z))
        except Exception:  # noqa: BLE001
            E.degraded.append("zone %s not available from the tzdb provider" % zid)
    try:
        from pyoda_time.time_zones._fixed_date_time_zone import _FixedDateTimeZone
        E.zones.append(("My/Fixed", _FixedDateTimeZone(mk_off(12600), "My/Fixed", "MYF")))
    except Exception:  # noqa: BLE001
        E.degraded.append("_FixedDateTimeZone constructor not reachable; no user-made fixed zone in the zone alphabet")
    ENV = E
    return E


_EXP_DATE = {}


def expected_date(day: int, cal_id: str) -> LocalDate:
    """The LocalDate of a day number in a calendar, built through LocalDate arithmetic (not through OffsetDateTime)."""
    k = (day, cal_id)
    d = _EXP_DATE.get(k)
    if d is None:
        if len(_EXP_DATE) > 200_000:
            _EXP_DATE.clear()
        d = _EXP_DATE[k] = ISO_EPOCH.plus_days(day).with_calendar(env().cals[cal_id])
    return d


def canon(v) -> tuple:
    """Canonical state of an OffsetDateTime seen from its local side."""
    return (day_of(v.date), v.nanosecond_of_day, v.offset.seconds, v.calendar.id)


def hkey(t) -> int:
    return hash(t)


# ------------------------------------------------------------------------------------------------ alphabets

OFFS_FULL = [0, 1, -1, 19800, -19800, 45901, -45901, 64799, -64799, 64800, -64800]
OFFS_QUICK = [0, 1, -1, 19800, 45901, -45901, 64799, 64800, -64800]
DURS = [0, 1, -1, 10**9, -10**9, NSD - 1, -(NSD - 1), NSD, -NSD, 36 * H, -36 * H, 49 * H, -49 * H]
UNIT_NS = {"hours": H, "minutes": 60 * 10**9, "seconds": 10**9, "milliseconds": 10**6, "ticks": 100, "nanoseconds": 1}
PLUS_UNITS = [("hours", 49), ("hours", -49), ("minutes", 2160), ("minutes", -2160), ("seconds", 1), ("seconds", -1),
              ("milliseconds", 86_400_000), ("milliseconds", -86_400_000), ("ticks", 1), ("ticks", -1),
              ("nanoseconds", 1), ("nanoseconds", -1)]
D2024 = 19782            # 2024-02-29
BIT46 = 2**46            # 19:32:48.744177664 - the top bit of the 47-bit nanosecond field


def base_instants(tier, seed, rg):
    xs = [0, -1, 1, D2024 * NSD - 1, D2024 * NSD, D2024 * NSD + 12 * H, D2024 * NSD + BIT46 - 1, D2024 * NSD + BIT46,
          rg.imin, rg.imax, rg.imin + NSD, rg.imax - NSD]
    if tier == "thorough":
        xs += [D2024 * NSD + 1, D2024 * NSD + BIT46 + 1, rg.imin + 1, rg.imax - 1, -NSD, NSD - 1, -100 * NSD + 6 * H + 1]
    # the seed positions one extra day boundary; the verdict never depends on it
    k = (seed * 104729) % 20000
    extra = k * NSD - 1
    if extra not in xs:
        xs.append(extra)
    return xs


def odt_ops(tier, E, depth=1):
    offs = OFFS_FULL if tier == "thorough" else OFFS_QUICK
    ops = [("with_offset", o) for o in offs]
    ops += [("with_calendar", c) for c in E.cal_ids]
    for d in DURS:
        ops.append(("add", d))
        ops.append(("sub", d))
    ops += [("add_to_max",), ("add_over_max",), ("sub_to_min",), ("sub_under_min",)]
    for d in (1, -49 * H):
        ops += [("plus", d), ("minus", d), ("s_add", d), ("s_subtract", d)]
    ops += [("plus_unit", u, n) for u, n in PLUS_UNITS]
    ops += [("date_adj", 1), ("date_adj", -1), ("date_adj", 0), ("date_adj_cal", "Gregorian"), ("date_adj_cal", "Julian")]
    ops += [("time_adj", "midnight"), ("time_adj", "max"), ("time_adj", "plus_hours_1"), ("time_adj", "minus_ns_1")]
    for o in (0, 64800, -64800):
        ops += [("via_od_with_offset", o), ("via_ot_with_offset", o), ("via_ldt_with_offset", o)]
    ops += [("via_od_with_calendar", "Julian"), ("via_od_with_calendar", "Hebrew Civil"), ("via_od_date_adj", 1),
            ("via_ot_time_adj", "max"), ("via_fixed_zone",), ("via_ctor",)]
    ops += [("via_fixed_zone_add", d) for d in (1, -49 * H, 36 * H)]
    if tier == "quick" and depth == 2:
        # building a fixed zone costs ~1 ms (its id is formatted through a pattern): one such operation is kept at depth 2
        drop = {("via_fixed_zone",), ("via_fixed_zone_add", -49 * H), ("via_fixed_zone_add", 36 * H)}
        ops = [op for op in ops if op not in drop]
    return ops


def concrete(op, m, rg):
    """Resolve the state-relative operations ("exactly to / one past the range end") to a concrete duration."""
    k = op[0]
    if k == "add_to_max":
        return ("add", rg.imax - m.i)
    if k == "add_over_max":
        return ("add", rg.imax - m.i + 1)
    if k == "sub_to_min":
        return ("sub", m.i - rg.imin)
    if k == "sub_under_min":
        return ("sub", m.i - rg.imin + 1)
    return op


OPCLASS = {"create": "create", "with_offset": "with_offset", "with_calendar": "with_calendar", "add": "plus-duration", "plus": "plus-duration",
           "s_add": "plus-duration", "plus_unit": "plus-duration", "sub": "minus-duration", "minus": "minus-duration",
           "s_subtract": "minus-duration", "date_adj": "date-adjuster", "date_adj_cal": "date-adjuster",
           "time_adj": "time-adjuster"}


def opclass(op):
    return OPCLASS.get(op[0]) or ("conv:" + op[0][4:])


def _time_adj_nod(kind, nod):
    if kind == "midnight":
        return 0
    if kind == "max":
        return NSD - 1
    if kind == "plus_hours_1":
        return (nod + H) % NSD
    if kind == "minus_ns_1":
        return (nod - 1) % NSD
    raise AssertionError(kind)


def _time_adjuster(kind):
    if kind == "midnight":
        return lambda t: LocalTime.midnight
    if kind == "max":
        return lambda t: LocalTime.max_value
    if kind == "plus_hours_1":
        return lambda t: t.plus_hours(1)
    if kind == "minus_ns_1":
        return lambda t: t.plus_nanoseconds(-1)
    raise AssertionError(kind)


def model_apply(rg, m, op):
    k = op[0]
    if k == "with_offset":
        return R.m_with_offset(rg, m, op[1])
    if k in ("with_calendar", "via_od_with_calendar"):
        return R.m_with_calendar(rg, m, op[1])
    if k in ("add", "plus", "s_add", "via_fixed_zone_add"):
        return R.m_plus(rg, m, op[1])
    if k in ("sub", "minus", "s_subtract"):
        return R.m_plus(rg, m, -op[1])
    if k == "plus_unit":
        return R.m_plus(rg, m, op[2] * UNIT_NS[op[1]])
    if k in ("date_adj", "via_od_date_adj"):
        return R.m_shift_date(rg, m, op[1])
    if k == "date_adj_cal":
        return R.m_shift_date(rg, m, 0, op[1])
    if k in ("time_adj", "via_ot_time_adj"):
        return R.m_set_time(rg, m, _time_adj_nod(op[1], m.local()[1]))
    if k in ("via_od_with_offset", "via_ot_with_offset", "via_ldt_with_offset"):
        return R.m_same_local_new_offset(rg, m, op[1])
    if k in ("via_fixed_zone", "via_ctor"):
        return R.M(m.i, m.o, m.cal)
    raise AssertionError(op)


def impl_apply(v: OffsetDateTime, op):
    E = env()
    k = op[0]
    if k == "with_offset":
        return v.with_offset(mk_off(op[1]))
    if k == "with_calendar":
        return v.with_calendar(E.cals[op[1]])
    if k == "add":
        return v + mk_dur(op[1])
    if k == "sub":
        return v - mk_dur(op[1])
    if k == "plus":
        return v.plus(mk_dur(op[1]))
    if k == "minus":
        return v.minus(mk_dur(op[1]))
    if k == "s_add":
        return OffsetDateTime.add(v, mk_dur(op[1]))
    if k == "s_subtract":
        return OffsetDateTime.subtract(v, mk_dur(op[1]))
    if k == "plus_unit":
        return getattr(v, "plus_" + op[1])(op[2])
    if k == "date_adj":
        n = op[1]
        return v.with_date_adjuster(lambda d: d.plus_days(n))
    if k == "date_adj_cal":
        c = E.cals[op[1]]
        return v.with_date_adjuster(lambda d: d.with_calendar(c))
    if k == "time_adj":
        return v.with_time_adjuster(_time_adjuster(op[1]))
    if k == "via_od_with_offset":
        return v.to_offset_date().with_offset(mk_off(op[1])).at(v.time_of_day)
    if k == "via_od_with_calendar":
        return v.to_offset_date().with_calendar(E.cals[op[1]]).at(v.time_of_day)
    if k == "via_od_date_adj":
        n = op[1]
        return v.to_offset_date().with_date_adjuster(lambda d: d.plus_days(n)).at(v.time_of_day)
    if k == "via_ot_with_offset":
        return v.to_offset_time().with_offset(mk_off(op[1])).on(v.date)
    if k == "via_ot_time_adj":
        return v.to_offset_time().with_time_adjuster(_time_adjuster(op[1])).on(v.date)
    if k == "via_ldt_with_offset":
        return v.local_date_time.with_offset(mk_off(op[1]))
    if k == "via_fixed_zone":
        return v.in_fixed_zone().to_offset_date_time()
    if k == "via_fixed_zone_add":
        return (v.in_fixed_zone() + mk_dur(op[1])).to_offset_date_time()
    if k == "via_ctor":
        return OffsetDateTime(v.local_date_time, v.offset)
    raise AssertionError(op)


def create(i, o, cal_id):
    return mk_instant(i).with_offset(mk_off(o), env().cals[cal_id])


# ------------------------------------------------------------------------------------------------ odt: checks

def _cal_cls(cal_id):
    return "iso" if cal_id == "ISO" else "non-iso"


def _carry_cls(m, exp):
    c = exp.local()[0] - m.local()[0]
    return "carry%+d" % max(-3, min(3, c))


def _py_path(init, path, what):
    """Standalone pytest text for paths made of the simple operations; None otherwise."""
    lines = []
    for op in path:
        k = op[0]
        if k == "with_offset":
            lines.append("v = v.with_offset(Offset.from_seconds(%d))" % op[1])
        elif k == "with_calendar":
            lines.append("v = v.with_calendar(CalendarSystem.for_id(%r))" % op[1])
        elif k == "add":
            lines.append("v = v + Duration.from_nanoseconds(%d)" % op[1])
        elif k == "sub":
            lines.append("v = v - Duration.from_nanoseconds(%d)" % op[1])
        elif k == "plus_unit":
            lines.append("v = v.plus_%s(%d)" % (op[1], op[2]))
        else:
            return None
    return ("from pyoda_time import CalendarSystem, Duration, Instant, Offset\n\n"
            "def test_replay():\n"
            "    # %s\n"
            "    epoch = Instant.from_unix_time_ticks(0)\n"
            "    v = epoch.plus_nanoseconds(%d).with_offset(Offset.from_seconds(%d), CalendarSystem.for_id(%r))\n"
            "    %s\n"
            "    got = ((v.to_instant() - epoch).to_nanoseconds(), v.offset.seconds, v.calendar.id)\n"
            "    assert got == EXPECTED, got\n") % (what.replace("\n", " ")[:160], init[0], init[1], init[2], "\n    ".join(lines))


def report_mismatch(acc, part, init, path, m_before, exp, got, op):
    """exp: model state; got: canon tuple of the real result."""
    ek = exp.key()
    comp = []
    if got[3] != ek[3]:
        comp.append("calendar")
    if got[2] != ek[2]:
        comp.append("offset")
    if got[:2] != ek[:2]:
        comp.append("local")
    for c in comp:
        cls = _cal_cls(m_before.cal) if c == "calendar" else _carry_cls(m_before, exp)
        what = ("%s: after %r on (instant=%d ns, offset=%d s, calendar=%s) expected (local day %d, ns of day %d, offset %d, "
                "calendar %s) but got (local day %d, ns of day %d, offset %d, calendar %s)"
                % (c, op, m_before.i, m_before.o, m_before.cal, ek[0], ek[1], ek[2], ek[3], got[0], got[1], got[2], got[3]))
        py = _py_path(init, path, what)
        if py:
            py = py.replace("EXPECTED", repr((exp.i, exp.o, exp.cal)))
        acc.violation("C11/%s/%s/%s/%s" % (part, opclass(op), c, cls), what,
                      {"part": part, "init": list(init), "path": [list(p) for p in path], "expected": list(ek), "got": list(got)},
                      py=py)


def step(acc, part, rg, v, m, op, init, path_before):
    """Apply one operation to the real value and to the model; compare.  Returns (real result, model) or None."""
    op = concrete(op, m, rg)
    exp = model_apply(rg, m, op)
    path = path_before + [op]
    acc.count(transitions=1, evaluations=1)
    try:
        r = impl_apply(v, op)
    except Exception as e:  # noqa: BLE001
        if exc_origin(e) == "harness":
            raise
        if exp is RAISES:
            acc.outcome("%s: refused at range edge (%s)" % (opclass(op), type(e).__name__))
            acc.count(nontrivial=1)
            return None
        acc.lib_exception("C11/%s/%s" % (part, opclass(op)), e,
                          {"part": part, "init": list(init), "path": [list(p) for p in path], "expected": list(exp.key())})
        return None
    if exp is RAISES:
        try:
            got = canon(r)
        except Exception as e:  # noqa: BLE001
            if exc_origin(e) == "harness":
                raise
            got = "unreadable: %r" % e
        acc.violation("C11/%s/%s/must-raise/range-edge" % (part, opclass(op)),
                      "%r on (instant=%d ns, offset=%d s, calendar=%s) leaves the supported range (instant or local date) but "
                      "returned %r instead of raising" % (op, m.i, m.o, m.cal, got),
                      {"part": part, "init": list(init), "path": [list(p) for p in path], "expected": "raises", "got": got})
        return None
    try:
        got = canon(r)
    except Exception as e:  # noqa: BLE001
        acc.lib_exception("C11/%s/%s/observe" % (part, opclass(op)), e,
                          {"part": part, "init": list(init), "path": [list(p) for p in path], "expected": list(exp.key())})
        return None
    if got != exp.key():
        report_mismatch(acc, part, init, path, m, exp, got, op)
        return None
    if got[0] != m.local()[0] or got[3] != m.cal:
        acc.count(nontrivial=1)
    acc.outcome("%s: ok" % opclass(op))
    return r, exp, op


FIELD_NAMES = ("hour", "minute", "second", "millisecond", "tick_of_second", "tick_of_day", "nanosecond_of_second",
               "nanosecond_of_day", "clock_hour_of_half_day")
DATE_FIELDS = ("year", "month", "day", "day_of_week", "day_of_year", "year_of_era", "era")


def check_core(acc, part, v, m, rg, case):
    """Every observable of one OffsetDateTime against the model state."""
    E = env()
    d, n = m.local()
    cls = _cal_cls(m.cal)
    bad = []
    tf = R.time_fields(n)
    for name in FIELD_NAMES:
        if getattr(v, name) != tf[name]:
            bad.append(("time-field", "%s=%r, model %r" % (name, getattr(v, name), tf[name])))
    ed = expected_date(d, m.cal)
    vd = v.date
    if vd != ed or hash(vd) != hash(ed) or vd.calendar is not E.cals[m.cal] and vd.calendar != E.cals[m.cal]:
        bad.append(("date", "date=%r, model %r" % (vd, ed)))
    for name in DATE_FIELDS:
        if getattr(v, name) != getattr(ed, name):
            bad.append(("date-field", "%s=%r, model %r" % (name, getattr(v, name), getattr(ed, name))))
    if v.calendar != E.cals[m.cal] or v.calendar.id != m.cal:
        bad.append(("calendar", "calendar=%r, model %r" % (v.calendar, m.cal)))
    if v.offset.seconds != m.o or v.offset != mk_off(m.o):
        bad.append(("offset", "offset=%r, model %d s" % (v.offset, m.o)))
    ldt = v.local_date_time
    if ldt.date != ed or ldt.nanosecond_of_day != n or ldt.calendar != E.cals[m.cal]:
        bad.append(("local_date_time", "local_date_time=%r, model day %d ns %d" % (ldt, d, n)))
    if v.time_of_day.nanosecond_of_day != n:
        bad.append(("time_of_day", "time_of_day=%r, model ns %d" % (v.time_of_day, n)))
    # instant = local - offset
    acc.count(evaluations=1)
    try:
        gi = ins_ns(v.to_instant())
        if gi != m.i:
            bad.append(("instant", "to_instant()=%d ns, model %d ns" % (gi, m.i)))
    except Exception as e:  # noqa: BLE001
        if exc_origin(e) == "harness":
            raise
        if rg.instant_ok(m.i):
            bad.append(("instant", "to_instant() raised %r, model %d ns is inside the Instant range" % (e, m.i)))
        else:
            acc.outcome("to_instant: refused (local value whose instant is outside the Instant range)")
    for comp, what in bad:
        acc.violation("C11/%s/observe/%s/%s" % (part, comp, cls if comp != "time-field" else ("nod>=2^46" if n >= BIT46 else "nod<2^46")),
                      "value with model (instant=%d ns, offset=%d s, calendar=%s): %s" % (m.i, m.o, m.cal, what), case)
    return not bad


def check_full(acc, part, v, m, rg, case, partners, initial=True):
    """Alternative construction routes, the component types, fixed-zone view, elapsed time against partner values.
    initial=False (states reached by one operation): no fixed-zone view (building a fixed zone formats its id, ~1 ms),
    three partners instead of eight."""
    E = env()
    d, n = m.local()
    cls = _cal_cls(m.cal)
    cal = E.cals[m.cal]
    off = mk_off(m.o)
    routes = []
    if rg.instant_ok(m.i):
        routes.append(("Instant.with_offset", lambda: mk_instant(m.i).with_offset(off, cal)))
    routes += [
        ("OffsetDateTime(ldt, offset)", lambda: OffsetDateTime(v.local_date_time, off)),
        ("LocalDateTime.with_offset", lambda: (expected_date(d, m.cal) + LocalTime.from_nanoseconds_since_midnight(n)).with_offset(off)),
        ("OffsetDate.at", lambda: v.to_offset_date().at(v.time_of_day)),
        ("OffsetDate(date, offset).at", lambda: OffsetDate(expected_date(d, m.cal), off).at(LocalTime.from_nanoseconds_since_midnight(n))),
        ("OffsetTime.on", lambda: v.to_offset_time().on(v.date)),
        ("OffsetTime(time, offset).on", lambda: OffsetTime(LocalTime.from_nanoseconds_since_midnight(n), off).on(expected_date(d, m.cal))),
    ]
    z = None
    if initial:
        z = v.in_fixed_zone()
        routes.append(("in_fixed_zone.to_offset_date_time", lambda: z.to_offset_date_time()))
    else:
        partners = partners[:3]
    for name, fn in routes:
        acc.count(evaluations=1)
        try:
            w = fn()
        except Exception as e:  # noqa: BLE001
            acc.lib_exception("C11/%s/route/%s" % (part, name), e, case)
            continue
        if canon(w) != m.key() or not (w == v) or (w != v) or hash(w) != hash(v) or not v.equals(w):
            acc.violation("C11/%s/route/%s/%s" % (part, name, cls),
                          "value built through %s is %r; the same (instant=%d, offset=%d, calendar=%s) reached by operations is %r "
                          "(equal=%r, hashes equal=%r)" % (name, canon(w), m.i, m.o, m.cal, canon(v), w == v, hash(w) == hash(v)), case)
    # component types
    od = v.to_offset_date()
    if day_of(od.date) != d or od.offset.seconds != m.o or od.calendar != cal or od != OffsetDate(expected_date(d, m.cal), off):
        acc.violation("C11/%s/conv:to_offset_date/%s" % (part, cls), "to_offset_date() of model (day %d, offset %d, %s) gave %r/%r/%r"
                      % (d, m.o, m.cal, od.date, od.offset, od.calendar), case)
    for name in DATE_FIELDS:
        if getattr(od, name) != getattr(v, name):
            acc.violation("C11/%s/conv:to_offset_date/field/%s" % (part, cls), "OffsetDate.%s=%r but OffsetDateTime.%s=%r"
                          % (name, getattr(od, name), name, getattr(v, name)), case)
    ot = v.to_offset_time()
    if ot.nanosecond_of_day != n or ot.offset.seconds != m.o or ot != OffsetTime(LocalTime.from_nanoseconds_since_midnight(n), off):
        acc.violation("C11/%s/conv:to_offset_time/%s" % (part, "nod>=2^46" if n >= BIT46 else "nod<2^46"),
                      "to_offset_time() of model (ns of day %d, offset %d) gave ns %r offset %r" % (n, m.o, ot.nanosecond_of_day, ot.offset), case)
    # fixed-zone view
    acc.count(evaluations=1)
    zo = z.zone.get_utc_offset(EPOCH).seconds if z is not None else m.o
    if z is not None and (zo != m.o or z.offset.seconds != m.o or z.calendar != cal or canon(z.to_offset_date_time()) != m.key()
                          or z.local_date_time != v.local_date_time):
        acc.violation("C11/%s/conv:in_fixed_zone/%s" % (part, cls), "in_fixed_zone() of model (instant=%d, offset=%d, %s): zone offset %d, "
                      "offset %r, calendar %r, local %r" % (m.i, m.o, m.cal, zo, z.offset, z.calendar, z.local_date_time), case)
    # elapsed time between two values regardless of offsets and calendars
    if rg.instant_ok(m.i):
        for pidx, (pv, pm) in enumerate(partners):
            acc.count(evaluations=2)
            try:
                e1 = (v - pv).to_nanoseconds()
                e2 = (pv - v).to_nanoseconds()
                e3 = v.minus(pv).to_nanoseconds() if pidx == 0 else e1
                e4 = OffsetDateTime.subtract(v, pv).to_nanoseconds() if pidx == 0 else e1
            except Exception as e:  # noqa: BLE001
                acc.lib_exception("C11/%s/elapsed" % part, e, {"a": [m.i, m.o, m.cal], "b": [pm.i, pm.o, pm.cal]})
                continue
            want = R.m_elapsed(m, pm)
            if (e1, e2, e3, e4) != (want, -want, want, want):
                acc.violation("C11/%s/elapsed/%s" % (part, "same-cal" if pm.cal == m.cal else "cross-cal"),
                              "a - b with a=(instant %d, offset %d, %s), b=(instant %d, offset %d, %s): a-b=%d, b-a=%d, a.minus(b)=%d, "
                              "subtract(a,b)=%d; instants differ by %d" % (m.i, m.o, m.cal, pm.i, pm.o, pm.cal, e1, e2, e3, e4, want),
                              {"a": [m.i, m.o, m.cal], "b": [pm.i, pm.o, pm.cal]})
            elif pm.o != m.o or pm.cal != m.cal:
                acc.count(nontrivial=1)
        # partners with EQUAL FIELD VALUES in other calendars: the same (year, month, day) numbers, time and offset read in
        # another calendar denote another physical day (and the days next to it); a - b must still be the instant difference
        y, mo, dd = v.year, v.month, v.day
        if initial:
            others = [c for c in E.cal_ids if c != m.cal]
        else:
            k = E.cal_ids.index(m.cal)
            others = [E.cal_ids[(k + j) % len(E.cal_ids)] for j in (1, 7)]
        lt = LocalTime.from_nanoseconds_since_midnight(n)
        for c2 in others:
            fd = field_date(y, mo, dd, c2)
            if fd is None:
                acc.outcome("equal-field partner: (y, m, d) not a date of the other calendar")
                continue
            for shift in ((0, 1, -1) if initial else (0,)):
                try:
                    pdate = fd if shift == 0 else fd.plus_days(shift)
                except Exception as e:  # noqa: BLE001
                    if exc_origin(e) == "harness":
                        raise
                    continue
                pm = R.M(R.instant_of(day_of(pdate), n, m.o), m.o, c2)
                if not rg.instant_ok(pm.i):
                    continue
                acc.count(evaluations=2)
                try:
                    pv = OffsetDateTime(pdate + lt, off)
                    es = [(v - pv).to_nanoseconds(), -(pv - v).to_nanoseconds()]
                    if initial and shift == 0:
                        es += [v.minus(pv).to_nanoseconds(), OffsetDateTime.subtract(v, pv).to_nanoseconds()]
                except Exception as e:  # noqa: BLE001
                    acc.lib_exception("C11/%s/elapsed" % part, e, {"a": [m.i, m.o, m.cal], "b": [pm.i, pm.o, pm.cal]})
                    continue
                want = R.m_elapsed(m, pm)
                if any(x != want for x in es):
                    acc.violation("C11/%s/elapsed/cross-cal-equal-fields%s" % (part, "" if shift == 0 else "+-1day"),
                                  "a - b with a=(instant %d, offset %d, %s) and b = the same field values %04d-%02d-%02d%s in %s (instant %d): "
                                  "-, reversed -, minus, subtract give %r; the instants differ by %d"
                                  % (m.i, m.o, m.cal, y, mo, dd, "" if shift == 0 else " %+d day" % shift, c2, pm.i, es, want),
                                  {"a": [m.i, m.o, m.cal], "b": [pm.i, pm.o, pm.cal]})
                else:
                    acc.count(nontrivial=1)
                    acc.outcome("equal-field partner in another calendar: elapsed time ok")


_FIELD_DATE = {}


def field_date(y, mo, dd, cal_id):
    """LocalDate(y, mo, dd) in another calendar, or None when these numbers are not a date there."""
    k = (y, mo, dd, cal_id)
    if k not in _FIELD_DATE:
        if len(_FIELD_DATE) > 200_000:
            _FIELD_DATE.clear()
        try:
            _FIELD_DATE[k] = LocalDate(y, mo, dd, env().cals[cal_id])
        except Exception as e:  # noqa: BLE001
            if exc_origin(e) == "harness":
                raise
            _FIELD_DATE[k] = None
    return _FIELD_DATE[k]


def make_partners(rg):
    E = env()
    out = []
    spec = [(0, 0, "ISO"), (-1, 64800, "Julian"), (D2024 * NSD + BIT46, -64800, "Hebrew Civil"), (D2024 * NSD - 1, 45901, "Coptic"),
            (rg.imin, 0, "ISO"), (rg.imax, 0, "Gregorian"), (NSD, -19800, "Persian Simple"), (-100 * NSD + 6 * H + 1, 1, "Badi")]
    for i, o, c in spec:
        if c in E.cals:
            m = R.m_create(rg, i, o, c)
            if m is not RAISES:
                out.append((create(i, o, c), m))
    return out


# ------------------------------------------------------------------------------------------------ odt: BFS workers

def guarded(part, fn, args, extra):
    """Run a worker body; an exception escaping from library code at an unguarded observation point becomes a violation
    of this shard (the rest of the shard is lost and recorded as a cap) instead of a harness fault."""
    acc = Acc()
    try:
        return fn(args, acc)
    except Exception as e:  # noqa: BLE001
        if exc_origin(e) == "harness":
            raise
        acc.lib_exception("C11/%s/shard-aborted" % part, e, {"part": part, "shard": repr(args)[:300]})
        acc.cap("a %s shard stopped early on an unexpected library exception" % part)
        return (acc,) + extra if extra is not None else acc


def _case(init, path):
    return {"part": "odt", "init": list(init), "path": [list(p) for p in path]}


def odt_depth1(args):
    return guarded("odt", _odt_depth1, args, (array.array("q"), []))


def _odt_depth1(args, acc):
    """One base instant: all offsets x calendars as initial states, all operations once.
    Returns (acc, state hashes, [(init, op, canon key)] for the depth-2 frontier)."""
    tier, base, cal_ids, offs, grid_cals = args
    E = env()
    rg = E.ranges
    partners = make_partners(rg)
    ops = odt_ops(tier, E)
    seen = {}
    # the initial grid of this base instant is split over several shards: states owned by other shards count as seen
    for c in grid_cals:
        if c not in cal_ids:
            for o in offs:
                gm = R.m_create(rg, base, o, c)
                if gm is not RAISES:
                    seen[gm.key()] = False
    frontier = []
    initial = []
    for c in cal_ids:
        for o in offs:
            init = (base, o, c)
            exp = R.m_create(rg, base, o, c)
            acc.count(evaluations=1)
            try:
                v = create(base, o, c)
            except Exception as e:  # noqa: BLE001
                if exc_origin(e) == "harness":
                    raise
                if exp is RAISES:
                    acc.outcome("create: refused at range edge (%s)" % type(e).__name__)
                    acc.count(nontrivial=1)
                else:
                    acc.lib_exception("C11/odt/create", e, _case(init, []))
                continue
            if exp is RAISES:
                acc.violation("C11/odt/create/must-raise/range-edge", "Instant(%d ns).with_offset(%d s, %s) has a local date outside the "
                              "calendar's range but returned %r" % (base, o, c, canon(v)), _case(init, []))
                continue
            k = canon(v)
            if k != exp.key():
                report_mismatch(acc, "odt", init, [], exp, exp, k, ("create",))
                continue
            if k not in seen:
                seen[k] = True
                check_core(acc, "odt", v, exp, rg, _case(init, []))
                check_full(acc, "odt", v, exp, rg, _case(init, []), partners)
                initial.append((v, exp, init))
    for v, m, init in initial:
        for op in ops:
            res = step(acc, "odt", rg, v, m, op, init, [])
            if res is None:
                continue
            r, exp, cop = res
            k = canon(r)
            if k not in seen:
                seen[k] = True
                ok = check_core(acc, "odt", r, exp, rg, _case(init, [cop]))
                check_full(acc, "odt", r, exp, rg, _case(init, [cop]), partners, initial=False)
                if ok:
                    frontier.append((init, cop, k))
    if initial:
        v, m, init = initial[len(initial) // 2]
        acc.sample({"odt initial state": {"instant_ns": m.i, "offset_s": m.o, "calendar": m.cal}, "observed": list(canon(v))})
    hashes = array.array("q", [hkey(k) for k, own in seen.items() if own])
    return acc, hashes, frontier


def odt_depth2(args):
    return guarded("odt", _odt_depth2, args, (array.array("q"),))


def _odt_depth2(args, acc):
    """A chunk of the depth-1 frontier: rebuild each state by replaying its history, apply every operation."""
    tier, items = args
    E = env()
    rg = E.ranges
    ops = odt_ops(tier, E, 2)
    seen = set()
    for init, op1, k1 in items:
        m0 = R.m_create(rg, *init)
        v0 = create(*init)
        m1 = model_apply(rg, m0, op1)
        v1 = impl_apply(v0, op1)
        if canon(v1) != k1:
            raise RuntimeError("harness: replaying %r %r does not reproduce the state" % (init, op1))
        for op in ops:
            res = step(acc, "odt", rg, v1, m1, op, init, [op1])
            if res is None:
                continue
            r, exp, cop = res
            k = canon(r)
            if k not in seen:
                seen.add(k)
                check_core(acc, "odt", r, exp, rg, _case(init, [op1, cop]))
    if items:
        init, op1, k1 = items[len(items) // 2]
        acc.sample({"odt depth-2 expansion of": {"init": list(init), "op": list(op1)}})
    return acc, array.array("q", [hkey(k) for k in seen])


# ------------------------------------------------------------------------------------------------ zdt

def zone_transitions(zone, upto_ns, rg):
    """All transitions (instant ns, offset before, offset after) of a zone from the start of time up to upto_ns."""
    out = []
    i = Instant.min_value
    for _ in range(5000):
        zi = zone.get_zone_interval(i)
        if not zi.has_end:
            break
        e = zi.end
        ns = ins_ns(e)
        if ns > upto_ns:
            break
        after = zone.get_zone_interval(e).wall_offset.seconds
        out.append((ns, zi.wall_offset.seconds, after))
        i = e
    return out


def zdt_instants(zidx, tier, seed):
    E = env()
    rg = E.ranges
    zone = E.zones[zidx][1]
    upto = 25567 * NSD  # 2040-01-01
    tr = zone_transitions(zone, upto, rg)
    pick = []
    if tr:
        cand = tr[:2] + tr[-2:] + [max(tr, key=lambda t: t[2] - t[1]), min(tr, key=lambda t: t[2] - t[1])]
        if tier == "thorough":
            cand += tr[2:-2][:: max(1, len(tr) // 12)]
        far = zone.get_zone_interval(mk_instant(200_000 * NSD))        # year ~2517: the recurring tail
        if far.has_end:
            cand.append((ins_ns(far.end), None, None))
        for t in cand:
            if t[0] not in pick:
                pick.append(t[0])
    xs = []
    for t in pick:
        xs += [t - 1, t]
    xs += [rg.imin, rg.imin + NSD, -1, 0, D2024 * NSD + BIT46, rg.imax - NSD, rg.imax]
    k = (seed * 104729) % 20000
    if k * NSD - 1 not in xs:
        xs.append(k * NSD - 1)
    return xs, len(tr)


ZDURS = [0, 1, -1, 10**9, -10**9, NSD - 1, -(NSD - 1), 36 * H, -36 * H, 49 * H, -49 * H]
_ZOFF = {}


def offset_at(zidx, i):
    k = (zidx, i)
    s = _ZOFF.get(k)
    if s is None:
        if len(_ZOFF) > 400_000:
            _ZOFF.clear()
        s = _ZOFF[k] = env().zones[zidx][1].get_utc_offset(mk_instant(i)).seconds
    return s


def zcanon(v: ZonedDateTime):
    return (day_of(v.date), v.time_of_day.nanosecond_of_day, v.offset.seconds, v.calendar.id, v.zone.id)


def zdt_check(acc, v, zs, rg, case, full):
    E = env()
    zid, zone = E.zones[zs.z]
    o = offset_at(zs.z, zs.i)
    m = R.M(zs.i, o, zs.cal)
    d, n = m.local()
    cls = _cal_cls(zs.cal)
    bad = []
    if v.offset.seconds != o:
        bad.append(("offset", "offset %r but the zone's offset at the instant is %d s" % (v.offset, o)))
    if not (v.zone == zone) or v.zone.id != zid or getattr(v.zone, "name", None) != getattr(zone, "name", None):
        bad.append(("zone", "zone %r, expected %r" % (v.zone, zone)))
    if v.calendar != E.cals[zs.cal]:
        bad.append(("calendar", "calendar %r, model %s" % (v.calendar, zs.cal)))
    ed = expected_date(d, zs.cal)
    if v.date != ed or v.time_of_day.nanosecond_of_day != n or v.local_date_time.date != ed or v.local_date_time.nanosecond_of_day != n:
        bad.append(("local", "local %r, model day %d ns %d" % (v.local_date_time, d, n)))
    tf = R.time_fields(n)
    for name in ("hour", "minute", "second"):
        if getattr(v, name) != tf[name]:
            bad.append(("time-field", "%s=%r, model %r" % (name, getattr(v, name), tf[name])))
    for name in ("year", "month", "day", "day_of_week", "day_of_year"):
        if getattr(v, name) != getattr(ed, name):
            bad.append(("date-field", "%s=%r, model %r" % (name, getattr(v, name), getattr(ed, name))))
    acc.count(evaluations=1)
    gi = ins_ns(v.to_instant())
    if gi != zs.i:
        bad.append(("instant", "to_instant()=%d, model %d" % (gi, zs.i)))
    if canon(v.to_offset_date_time()) != m.key():
        bad.append(("to_offset_date_time", "%r, model %r" % (canon(v.to_offset_date_time()), m.key())))
    for comp, what in bad:
        acc.violation("C11/zdt/observe/%s/%s" % (comp, cls), "zoned value with model (instant=%d ns, zone=%s, calendar=%s): %s"
                      % (zs.i, zid, zs.cal, what), case)
    if not full:
        return not bad
    cal = E.cals[zs.cal]
    ins = mk_instant(zs.i)
    routes = [("Instant.in_zone", lambda: ins.in_zone(zone, cal)),
              ("ZonedDateTime(instant, zone, calendar)", lambda: ZonedDateTime(instant=ins, zone=zone, calendar=cal)),
              ("ZonedDateTime(local, zone, offset)", lambda: ZonedDateTime(local_date_time=v.local_date_time, zone=zone, offset=mk_off(o)))]
    if zs.cal == "ISO":
        routes.append(("Instant.in_zone (default calendar)", lambda: ins.in_zone(zone)))
        routes.append(("ZonedDateTime(instant, zone)", lambda: ZonedDateTime(instant=ins, zone=zone)))
        if zid == "UTC":
            routes.append(("Instant.in_utc", lambda: ins.in_utc()))
    if zid == "UTC":
        routes.append(("LocalDateTime.in_utc", lambda: v.local_date_time.in_utc()))
    try:
        from pyoda_time import ZonedClock
        from pyoda_time.testing import FakeClock
        routes.append(("ZonedClock.get_current_zoned_date_time", lambda: ZonedClock(FakeClock(ins), zone, cal).get_current_zoned_date_time()))
        zc = ZonedClock(FakeClock(ins), zone, cal)
        acc.count(evaluations=4)
        if canon(zc.get_current_offset_date_time()) != m.key() or zc.get_current_local_date_time() != v.local_date_time \
                or zc.get_current_date() != ed or ins_ns(zc.get_current_instant()) != zs.i:
            acc.violation("C11/zdt/route/ZonedClock/%s" % cls, "ZonedClock over a fixed clock at %d ns in %s/%s disagrees with the model"
                          % (zs.i, zid, zs.cal), case)
    except ImportError:
        acc.degrade("ZonedClock / FakeClock not importable; clock routes skipped")
    for name, fn in routes:
        acc.count(evaluations=1)
        try:
            w = fn()
        except Exception as e:  # noqa: BLE001
            acc.lib_exception("C11/zdt/route/%s" % name, e, case)
            continue
        if zcanon(w) != zcanon(v) or not (w == v) or ins_ns(w.to_instant()) != zs.i:
            acc.violation("C11/zdt/route/%s/%s" % (name, cls), "value built through %s is %r (instant %d); expected %r (instant %d); equal=%r"
                          % (name, zcanon(w), ins_ns(w.to_instant()), zcanon(v), zs.i, w == v), case)
    # OffsetDateTime.in_zone: same instant, that zone, offset re-derived
    acc.count(evaluations=1)
    w = v.to_offset_date_time().in_zone(zone)
    if ins_ns(w.to_instant()) != zs.i or w.offset.seconds != o or not (w.zone == zone):
        acc.violation("C11/zdt/conv:in_zone/%s" % cls, "OffsetDateTime.in_zone(%s) of instant %d gave instant %d offset %r zone %r"
                      % (zid, zs.i, ins_ns(w.to_instant()), w.offset, w.zone), case)
    if w.calendar != cal:
        acc.outcome("OffsetDateTime.in_zone: calendar not carried over (result is %s)" % w.calendar.id)
        if STRICT_IN_ZONE_CALENDAR:
            acc.violation("C11/zdt/conv:in_zone/calendar/%s" % cls, "OffsetDateTime.in_zone drops the calendar %s (result %s)" % (zs.cal, w.calendar.id), case)
    else:
        acc.outcome("OffsetDateTime.in_zone: calendar kept")
    return not bad


def zdt_ops():
    ops = [("add", d) for d in ZDURS]
    for name in ("__sub__", "plus", "minus"):
        if hasattr(ZonedDateTime, name):
            ops += [({"__sub__": "sub"}.get(name, name), d) for d in (1, -49 * H, 36 * H)]
    for name in ("plus_hours", "plus_nanoseconds"):
        if hasattr(ZonedDateTime, name):
            ops += [(name, 49), (name, -1)]
    ops += [("add_to_max",), ("add_over_max",), ("add_to_min",), ("add_under_min",)]
    if hasattr(ZonedDateTime, "with_calendar"):
        ops += [("with_calendar", c) for c in ("ISO", "Julian", "Hebrew Civil") if c in env().cals]
    if hasattr(ZonedDateTime, "with_zone"):
        ops.append(("with_zone_same",))
    return ops


def zdt_apply(v, op):
    k = op[0]
    if k == "with_calendar":
        return v.with_calendar(env().cals[op[1]])
    if k == "with_zone_same":
        return v.with_zone(v.zone)
    if k == "add":
        return v + mk_dur(op[1])
    if k == "sub":
        return v - mk_dur(op[1])
    if k in ("plus", "minus"):
        return getattr(v, k)(mk_dur(op[1]))
    return getattr(v, k)(op[1])


def zdt_model(rg, zs, op):
    k = op[0]
    if k == "with_calendar":
        return R.z_create(rg, zs.i, zs.z, op[1], offset_at)
    if k == "with_zone_same":
        return R.z_create(rg, zs.i, zs.z, zs.cal, offset_at)
    if k in ("add", "plus"):
        d = op[1]
    elif k in ("sub", "minus"):
        d = -op[1]
    elif k == "plus_hours":
        d = op[1] * H
    elif k == "plus_nanoseconds":
        d = op[1]
    else:
        raise AssertionError(op)
    return R.z_plus(rg, zs, d, offset_at)


def zdt_concrete(op, zs, rg):
    k = op[0]
    if k == "add_to_max":
        return ("add", rg.imax - zs.i)
    if k == "add_over_max":
        return ("add", rg.imax - zs.i + 1)
    if k == "add_to_min":
        return ("add", rg.imin - zs.i)
    if k == "add_under_min":
        return ("add", rg.imin - zs.i - 1)
    return op


def zdt_worker(args):
    return guarded("zdt", _zdt_worker, args, None)


def _zdt_worker(args, acc):
    tier, zidx, instants, cal_ids, depth2_cals = args
    E = env()
    rg = E.ranges
    zid, zone = E.zones[zidx]
    ops = zdt_ops()
    if not hasattr(ZonedDateTime, "__sub__"):
        acc.outcome("ZonedDateTime has no '-' operator on this tree: subtraction is exercised as + (negative duration)")
    seen = set()
    frontier = []
    for i in instants:
        for c in cal_ids:
            init = (i, zidx, c)
            case = {"part": "zdt", "init": [i, zid, c], "path": []}
            zs = R.z_create(rg, i, zidx, c, offset_at)
            acc.count(evaluations=1)
            try:
                v = mk_instant(i).in_zone(zone, E.cals[c])
            except Exception as e:  # noqa: BLE001
                if exc_origin(e) == "harness":
                    raise
                if zs is RAISES:
                    acc.outcome("zdt create: refused at range edge (%s)" % type(e).__name__)
                    acc.count(nontrivial=1)
                else:
                    acc.lib_exception("C11/zdt/create", e, case)
                continue
            if zs is RAISES:
                acc.violation("C11/zdt/create/must-raise/range-edge", "Instant(%d).in_zone(%s, %s): local date outside the calendar but a "
                              "value was returned" % (i, zid, c), case)
                continue
            k = (i, c)
            if k in seen:
                continue
            seen.add(k)
            acc.count(states=1)
            if zdt_check(acc, v, zs, rg, case, True):
                frontier.append((v, zs, init, []))
    for depth in (1, 2):
        nxt = []
        for v, zs, init, path in frontier:
            if depth == 2 and zs.cal not in depth2_cals:
                continue
            for op in ops:
                cop = zdt_concrete(op, zs, rg)
                exp = zdt_model(rg, zs, cop)
                p2 = path + [cop]
                case = {"part": "zdt", "init": [init[0], zid, init[2]], "path": [list(p) for p in p2]}
                acc.count(transitions=1, evaluations=1)
                try:
                    r = zdt_apply(v, cop)
                except Exception as e:  # noqa: BLE001
                    if exc_origin(e) == "harness":
                        raise
                    if exp is RAISES:
                        acc.outcome("zdt plus-duration: refused at range edge (%s)" % type(e).__name__)
                        acc.count(nontrivial=1)
                    else:
                        acc.lib_exception("C11/zdt/plus-duration", e, case)
                    continue
                if exp is RAISES:
                    acc.violation("C11/zdt/plus-duration/must-raise/range-edge", "%r on zoned (instant=%d, %s, %s) leaves the supported range "
                                  "but returned a value" % (cop, zs.i, zid, zs.cal), case)
                    continue
                o_before = offset_at(zidx, zs.i)
                o_after = offset_at(zidx, exp.i)
                ok = zdt_check(acc, r, exp, rg, case, False)
                if o_before != o_after:
                    acc.count(nontrivial=1)
                    acc.outcome("zdt plus-duration: offset re-derived across a transition")
                else:
                    acc.outcome("zdt plus-duration: same offset")
                k = (exp.i, exp.cal)
                if ok and k not in seen:
                    seen.add(k)
                    acc.count(states=1)
                    nxt.append((r, exp, init, p2))
        frontier = nxt
    acc.note("zone %s" % zid, {"instants": len(instants), "calendars": len(cal_ids)})
    return acc




def zlocal_worker(args):
    return guarded("zdt", _zlocal_worker, args, None)


def _zlocal_worker(args, acc):
    """ZonedDateTime(local, zone, offset) around EVERY transition of the zone up to 2040: locals inside the gap / overlap (first
    ns, middle, last ns) and just outside it, each with the offset before, the offset after and two unrelated offsets.  The
    value exists exactly when the zone's offset at (local - offset) is that offset; then it must show that instant, local
    time, offset and calendar."""
    tier, zidx, cal_ids = args
    E = env()
    rg = E.ranges
    zid, zone = E.zones[zidx]
    tr = zone_transitions(zone, 25567 * NSD, rg)
    for t, ob, oa in tr:
        if ob == oa:
            continue
        kind = "gap" if oa > ob else "overlap"
        lo, hi = t + min(ob, oa) * R.NS_S, t + max(ob, oa) * R.NS_S
        offs = [ob, oa]
        for extra in (oa + 3600 if oa + 3600 <= R.OFFSET_MAX_S else oa - 3600, 0, ob - 1 if ob - 1 >= R.OFFSET_MIN_S else ob + 1):
            if extra not in offs:
                offs.append(extra)
        for where, L in (("first", lo), ("middle", (lo + hi) // 2), ("last", hi - 1), ("before", lo - 1), ("after", hi)):
            d, n = divmod(L, NSD)
            for c in cal_ids:
                if not rg.day_ok(c, d):
                    continue
                ldt = expected_date(d, c) + LocalTime.from_nanoseconds_since_midnight(n)
                for o in offs:
                    i = L - o * R.NS_S
                    ok = rg.instant_ok(i) and offset_at(zidx, i) == o
                    acc.count(states=1, transitions=1, evaluations=1)
                    case = {"part": "zlocal", "zone": zid, "transition": t, "local_ns": L, "offset": o, "calendar": c}
                    cls = "%s-%s" % (kind, where if where in ("before", "after") else "inside")
                    try:
                        v = ZonedDateTime(local_date_time=ldt, zone=zone, offset=mk_off(o))
                    except Exception as e:  # noqa: BLE001
                        if exc_origin(e) == "harness":
                            raise
                        if ok:
                            acc.violation("C11/zdt/ctor-local-offset/refused-valid/%s" % cls, "ZonedDateTime(local=%d ns [%s %s of the %s at transition %d], "
                                          "%s, offset %d s, %s) raised %s although the zone's offset at local - offset is %d s"
                                          % (L, where, "ns" if where in ("first", "last") else "", kind, t, zid, o, c, type(e).__name__, o), case)
                        else:
                            acc.outcome("zdt ctor(local, zone, offset): refused (%s, offset not the zone's)" % kind)
                        continue
                    if not ok:
                        acc.violation("C11/zdt/ctor-local-offset/accepted-invalid/%s" % cls, "ZonedDateTime(local=%d ns [%s of the %s at transition %d], %s, "
                                      "offset %d s, %s) was accepted, but the zone's offset at local - offset = %d ns is %s"
                                      % (L, where, kind, t, zid, o, c, i, offset_at(zidx, i) if rg.instant_ok(i) else "outside the Instant range"), case)
                        continue
                    acc.count(nontrivial=1)
                    acc.outcome("zdt ctor(local, zone, offset): accepted (%s)" % cls)
                    zdt_check(acc, v, R.Z(i, zidx, c), rg, case, False)
    acc.note("zdt ctor sweep %s" % zid, {"transitions": len(tr)})
    return acc


START_ZONES = ("America/Sao_Paulo", "America/Havana", "Asia/Beirut")


def zstart_worker(args):
    return guarded("zdt", _zstart_worker, args, None)


def _zstart_worker(args, acc):
    """DateTimeZone.at_start_of_day / LocalDate.at_start_of_day_in_zone on the dates around EVERY transition of a zone (up to
    2040), in several calendars: the result is the earliest instant whose local date (at the zone's offset there) is that date;
    zone and calendar are retained and result.date == date.  Midnight gaps (the day starts later than 00:00) are singled out."""
    tier, zid, cal_ids = args
    E = env()
    rg = E.ranges
    try:
        zone = DateTimeZoneProviders.tzdb[zid]
    except Exception:  # noqa: BLE001
        acc.degrade("zone %s not available from the tzdb provider" % zid)
        return acc
    tr = zone_transitions(zone, 25567 * NSD, rg)
    trans = sorted(t[0] for t in tr)
    offc = {}

    def off_at(i):
        o = offc.get(i)
        if o is None:
            o = offc[i] = zone.get_utc_offset(mk_instant(i)).seconds
        return o

    def start_of_day(d):
        """Earliest instant whose local day is d: candidates are local midnight read at every nearby offset, and nearby transitions."""
        L0 = d * NSD
        near = [t for t in trans if L0 - 2 * NSD <= t <= L0 + 2 * NSD]
        offs = {off_at(L0 - 2 * NSD), off_at(L0), off_at(L0 + 2 * NSD)}
        for t in near:
            offs.add(off_at(t - 1))
            offs.add(off_at(t))
        cands = [L0 - o * R.NS_S for o in offs] + near
        ok = [i for i in cands if rg.instant_ok(i) and R.local_of(i, off_at(i))[0] == d]
        return min(ok) if ok else None

    days = []
    for t, ob, oa in tr:
        for o in (ob, oa):
            d = R.local_of(t, o)[0]
            for dd in (d - 1, d, d + 1):
                if dd not in days:
                    days.append(dd)
    if tier == "quick" and len(days) > 240:
        keep = [R.local_of(t, oa)[0] for t, ob, oa in tr if oa > ob]       # every day that begins after a gap transition
        days = sorted(set(days[:120] + days[-120:] + keep))
        acc.cap("quick tier: at_start_of_day on the first and last 120 transition dates of a zone plus every gap date; thorough takes all")
    for d in days:
        i = start_of_day(d)
        if i is None:
            acc.outcome("at_start_of_day: date skipped entirely or outside the range (not checked)")
            continue
        gap = R.local_of(i, off_at(i))[1] != 0
        for c in cal_ids:
            if not rg.day_ok(c, d):
                continue
            date = expected_date(d, c)
            zs = R.Z(i, 0, c)
            for route, fn in (("DateTimeZone.at_start_of_day", lambda: zone.at_start_of_day(date)),
                              ("LocalDate.at_start_of_day_in_zone", lambda: date.at_start_of_day_in_zone(zone))):
                acc.count(states=1, transitions=1, evaluations=1)
                case = {"part": "zstart", "zone": zid, "day": d, "calendar": c, "route": route}
                cls = "%s,%s" % ("midnight-gap" if gap else "ordinary", _cal_cls(c))
                try:
                    v = fn()
                except Exception as e:  # noqa: BLE001
                    acc.lib_exception("C11/zdt/at_start_of_day", e, case)
                    continue
                o = off_at(i)
                m = R.M(i, o, c)
                got = (ins_ns(v.to_instant()), v.offset.seconds, v.calendar.id, v.zone.id, day_of(v.date), v.date.calendar.id, v.time_of_day.nanosecond_of_day)
                want = (i, o, c, zid, d, c, m.local()[1])
                if got != want or not (v.date == date) or not (v.zone == zone):
                    acc.violation("C11/zdt/at_start_of_day/%s" % cls, "%s of day %d (%s) in %s gives (instant, offset, calendar, zone, local day, date calendar, "
                                  "ns of day) = %r; expected %r; result.date == date is %r" % (route, d, c, zid, got, want, v.date == date), case)
                else:
                    acc.outcome("at_start_of_day ok (%s)" % ("midnight gap" if gap else "ordinary"))
                    if gap or c != "ISO":
                        acc.count(nontrivial=1)
    acc.note("at_start_of_day %s" % zid, {"transitions": len(tr), "days": len(days)})
    return acc

# ------------------------------------------------------------------------------------------------ zclock: histories

GETTERS = ("get_current_instant", "get_current_zoned_date_time", "get_current_offset_date_time", "get_current_local_date_time",
           "get_current_date", "get_current_time_of_day")


def _getter(zc, name):
    if name == "get_current_time_of_day" and not hasattr(zc, name):
        return getattr(zc, "get_curent_time_of_day")          # spelling used by this tree
    return getattr(zc, name)


def zclock_targets(zidx, tier, seed):
    """Instants a clock is reset to: on and 1 ns before real transitions of the zone (+ the zdt alphabet in thorough)."""
    E = env()
    zone = E.zones[zidx][1]
    tr = zone_transitions(zone, 25567 * NSD, E.ranges)
    xs = []
    if tr:
        cand = [max(tr, key=lambda t: t[2] - t[1]), min(tr, key=lambda t: t[2] - t[1]), tr[-1], tr[(seed * 7 + len(tr) // 2) % len(tr)]]
        for t in cand:
            for x in (t[0] - 1, t[0]):
                if x not in xs:
                    xs.append(x)
    if tier == "thorough":
        more = [x for x in zdt_instants(zidx, tier, seed)[0] if x not in xs and E.ranges.imin + 400 * NSD < x < E.ranges.imax - 400 * NSD]
        xs += more[:: max(1, len(more) // 6)][:6]       # 14 reset targets at most: the history space grows with the cube
    return xs


def zclock_ops(targets):
    ops = [("advance_to_next_transition",), ("advance_back_before_interval_start",), ("advance", 1), ("advance", -1),
           ("auto_advance", -H), ("auto_advance", 0)]
    ops += [("reset", t) for t in targets]
    return ops


def zclock_worker(args):
    return guarded("zclock", _zclock_worker, args, None)


def _zclock_worker(args, acc):
    """One ZonedClock over one FakeClock per history: every sequence of <= depth clock movements, every getter read after
    each movement and compared with the (instant, zone, calendar) model.  Model of the clock: [now, auto]; a reading
    returns now and then adds auto."""
    import itertools
    from pyoda_time import ZonedClock
    from pyoda_time.testing import FakeClock
    tier, zidx, cal_id, seed, depth = args
    E = env()
    rg = E.ranges
    zid, zone = E.zones[zidx]
    cal = E.cals[cal_id]
    targets = [t for t in zclock_targets(zidx, tier, seed)
               if R.z_create(rg, t, zidx, cal_id, offset_at) is not RAISES and R.z_create(rg, t - 40 * H, zidx, cal_id, offset_at) is not RAISES]
    if not targets:
        acc.outcome("zclock: no transition of %s inside calendar %s" % (zid, cal_id))
        return acc
    ops = zclock_ops(targets)
    bounds = {}

    def interval_bounds(i):
        b = bounds.get(i)
        if b is None:
            zi = zone.get_zone_interval(mk_instant(i))
            b = bounds[i] = (ins_ns(zi.start) if zi.has_start else None, ins_ns(zi.end) if zi.has_end else None)
        return b

    def read_all(zc, st, seq, moved):
        """Read every getter once; each consumes one clock reading in the model."""
        for g in GETTERS:
            r = st[0]
            st[0] += st[1]
            acc.count(evaluations=1)
            case = {"part": "zclock", "zone": zid, "calendar": cal_id, "start": targets[0], "sequence": [list(o) for o in seq], "getter": g}
            o = offset_at(zidx, r)
            m = R.M(r, o, cal_id)
            d, n = m.local()
            refuse = g != "get_current_instant" and not rg.day_ok(cal_id, d)
            try:
                got = _getter(zc, g)()
            except Exception as e:  # noqa: BLE001
                if refuse and exc_origin(e) != "harness":
                    acc.outcome("zclock: reading refused, local date outside the calendar")
                    continue
                acc.lib_exception("C11/zclock/%s" % g, e, case)
                return False
            if refuse:
                acc.violation("C11/zclock/%s/must-raise/range-edge" % g, "ZonedClock(%s, %s) at instant %d: local day %d is outside the calendar "
                              "but %s() returned a value" % (zid, cal_id, r, d, g), case)
                return False
            if g == "get_current_instant":
                obs, want = ins_ns(got), r
            elif g == "get_current_zoned_date_time":
                obs = (ins_ns(got.to_instant()),) + zcanon(got)
                want = (r, d, n, o, cal_id, zid)
            elif g == "get_current_offset_date_time":
                obs, want = canon(got), m.key()
            elif g == "get_current_local_date_time":
                obs, want = (day_of(got.date), got.nanosecond_of_day, got.calendar.id), (d, n, cal_id)
            elif g == "get_current_date":
                obs, want = (day_of(got), got.calendar.id), (d, cal_id)
            else:
                obs, want = got.nanosecond_of_day, n
            if obs != want:
                acc.violation("C11/zclock/%s/%s" % (g, moved),
                              "ZonedClock(%s, %s) after clock movements %r: %s() gives %r, model (instant %d ns, offset %d s) says %r"
                              % (zid, cal_id, seq, g, obs, r, o, want), case)
                return False
        return True

    def apply(clock, st, op):
        k = op[0]
        if k == "reset":
            clock.reset(mk_instant(op[1]))
            moved = "after-backward-move" if op[1] < st[0] else "after-forward-move"
            st[0] = op[1]
            return moved
        if k == "auto_advance":
            clock.auto_advance = mk_dur(op[1])
            st[1] = op[1]
            return "after-backward-move" if op[1] < 0 else "same-instant"
        if k == "advance":
            delta = op[1]
        elif k == "advance_to_next_transition":
            end = interval_bounds(st[0])[1]
            delta = 0 if end is None else end - st[0]
        else:
            start = interval_bounds(st[0])[0]
            delta = 0 if start is None else start - 1 - st[0]
        clock.advance(mk_dur(delta))
        st[0] += delta
        return "after-backward-move" if delta < 0 else ("after-forward-move" if delta > 0 else "same-instant")

    start = targets[0]
    for L in range(1, depth + 1):
        for seq in itertools.product(ops, repeat=L):
            acc.count(states=1)
            clock = FakeClock(mk_instant(start))
            zc = ZonedClock(clock, zone, cal)
            st = [start, 0]
            if not read_all(zc, st, [], "first-reading"):
                return acc
            o_prev = offset_at(zidx, st[0])
            for j, op in enumerate(seq):
                acc.count(transitions=1)
                moved = apply(clock, st, op)
                o_now = offset_at(zidx, st[0])
                if o_now != o_prev:
                    acc.count(nontrivial=1)
                    acc.outcome("zclock: movement crosses a transition (%s)" % moved)
                else:
                    acc.outcome("zclock: movement inside one interval (%s)" % moved)
                o_prev = o_now
                if not read_all(zc, st, list(seq[:j + 1]), moved):
                    break
    acc.note("zclock %s/%s" % (zid, cal_id), {"reset targets": len(targets), "operations": len(ops), "depth": depth})
    acc.sample({"zclock": zid, "calendar": cal_id, "operations": [list(o) for o in ops[:8]], "depth": depth})
    return acc


# ------------------------------------------------------------------------------------------------ offsets sweep

def nod_alphabet(tier):
    xs = [0, BIT46 - 1, BIT46, NSD - 1, 12 * H + 1]
    if tier == "thorough":
        xs += [1, BIT46 + 1, 2**45, 2**45 - 1, H - 1, H, 6 * H, 18 * H, NSD - H, NSD - 10**9, 23 * H + 59 * 60 * 10**9, 999_999_999, 10**9,
               NSD // 2 - 1, 86_399_999_999_000]
    return xs


def _offset_time_case(tier, lt, n, o, off, neg, tf):
    """One (nanosecond-of-day, offset) pair through OffsetTime; returns a description of the first discrepancy or None."""
    ot = OffsetTime(lt, off)
    if ot.nanosecond_of_day != n or ot.offset.seconds != o or ot.time_of_day != lt or ot.offset != off:
        return "OffsetTime(%d ns, %d s) reads back ns=%r offset=%r" % (n, o, ot.nanosecond_of_day, ot.offset.seconds)
    # all clock fields on a quarter-hour grid of offsets and at the range ends; hour + sub-second otherwise
    names = FIELD_NAMES if (tier == "thorough" or o % 900 == 0 or abs(o) >= 64799 or abs(o) <= 1) else ("hour", "nanosecond_of_second")
    for name in names:
        if getattr(ot, name) != tf[name]:
            return "OffsetTime(%d ns, %d s).%s=%r, model %r" % (n, o, name, getattr(ot, name), tf[name])
    w = ot.with_offset(neg)
    ot2 = lt.with_offset(off)
    if w.nanosecond_of_day != n or w.offset.seconds != -o:
        return "OffsetTime(%d ns, %d s).with_offset(%d s) reads back ns=%r offset=%r" % (n, o, -o, w.nanosecond_of_day, w.offset.seconds)
    if not (ot2 == ot) or hash(ot2) != hash(ot) or (ot2 != ot):
        return "two OffsetTime values built from (%d ns, %d s) are unequal or hash differently" % (n, o)
    return None


def offsets_worker(args):
    return guarded("offsets", _offsets_worker, args, None)


def _offsets_worker(args, acc):
    tier, lo, hi, seed = args
    E = env()
    rg = E.ranges
    nods = nod_alphabet(tier)
    lts = [LocalTime.from_nanoseconds_since_midnight(n) for n in nods]
    fields = [R.time_fields(n) for n in nods]
    insts = [D2024 * NSD - 1, D2024 * NSD + BIT46]
    if tier == "thorough":
        insts += [0, D2024 * NSD, -1, -100 * NSD + 6 * H + 1]
    k = (seed * 104729) % 20000
    if k * NSD - 1 not in insts:
        insts.append(k * NSD - 1)
    real_insts = [mk_instant(i) for i in insts]
    cals = ["ISO", "Hebrew Civil"] if tier == "thorough" else ["ISO"]
    date = LocalDate(2024, 2, 29)
    for o in range(lo, hi):
        off = Offset.from_seconds(o)
        neg = Offset.from_seconds(-o)
        for j, n in enumerate(nods):
            acc.count(states=1, evaluations=1, transitions=2)
            try:
                bad = _offset_time_case(tier, lts[j], n, o, off, neg, fields[j])
            except Exception as e:  # noqa: BLE001
                if exc_origin(e) == "harness":
                    raise
                bad = "OffsetTime(%d ns, %d s): %s: %s" % (n, o, type(e).__name__, str(e)[:200].replace("\n", " "))
            if bad:
                acc.violation("C11/offsets/offset-time-packing/%s,%s" % ("nod>=2^46" if n >= BIT46 else "nod<2^46", "neg-offset" if o < 0 else "offset>=0"),
                              bad, {"part": "offsets", "nod": n, "offset": o})
            elif o < 0 or n >= BIT46:
                acc.count(nontrivial=1)
        try:
            # OffsetTime.on(date): local parts kept
            acc.count(evaluations=1)
            v = OffsetTime(lts[1], off).on(date)
            m = R.M(R.instant_of(D2024, nods[1], o), o, "ISO")
            if canon(v) != m.key() or ins_ns(v.to_instant()) != m.i:
                acc.violation("C11/offsets/conv:OffsetTime.on/%s" % ("neg-offset" if o < 0 else "offset>=0"),
                              "OffsetTime(%d ns, %d s).on(2024-02-29) gave %r instant %d; model %r instant %d"
                              % (nods[1], o, canon(v), ins_ns(v.to_instant()), m.key(), m.i), {"part": "offsets", "offset": o})
            for idx, i in enumerate(insts):
                for c in cals:
                    acc.count(states=1, transitions=2, evaluations=3)
                    m = R.m_create(rg, i, o, c)
                    v = real_insts[idx].with_offset(off, E.cals[c])
                    if canon(v) != m.key() or ins_ns(v.to_instant()) != i:
                        acc.violation("C11/offsets/create/%s" % _cal_cls(c), "Instant(%d).with_offset(%d s, %s) gave %r instant %d; model %r"
                                      % (i, o, c, canon(v), ins_ns(v.to_instant()), m.key()), {"part": "offsets", "instant": i, "offset": o, "calendar": c})
                        continue
                    m2 = R.m_with_offset(rg, m, -o)
                    w = v.with_offset(neg)
                    if canon(w) != m2.key() or ins_ns(w.to_instant()) != i:
                        acc.violation("C11/offsets/with_offset/%s" % _carry_cls(m, m2),
                                      "(instant %d, offset %d s, %s).with_offset(%d s) gave %r instant %d; model %r"
                                      % (i, o, c, -o, canon(w), ins_ns(w.to_instant()), m2.key()),
                                      {"part": "offsets", "instant": i, "offset": o, "calendar": c})
                    else:
                        carry = m2.local()[0] - m.local()[0]
                        acc.outcome("with_offset(-o): local day moves by %+d" % carry)
                        if carry:
                            acc.count(nontrivial=1)
        except Exception as e:  # noqa: BLE001
            acc.lib_exception("C11/offsets/odt", e, {"part": "offsets", "offset": o})
    acc.sample({"offsets sweep chunk": [lo, hi], "nods": len(nods), "instants": len(insts), "calendars": cals})
    return acc


# ------------------------------------------------------------------------------------------------ run / replay

def _rot(xs, seed):
    xs = list(xs)
    if not xs:
        return xs
    k = seed % len(xs)
    return xs[k:] + xs[:k]


def run(ctx):
    E = env()
    rg = E.ranges
    tier, seed = ctx.tier, ctx.seed
    only = getattr(ctx, "only", None)
    for dmsg in E.degraded:
        ctx.degrade(dmsg)
    ctx.rule = ("non-trivial = measured count of executed transitions whose result lies on another local day than the operand "
                "(day carry), changes calendar, must be refused at a range edge, crosses a zone transition (zdt), uses a negative "
                "offset or a nanosecond-of-day >= 2^46 (packing), or an elapsed-time pair with different offsets/calendars")
    ctx.assumptions = [
        "calendar day ranges and the Instant range are read from the implementation (configuration, not oracle)",
        "the offset of a zone at an instant is taken from zone.get_utc_offset (the property says 're-derived from the zone'); "
        "zone correctness itself is C04-C06",
        "values built from local parts whose instant falls outside the Instant range are legal; only their to_instant() may refuse",
        "OffsetDateTime.in_zone is only required to keep the instant and use the zone's offset (calendar retention is recorded, not demanded)",
        "ZonedDateTime exposes only '+ Duration' on this tree; other spellings are exercised when present",
    ]
    offs = OFFS_FULL if tier == "thorough" else OFFS_QUICK
    cal_ids = E.cal_ids
    ctx.note("calendars", len(cal_ids))
    ctx.note("calendar_day_ranges", {c: list(rg.cal_days[c]) for c in cal_ids})

    if not only or "odt" in only:
        bases = base_instants(tier, seed, rg)
        shards = []
        for b in bases:
            for g in range(0, len(cal_ids), 3):
                shards.append((tier, b, cal_ids[g:g + 3], offs, cal_ids))
        # per-calendar range ends: first and last instant whose UTC local date is inside the calendar
        for c in cal_ids:
            lo, hi = rg.cal_days[c]
            for b in (lo * NSD, hi * NSD + NSD - 1):
                if b not in bases:
                    cs = [c] if c == "ISO" else [c, "ISO"]
                    shards.append((tier, b, cs, offs, cs))
        shards = _rot(shards, seed)
        all_hashes = set()
        frontier = {}
        for acc, hashes, fr in pmap(odt_depth1, shards, ctx.procs):
            ctx.merge_part("odt depth<=1", acc)
            all_hashes.update(hashes)
            for init, op, k in fr:
                if k not in frontier:
                    frontier[k] = (init, op, k)
        d1_states = len(all_hashes)
        items = list(frontier.values())
        if tier == "quick":
            keep = {"ISO", "Julian", "Hebrew Civil", "Badi", "Um Al Qura"}
            before = len(items)
            items = [it for it in items if it[2][3] in keep and it[0][0] in set(bases)]
            ctx.cap("quick tier: depth-2 expansion only from depth-1 states in calendars %s reached from the base instants "
                    "(%d of %d frontier states); thorough expands all" % (sorted(keep), len(items), before))
        items = _rot(items, seed)
        size = max(1, min(400, len(items) // (ctx.procs * 4) + 1))
        jobs = [(tier, items[a:b]) for a, b in chunks(0, len(items), size)]
        for acc, hashes in pmap(odt_depth2, jobs, ctx.procs):
            ctx.merge_part("odt depth 2", acc)
            all_hashes.update(hashes)
        # states are counted once, globally de-duplicated over all shards and both depths
        st = Acc()
        st.count(states=len(all_hashes))
        ctx.merge_part("odt distinct states (global)", st)
        ctx.note("odt", {"base_instants": len(bases), "shards": len(shards), "distinct_states_depth<=1": d1_states,
                         "frontier_expanded_at_depth_2": len(items), "distinct_states_total": len(all_hashes),
                         "operations_in_alphabet": len(odt_ops(tier, E)), "offsets": offs})

    if not only or "zdt" in only:
        jobs = []
        ntr = {}
        for zidx, (zid, _z) in enumerate(E.zones):
            xs, n = zdt_instants(zidx, tier, seed)
            ntr[zid] = {"transitions_to_2040": n, "instants": len(xs)}
            d2 = set(cal_ids) if tier == "thorough" else ({"ISO", "Julian", "Hebrew Civil", "Badi"} | set(cal_ids[::3]))
            per = 6 if tier == "thorough" else 12
            for a, b in chunks(0, len(xs), per):
                jobs.append((tier, zidx, xs[a:b], cal_ids, d2))
        if tier == "quick":
            ctx.cap("quick tier: zdt depth-2 only in calendars %s; thorough uses all" % sorted(d2))
        for acc in pmap(zdt_worker, _rot(jobs, seed), ctx.procs):
            ctx.merge_part("zdt", acc)
        ctx.note("zdt zones", ntr)

    if not only or "zlocal" in only:
        zl_cals = [c for c in (["ISO", "Julian", "Hebrew Civil"] if tier == "quick" else cal_ids) if c in E.cals]
        jobs = [(tier, zidx, zl_cals) for zidx in range(len(E.zones))]
        for acc in pmap(zlocal_worker, _rot(jobs, seed), ctx.procs):
            ctx.merge_part("zdt ctor(local, zone, offset)", acc)

    if not only or "zstart" in only:
        zs_cals = [c for c in (["ISO", "Julian", "Hebrew Civil", "Persian Simple"] if tier == "quick" else cal_ids) if c in E.cals]
        zs_zones = list(START_ZONES) + [zid for zid, z in E.zones if type(z).__name__ != "_FixedDateTimeZone"]
        for acc in pmap(zstart_worker, _rot([(tier, zid, zs_cals) for zid in zs_zones], seed), ctx.procs):
            ctx.merge_part("zdt at_start_of_day", acc)

    if not only or "zclock" in only:
        zc_cals = ["Julian", "Hebrew Civil", "ISO"] if tier == "quick" else ["Julian", "Hebrew Civil", "ISO", "Badi"]
        zc_cals = [c for c in zc_cals if c in E.cals]
        jobs = [(tier, zidx, c, seed, 3) for zidx, (zid, z) in enumerate(E.zones) for c in zc_cals
                if zone_transitions(z, 25567 * NSD, rg)]
        for acc in pmap(zclock_worker, _rot(jobs, seed), ctx.procs):
            ctx.merge_part("zclock", acc)
        if tier == "quick":
            ctx.cap("quick tier: ZonedClock histories in calendars %s with resets to 8 transition-adjacent instants per zone; "
                    "thorough adds Badi and 6 more reset targets from the zdt instant alphabet" % zc_cals)

    if not only or "offsets" in only:
        jobs = [(tier, a, b, seed) for a, b in chunks(R.OFFSET_MIN_S, R.OFFSET_MAX_S + 1, 2048)]
        for acc in pmap(offsets_worker, _rot(jobs, seed), ctx.procs):
            ctx.merge_part("offsets sweep", acc)
        ctx.note("offsets sweep", {"offsets": R.OFFSET_MAX_S - R.OFFSET_MIN_S + 1, "nanosecond_of_day_alphabet": nod_alphabet(tier)})

    # the offsets sweep is complete over its declared space; the explorations are complete over their alphabets up to depth 2
    # except where a cap was recorded
    ctx.exhaustive = not ctx.caps and not only


def replay(rec) -> bool:
    """Re-run one recorded case; True when the violation reproduces."""
    E = env()
    rg = E.ranges
    case = rec.get("case") or {}
    if "case" in case and isinstance(case["case"], dict):
        case = case["case"]
    part = case.get("part")
    acc = Acc()
    if part == "odt":
        init = tuple(case["init"])
        path = [tuple(p) for p in case["path"]]
        m = R.m_create(rg, *init)
        try:
            v = create(*init)
        except Exception:  # noqa: BLE001
            return m is not RAISES
        if m is RAISES:
            return True
        check_core(acc, "odt", v, m, rg, case)
        done = []
        for op in path:
            res = step(acc, "odt", rg, v, m, op, init, done)
            if res is None:
                break
            v, m, cop = res
            done.append(cop)
            check_core(acc, "odt", v, m, rg, case)
            check_full(acc, "odt", v, m, rg, case, make_partners(rg))
        return bool(acc.violations)
    if part == "zdt":
        zid = case["init"][1]
        zidx = [z[0] for z in E.zones].index(zid)
        a = zdt_worker(("thorough", zidx, [case["init"][0]], [case["init"][2]], {case["init"][2]}))
        return bool(a.violations)
    if part == "zstart":
        return bool(zstart_worker(("thorough", case["zone"], [case["calendar"]])).violations)
    if part == "zlocal":
        zidx = [z[0] for z in E.zones].index(case["zone"])
        return bool(zlocal_worker(("thorough", zidx, [case["calendar"]])).violations)
    if part == "zclock":
        zidx = [z[0] for z in E.zones].index(case["zone"])
        a = zclock_worker(("thorough", zidx, case["calendar"], rec.get("seed", 0), max(1, len(case.get("sequence", [])))))
        if not a.violations:
            a = zclock_worker(("quick", zidx, case["calendar"], rec.get("seed", 0), max(1, len(case.get("sequence", [])))))
        return bool(a.violations)
    if part == "offsets":
        o = case["offset"]
        a = offsets_worker(("thorough", o, o + 1, 0))
        return bool(a.violations)
    if "a" in case and "b" in case:
        a, b = case["a"], case["b"]
        va, vb = create(*a), create(*b)
        return (va - vb).to_nanoseconds() != a[0] - b[0]
    return False
