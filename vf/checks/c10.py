"""C10 - LocalTime / LocalDateTime time arithmetic is exact and carries correctly (exploration against Python ints).

Reference model (vf/models/intarith.py): a LocalTime is its nanosecond-of-day t in [0, 86400e9); adding n units of
U ns gives (t + n*U) mod 86400e9; a LocalDateTime is (day number, t); adding gives divmod(day*86400e9 + t + n*U,
86400e9) and the day must stay inside the calendar (otherwise the call must raise).  A period is applied date units
first (years, months, weeks, days - the library's own LocalDate arithmetic is the oracle for those, C09 owns them)
and then the sum of its time units with the same carry.

Parts
  time-accessors   every second boundary of the day -1/0/+1 ns plus the sub-second alphabet: all accessors of LocalTime
                   and of the OffsetTime duplicates decompose the nanosecond-of-day exactly
  time-factories   LocalTime(...) and every from_* factory accept exactly the documented ranges
  time-plus        times x 7 units x amounts (multiples of a day +/-1, time-dependent, beyond 2^64): plus_<unit>,
                   + / - Period (single and mixed components); results re-enter the frontier (BFS)
  ldt-plus         calendars x dates (range ends, epoch, year ends) x times x 6 units x amounts: plus_<unit>
  ldt-period       plus/minus/+/-(Period): every single component crossing midnight and whole days, mixed-sign and
                   huge cancelling components, years/months first, (x + p) - p == x
  ldt-cancel       every ordered pair of units (weeks, days and the six time units): +K days' worth against -K days' worth,
                   K in {2^31, 2^40, 2^64}, through plus/+/add/minus/-/subtract in every calendar
  ldt-yearmonth    periods with BOTH years and months (all sign combinations, with and without a time part) on the month ends of a
                   leap year and the following year of every calendar, plus and minus routes (order of the two clampings)
"""
from __future__ import annotations

import functools

from pyoda_time import CalendarSystem, LocalDate, LocalDateTime, LocalTime, Offset, OffsetTime, Period

from vf.core.evidence import Acc, exc_origin
from vf.core.par import pmap
from vf.models import intarith as M
from vf.models.valbind import cal_range, date_at, day_of, make_kwf, private_ok

LEVEL = "model_checking"
NSD = M.NS_DAY
TIME_UNITS = ("hours", "minutes", "seconds", "milliseconds", "microseconds", "ticks", "nanoseconds")
LDT_UNITS = ("hours", "minutes", "seconds", "milliseconds", "ticks", "nanoseconds")   # LocalDateTime/Period have no microseconds
ISO_EPOCH = LocalDate(1970, 1, 1)


# ------------------------------------------------------------------------------------------------ binding helpers
def worker(fn):
    @functools.wraps(fn)
    def w(job):
        try:
            return fn(job)
        except Exception as e:  # noqa: BLE001
            if exc_origin(e) == "harness":
                raise
            acc = Acc()
            acc.lib_exception("C10/%s/shard-aborted" % fn.__name__, e, {"job": repr(job)[:400]})
            return acc, []
    return w


def guarded(acc, prefix, case, fn, *a, **kw):
    try:
        return fn(acc, *a, **kw)
    except Exception as e:  # noqa: BLE001
        if exc_origin(e) == "harness":
            raise
        acc.lib_exception(prefix, e, case)
        return None


def mk_time(t):
    return LocalTime.from_nanoseconds_since_midnight(t)


def cal_dates(cal_id, thorough):
    cal = CalendarSystem.for_id(cal_id)
    lo, hi, _ = cal_range(cal_id)
    v = {lo, lo + 1, hi - 1, hi}
    for n in (0, -1, 11016, 19782):
        if lo < n < hi:
            v.add(n)
    mid = (cal.min_year + cal.max_year) // 2
    years = (mid, mid + 1) if not thorough else (cal.min_year + 1, mid, mid + 1, mid + 2, mid + 3, cal.max_year - 1)
    for y in years:
        if cal.min_year < y <= cal.max_year:
            n = day_of(LocalDate(y, 1, 1, cal))
            v.add(n)
            v.add(n - 1)
            if thorough:
                for m in range(1, cal.get_months_in_year(y) + 1):
                    v.add(day_of(LocalDate(y, m, cal.get_days_in_month(y, m), cal)))
    return sorted(v)


# ------------------------------------------------------------------------------------------------ alphabets
def time_alphabet():
    v = {0, 1, 99, 100, 101, 999, 1000, 1001, M.NS_MS - 1, M.NS_MS, M.NS_MS + 1, M.NS_S - 1, M.NS_S, M.NS_S + 1,
         M.NS_MIN - 1, M.NS_MIN, M.NS_MIN + 1, M.NS_H - 1, M.NS_H, M.NS_H + 1, 12 * M.NS_H - 1, 12 * M.NS_H, 12 * M.NS_H + 1,
         13 * M.NS_H + 5 * M.NS_MIN + 7 * M.NS_S + 123_456_789,
         NSD - 1, NSD - 99, NSD - 100, NSD - 101, NSD - 1000, NSD - M.NS_MS, NSD - M.NS_S, NSD - M.NS_S - 1, NSD - M.NS_MIN, NSD - M.NS_H,
         NSD - M.NS_H - 1, 2 ** 45, 2 ** 46, 2 ** 46 - 1, 2 ** 46 + 1, 70_368_744_177_664 - 1}
    return sorted(x for x in v if 0 <= x < NSD)


LDT_TIMES = (0, 1, 999_999_999, 12 * M.NS_H, NSD - 100, NSD - 1)
HUGE_K = (10 ** 15, 10 ** 21, 10 ** 27)
FULL_CALS = ("ISO", "Hebrew Civil", "Badi")      # calendars given the full period list in the quick tier


KW_NAMES = {"LocalTime.add": ("time", "period"), "LocalTime.plus": ("period",), "LocalTime.max": ("x", "y"), "LocalTime.min": ("x", "y"),
            "LocalDateTime.add": ("local_date_time", "period"), "LocalDateTime.plus": ("period",), "LocalDateTime.max": ("x", "y"),
            "LocalDateTime.min": ("x", "y")}
for _u in ("hours", "minutes", "seconds", "milliseconds", "microseconds", "ticks", "nanoseconds"):
    KW_NAMES["LocalTime.plus_" + _u] = (_u,)
    if _u != "microseconds":
        KW_NAMES["LocalDateTime.plus_" + _u] = (_u,)
        KW_NAMES["Period.from_" + _u] = (_u,)
kwf = make_kwf(KW_NAMES, {"LocalTime": LocalTime, "LocalDateTime": LocalDateTime, "Period": Period})

S = M.show          # text of an int of any size (never trips the int->str digit limit)
E = M.enc           # JSON-safe form of an int of any size
BIG10 = 10 ** M.STR_LIMIT_POW10      # more decimal digits than sys.get_int_max_str_digits(): text conversion of it fails


class Lazy:
    """text built only when it is printed (violation messages)"""
    __slots__ = ("f",)

    def __init__(self, f):
        self.f = f

    def __str__(self):
        return self.f()


def comp_txt(comp):
    return "{%s}" % ", ".join("%s: %s" % (k, S(v)) for k, v in comp.items())


def comp_enc(comp):
    return {k: E(v) for k, v in comp.items()}


def wrap_days(full):
    """whole-day counts (k*2^32 + j) and (k*2^64 + j): a carry that is reduced modulo a machine word lands j days away"""
    ks = (1, -1, 2, -2) if full else (1, -2)
    js = (0, 1, -1, 400, -400) if full else (0, -1, 400)
    return [k * w + j for w in (2 ** 32, 2 ** 64) for k in ks for j in js]


def wrap_amounts(unit, full):
    upd = NSD // M.UNIT_NS[unit]
    rs = (0, 1, -1) if full else (0, 1)
    return [d * upd + r for d in wrap_days(full) for r in rs]


def amounts(unit, t=None, rich=True, ext=False):
    """signed amounts of `unit`: small, around whole multiples of a day (large and within +/-1 unit), powers of ten,
    beyond 2^63 / 2^64, and (when t is given) the amounts that land exactly on midnight from t"""
    u = M.UNIT_NS[unit]
    upd = NSD // u
    v = {0, 1, -1, 2, -2}
    ks = (1, 2, 129, 16385) if rich else (1, 3)
    for k in ks:
        for d in (-1, 0, 1):
            v.add(k * upd + d)
            v.add(-(k * upd + d))
    if rich:
        for e in (3, 6, 9, 12, 15, 18):
            v.add(10 ** e)
            v.add(-(10 ** e))
        for x in (2 ** 63 - 1, 2 ** 63, 2 ** 64 + 1):
            v.add(x)
            v.add(-x)
        for k in HUGE_K + (10 ** 30,):
            for d in (-1, 0, 1):
                v.add(k * upd + d)
                v.add(-(k * upd + d))
    if ext:
        # numeric-tower boundaries: C int / double mantissa / beyond-double ints / beyond the int->str digit limit,
        # and whole-day counts that are j days modulo 2^32 / 2^64 (ext == "full": the complete k, j, r grid)
        v.update(M.tower(False))
        for b in (2 ** 31, 2 ** 53, 2 ** 1024):
            v.update((b + 1, b - 1, -b - 1, -b + 1))
        for d in (-1, 0, 1):
            v.add(BIG10 + d)
            v.add(-(BIG10 + d))
        v.update(wrap_amounts(unit, ext == "full"))
    if t is not None:
        q, r = divmod(t, u)
        back = -q                      # lands on (or just after) midnight going backwards
        fwd = -(-(NSD - t) // u)       # first amount reaching the next midnight
        for a in (back, back - 1, fwd, fwd - 1, back - upd, fwd + upd, back - 129 * upd, fwd + 16385 * upd):
            v.add(a)
    return sorted(v, key=lambda x: (abs(x), x))


_P4000 = 10 ** 4000
_W64, _W32 = 2 ** 64, 2 ** 32


def carry_class(total_ns):
    """'' or a tag when the whole-day carry of total_ns is (a) beyond the int->str digit limit, (b) within 400 days of a multiple
    of 2^32 / 2^64 (a carry reduced modulo a machine word would land inside the calendar)"""
    if -_W32 // 2 * NSD < total_ns < _W32 // 2 * NSD:
        return ""
    d = M.tdiv(total_ns, NSD)
    if abs(d) >= _P4000:
        return "str-limit"
    if True:
        for w, name in ((_W64, "2^64"), (_W32, "2^32")):
            r = d % w
            if min(r, w - r) <= 400:
                return "carry-wraps-" + name
    return ""


def acls(n, unit, t):
    """input class of an amount for violation keys: sign, size class, and whether the exact result is midnight / wraps"""
    u = M.UNIT_NS[unit]
    total = t + n * u
    size = "zero" if n == 0 else ("lt-day" if abs(n * u) < NSD else ("eq-day" if abs(n * u) == NSD else ("gt-2^63" if abs(n) >= 2 ** 63 else "gt-day")))
    land = "midnight" if total % NSD == 0 else ("same-day" if 0 <= total < NSD else "carry")
    cc = carry_class(n * u)
    return "%s,%s,%s" % ("neg" if n < 0 else "pos", size + ("," + cc if cc else ""), land)


# ------------------------------------------------------------------------------------------------ LocalTime accessors
ACCESSORS = ("hour", "minute", "second", "millisecond", "microsecond", "tick_of_second", "tick_of_day", "nanosecond_of_second",
             "nanosecond_of_day", "clock_hour_of_half_day")
OT_ACCESSORS = ("hour", "minute", "second", "millisecond", "tick_of_second", "tick_of_day", "nanosecond_of_second", "nanosecond_of_day",
                "clock_hour_of_half_day")
OT_OFFSETS = (0, 1, -1, 19800, -3600, M.OFF_MAX_S, M.OFF_MIN_S)


def tclass(t):
    return "h%02d%s" % (t // M.NS_H, ",sub-second" if t % M.NS_S else "")


def check_time_value(acc, t, offsets):
    acc.count(states=1)
    case = {"kind": "time-value", "t": t}
    lt = mk_time(t)
    exp = M.time_components(t)
    for name in ACCESSORS:
        acc.count(evaluations=1)
        g = getattr(lt, name)
        if g != exp[name] or isinstance(g, bool) or not isinstance(g, int):
            acc.violation("C10/time/accessor/%s/%s" % (name, tclass(t)), "%s of nanosecond-of-day %d is %r, exact %r" % (name, t, g, exp[name]), case,
                          py=_py_time_accessor(t, name, exp[name]))
    acc.count(evaluations=1)
    if lt.hour * M.NS_H + lt.minute * M.NS_MIN + lt.second * M.NS_S + lt.nanosecond_of_second != t:
        acc.violation("C10/time/decomposition/%s" % tclass(t), "hour/minute/second/nanosecond_of_second of %d do not recompose it" % t, case)
    if tuple(lt) != (exp["hour"], exp["minute"], exp["second"]):
        acc.violation("C10/time/iter/%s" % tclass(t), "iter(LocalTime) gives %r" % (tuple(lt),), case)
    if t % M.NS_S in (0, M.NS_S - 1) or t % M.NS_TICK:
        acc.count(nontrivial=1)
    for o in offsets:
        ot = OffsetTime(lt, Offset.from_seconds(o))
        acc.count(transitions=1)
        for name in OT_ACCESSORS:
            acc.count(evaluations=1)
            g = getattr(ot, name)
            if g != exp[name]:
                acc.violation("C10/offsettime/accessor/%s/%s;o=%s" % (name, tclass(t), "neg" if o < 0 else ("pos" if o else "zero")),
                              "OffsetTime(%d ns, %d s).%s is %r, exact %r" % (t, o, name, g, exp[name]), dict(case, o=o))
        acc.count(evaluations=2)
        if ot.time_of_day != lt or ot.offset.seconds != o:
            acc.violation("C10/offsettime/roundtrip/%s" % tclass(t), "OffsetTime(%d ns, %d s) gives back (%r, %r)" % (t, o, ot.time_of_day.nanosecond_of_day, ot.offset.seconds),
                          dict(case, o=o))


def _py_time_accessor(t, name, e):
    return ("from pyoda_time import LocalTime\n\ndef test_replay():\n    assert LocalTime.from_nanoseconds_since_midnight(%d).%s == %d\n" % (t, name, e))


@worker
def w_time_sweep(job):
    lo, hi, deltas = job
    acc = Acc()
    for s in range(lo, hi):
        for d in deltas:
            t = s * M.NS_S + d
            if 0 <= t < NSD:
                guarded(acc, "C10/time/value", {"kind": "time-value", "t": t}, check_time_value, t, (OT_OFFSETS[(s + d) % len(OT_OFFSETS)],))
    acc.sample({"second_boundaries": [lo, hi], "example": M.time_components(lo * M.NS_S + 1 if lo * M.NS_S + 1 < NSD else 0)})
    return acc, []


def check_adjusters(acc, t):
    """TimeAdjusters.truncate_to_* and with_time_adjuster: floor to the unit"""
    from pyoda_time import TimeAdjusters
    lt = mk_time(t)
    case = {"kind": "time-adjuster", "t": t}
    for name, u in (("truncate_to_second", M.NS_S), ("truncate_to_minute", M.NS_MIN), ("truncate_to_hour", M.NS_H)):
        acc.count(transitions=2, evaluations=2)
        adj = getattr(TimeAdjusters, name)
        e = t - t % u
        for how, r in (("call", adj(lt)), ("with_time_adjuster", lt.with_time_adjuster(adj))):
            if not isinstance(r, LocalTime) or r.nanosecond_of_day != e:
                acc.violation("C10/time/adjuster/%s/%s" % (name, tclass(t)), "%s (%s) of nanosecond-of-day %d gives %r, exact %d" % (
                    name, how, t, getattr(r, "nanosecond_of_day", r), e), case)


@worker
def w_time_alpha(job):
    times, swept = job
    acc = Acc()
    for t in times:
        before = (acc.states, acc.nontrivial)
        guarded(acc, "C10/time/value", {"kind": "time-value", "t": t}, check_time_value, t, OT_OFFSETS)
        if t % M.NS_S in swept:
            acc.states, acc.nontrivial = before      # this time is also visited by the second-boundary sweep: count it once
        guarded(acc, "C10/time/adjuster", {"kind": "time-adjuster", "t": t}, check_adjusters, t)
    return acc, []


# ------------------------------------------------------------------------------------------------ factories
def must(acc, fn, ok, exp, key, what, case):
    """fn() must return a LocalTime with nanosecond-of-day exp when ok, raise (anything) otherwise"""
    acc.count(transitions=1, evaluations=1)
    try:
        r = fn()
    except Exception as e:  # noqa: BLE001
        if exc_origin(e) == "harness":
            raise
        if ok:
            acc.lib_exception(key, e, case)
        else:
            acc.outcome("raise:" + type(e).__name__)
        return
    if not ok:
        acc.violation(key + "/no-raise", "%s: outside the documented range but %r was returned" % (what, getattr(r, "nanosecond_of_day", r)), case)
        return
    acc.outcome("value")
    if not isinstance(r, LocalTime) or r.nanosecond_of_day != exp:
        acc.violation(key + "/value", "%s gives nanosecond-of-day %r, exact %d" % (what, getattr(r, "nanosecond_of_day", r), exp), case)


@worker
def w_factories(_):
    acc = Acc()
    hs, ms, ss = (-1, 0, 1, 12, 23, 24), (-1, 0, 30, 59, 60), (-1, 0, 59, 60)
    for h in hs:
        for mi in ms:
            for s in ss:
                okb = 0 <= h <= 23 and 0 <= mi <= 59 and 0 <= s <= 59
                base = h * M.NS_H + mi * M.NS_MIN + s * M.NS_S
                for x in (-1, 0, 999, 1000):
                    must(acc, lambda: LocalTime(h, mi, s, x), okb and 0 <= x <= 999, base + x * M.NS_MS, "C10/time/factory/init",
                         "LocalTime(%d,%d,%d,%d)" % (h, mi, s, x), {"kind": "factory", "f": "init", "args": [h, mi, s, x]})
                    for tk in (-1, 0, 9999, 10000):
                        must(acc, lambda: LocalTime.from_hour_minute_second_millisecond_tick(h, mi, s, x, tk), okb and 0 <= x <= 999 and 0 <= tk <= 9999,
                             base + x * M.NS_MS + tk * 100, "C10/time/factory/from_hour_minute_second_millisecond_tick",
                             "from_hour_minute_second_millisecond_tick(%d,%d,%d,%d,%d)" % (h, mi, s, x, tk), {"kind": "factory", "f": "hmsmt", "args": [h, mi, s, x, tk]})
                for tk in (-1, 0, 1, 9_999_999, 10_000_000):
                    must(acc, lambda: LocalTime.from_hour_minute_second_tick(h, mi, s, tk), okb and 0 <= tk <= 9_999_999, base + tk * 100,
                         "C10/time/factory/from_hour_minute_second_tick", "from_hour_minute_second_tick(%d,%d,%d,%d)" % (h, mi, s, tk),
                         {"kind": "factory", "f": "hmst", "args": [h, mi, s, tk]})
                for n in (-1, 0, 1, 999_999_999, 1_000_000_000):
                    must(acc, lambda: LocalTime.from_hour_minute_second_nanosecond(h, mi, s, n), okb and 0 <= n <= 999_999_999, base + n,
                         "C10/time/factory/from_hour_minute_second_nanosecond", "from_hour_minute_second_nanosecond(%d,%d,%d,%d)" % (h, mi, s, n),
                         {"kind": "factory", "f": "hmsn", "args": [h, mi, s, n]})
                acc.count(states=1, nontrivial=0 if okb else 1)
    for unit in ("nanoseconds", "ticks", "milliseconds", "seconds", "minutes", "hours"):
        u = M.UNIT_NS[unit]
        upd = NSD // u
        for n in (-(2 ** 63), -upd, -1, 0, 1, upd // 2, upd - 1, upd, upd + 1, 2 * upd - 1, 2 ** 63, 2 ** 64 + 5):
            must(acc, lambda: getattr(LocalTime, "from_%s_since_midnight" % unit)(n), 0 <= n < upd, n * u, "C10/time/factory/from_%s_since_midnight" % unit,
                 "from_%s_since_midnight(%d)" % (unit, n), {"kind": "factory", "f": unit, "args": [n]})
            acc.count(states=1, nontrivial=0 if 0 < n < upd - 1 else 1)
    acc.count(evaluations=3)
    if (LocalTime.midnight.nanosecond_of_day, LocalTime.noon.nanosecond_of_day, LocalTime.max_value.nanosecond_of_day, LocalTime.min_value.nanosecond_of_day) != (
            0, 12 * M.NS_H, NSD - 1, 0):
        acc.violation("C10/time/constants", "midnight/noon/max_value/min_value are not 0 / 12h / 24h-1ns / 0", None)
    return acc, []


# ------------------------------------------------------------------------------------------------ LocalTime arithmetic
def check_lt(acc, r, exp, key, what, case, py=None):
    if callable(py) and (not isinstance(r, LocalTime) or r.nanosecond_of_day != exp):
        py = py()
    elif callable(py):
        py = None
    if not isinstance(r, LocalTime):
        acc.violation(key + "/type", "%s returned %r" % (what, r), case, py)
        return False
    g = r.nanosecond_of_day
    if not (0 <= g < NSD):
        acc.violation(key + "/range", "%s gives nanosecond-of-day %d outside [0, 24h); exact %d" % (what, g, exp), case, py)
        return False
    if g != exp:
        acc.violation(key + "/value", "%s gives nanosecond-of-day %d, exact %d" % (what, g, exp), case, py)
        return False
    return True


def _py_time_plus(t, unit, n):
    return ("from pyoda_time import LocalTime\n\ndef test_replay():\n    t, n, unit_ns = %d, %s, %d\n"
            "    r = LocalTime.from_nanoseconds_since_midnight(t).plus_%s(n)\n    assert r.nanosecond_of_day == (t + n * unit_ns) %% (86400 * 10**9)\n" % (
                t, S(n), M.UNIT_NS[unit], unit))


def check_time_plus(acc, t, unit, n, new=None, kw=True):
    lt = mk_time(t)
    u = M.UNIT_NS[unit]
    exp = M.time_plus(t, n, u)
    cls = acls(n, unit, t)
    case = {"kind": "time-plus", "t": t, "unit": unit, "n": E(n)}
    acc.count(transitions=1, evaluations=1)
    r = getattr(lt, "plus_" + unit)(n)
    ok = check_lt(acc, r, exp, "C10/time/plus_%s/%s" % (unit, cls), "%d ns .plus_%s(%s)" % (t, unit, S(n)), case, lambda: _py_time_plus(t, unit, n))
    if ok and new is not None:
        new.add(exp)
    if not (0 <= t + n * u < NSD) or exp == 0:
        acc.count(nontrivial=1)
    acc.outcome("wrap" if not (0 <= t + n * u < NSD) else "same-day")
    if unit == "microseconds":
        return
    p = getattr(Period, "from_" + unit)(n)
    back = M.time_plus(t, -n, u)
    routes = [("add", lambda: lt + p, exp), ("plus", lambda: lt.plus(p), exp), ("add-static", lambda: LocalTime.add(lt, p), exp),
              ("sub", lambda: lt - p, back), ("minus", lambda: lt.minus(p), back), ("subtract-static", lambda: LocalTime.subtract(lt, p), back)]
    if kw:
        routes += [("add-static(keyword)", f, exp) for f in kwf(acc, "LocalTime.add", lt, p)]
        routes += [("plus(keyword)", f, exp) for f in kwf(acc, "LocalTime.plus", p, obj=lt)]
    for name, fn, e in routes:
        acc.count(transitions=1, evaluations=1)
        key = "C10/time/period-%s/%s/%s" % ("plus" if e is exp else "minus", unit, cls)
        c2 = dict(case, via=name)
        try:
            r = fn()
        except Exception as ex:  # noqa: BLE001
            if exc_origin(ex) == "harness":
                raise
            acc.lib_exception(key, ex, c2)
            continue
        ok = check_lt(acc, r, e, key, "%d ns %s Period(%s=%s)" % (t, name, unit, S(n)), c2)
        if ok and new is not None:
            new.add(e)
    # the unit method itself by keyword
    for f in (kwf(acc, "LocalTime.plus_" + unit, n, obj=lt) if kw else ()):
        acc.count(transitions=1, evaluations=1)
        check_lt(acc, f(), exp, "C10/time/plus_%s/%s" % (unit, cls), "%d ns .plus_%s(%s=%s)" % (t, unit, unit, S(n)), dict(case, via="keyword"))


MIX = (("hours", "nanoseconds"), ("minutes", "ticks"), ("seconds", "milliseconds"), ("hours", "minutes"), ("ticks", "nanoseconds"), ("milliseconds", "nanoseconds"))


def check_time_mixed(acc, t, ua, na, ub, nb):
    """a period with two non-zero time components (any signs)"""
    lt = mk_time(t)
    p = getattr(Period, "from_" + ua)(na) + getattr(Period, "from_" + ub)(nb)
    tot = na * M.UNIT_NS[ua] + nb * M.UNIT_NS[ub]
    case = {"kind": "time-mixed", "t": t, "ua": ua, "na": E(na), "ub": ub, "nb": E(nb)}
    cls = "%s+%s;%s%s" % (ua, ub, "neg" if na < 0 else "pos", "neg" if nb < 0 else "pos")
    acc.count(transitions=2, evaluations=2)
    check_lt(acc, lt + p, (t + tot) % NSD, "C10/time/period-mixed-add/" + cls, "%d ns + Period(%s=%s,%s=%s)" % (t, ua, S(na), ub, S(nb)), case)
    check_lt(acc, lt - p, (t - tot) % NSD, "C10/time/period-mixed-sub/" + cls, "%d ns - Period(%s=%s,%s=%s)" % (t, ua, S(na), ub, S(nb)), case)
    if not (0 <= t + tot < NSD):
        acc.count(nontrivial=1)


@worker
def w_time_plus(job):
    times, rich, mixed = job
    acc = Acc()
    new = set()
    for t in times:
        acc.count(states=1)
        for unit in TIME_UNITS:
            for idx, n in enumerate(amounts(unit, t, rich, ext=rich)):
                # keyword spellings on every third amount of the (magnitude-ordered) list: all size classes, a third of the cost
                guarded(acc, "C10/time/plus_" + unit, {"kind": "time-plus", "t": t, "unit": unit, "n": E(n)}, check_time_plus, t, unit, n, new, kw=(idx % 3 == 0))
        if mixed:
            for ua, ub in MIX:
                A = amounts(ua, t, False)
                B = amounts(ub, t, False)
                for na in A:
                    for nb in B:
                        if na and nb:
                            guarded(acc, "C10/time/period-mixed", {"kind": "time-mixed", "t": t, "ua": ua, "na": E(na), "ub": ub, "nb": E(nb)},
                                    check_time_mixed, t, ua, na, ub, nb)
            for k in (10 ** 21, 2 ** 64, BIG10):
                for ua, ub in MIX:
                    na, nb = k * (NSD // M.UNIT_NS[ua]), -(k * (NSD // M.UNIT_NS[ub]) - 1)
                    guarded(acc, "C10/time/period-mixed", {"kind": "time-mixed", "t": t, "ua": ua, "na": E(na), "ub": ub, "nb": E(nb)},
                            check_time_mixed, t, ua, na, ub, nb)
    if times:
        acc.sample({"time": times[0], "units": list(TIME_UNITS), "amounts_per_unit": len(amounts("ticks", times[0], rich))})
    return acc, sorted(new)


# ------------------------------------------------------------------------------------------------ LocalDateTime
def mk_ldt(cal, day, t):
    return date_at(day, cal).at(mk_time(t))


def obs_ldt(r):
    return day_of(r.date), r.nanosecond_of_day, r.calendar.id


def _py_ldt(cal_id, day, t, call, ed, en, in_range):
    if callable(call):
        call = call()
    return ("from pyoda_time import *\n\ndef test_replay():\n    cal = CalendarSystem.for_id(%r)\n"
            "    x = LocalDate(1970, 1, 1).plus_days(%d).with_calendar(cal).at(LocalTime.from_nanoseconds_since_midnight(%d))\n"
            "    in_range = %r\n    try:\n        r = %s\n    except Exception:\n        assert not in_range\n        return\n"
            "    assert in_range, 'result outside the calendar was returned'\n"
            "    assert Period.days_between(LocalDate(1970, 1, 1), r.date.with_calendar(CalendarSystem.iso)) == %s\n"
            "    assert r.nanosecond_of_day == %d and r.calendar == cal\n" % (cal_id, day, t, in_range, call, S(ed), en))


def expect_ldt(acc, fn, cal_id, day, t, total, key, what, case, call=None, mid_ok=True, day0=None, flat=False):
    """fn() must give divmod(day*NSD + t + total) in the same calendar, or raise when that day is outside the calendar"""
    lo, hi, consistent = cal_range(cal_id)
    if callable(what):
        what = Lazy(what)
    ed, en = M.ldt_plus(day, t, total)
    inr = lo <= ed <= hi
    acc.count(transitions=1, evaluations=1)
    try:
        r = fn()
    except Exception as e:  # noqa: BLE001
        if exc_origin(e) == "harness":
            raise
        if inr and mid_ok:
            py = _py_ldt(cal_id, day0 if day0 is not None else day, t, call, ed, en, inr) if call else None
            acc.violation(key if flat else "%s/raises-in-range/%s" % (key, type(e).__name__), "%s raised %s: %s; exact result day %s, ns %d is inside the calendar" % (
                what, type(e).__name__, str(e)[:100], S(ed), en), case, py)
        else:
            acc.outcome("raise:" + type(e).__name__)
        return None
    py = None
    if not inr:
        if consistent:
            py = _py_ldt(cal_id, day0 if day0 is not None else day, t, call, ed, en, inr) if call else None
            acc.violation(key if flat else key + "/no-raise", "%s: exact result day %s is outside the calendar [%d, %d] but %r was returned" % (what, S(ed), lo, hi, obs_ldt_safe(r)), case, py)
        else:
            acc.outcome("beyond-public-range(private day range differs: C01)")
        return None
    acc.outcome("value:carry" if ed != day else "value:same-day")
    if not isinstance(r, LocalDateTime):
        acc.violation(key + "/type", "%s returned %r" % (what, r), case, None)
        return None
    g = obs_ldt(r)
    if g != (ed, en, cal_id):
        py = _py_ldt(cal_id, day0 if day0 is not None else day, t, call, ed, en, inr) if call else None
        acc.violation(key if flat else key + "/value", "%s gives (day %d, ns %d, %s), exact (day %s, ns %d, %s)" % (what, g[0], g[1], g[2], S(ed), en, cal_id), case, py)
        return None
    return r


def obs_ldt_safe(r):
    try:
        return obs_ldt(r)
    except Exception:  # noqa: BLE001
        return repr(type(r))


def dcls(cal_id, day):
    """date class for keys (the calendar itself goes into the text/case: time carry is calendar independent)"""
    lo, hi, _ = cal_range(cal_id)
    return "range-start" if day <= lo + 1 else ("range-end" if day >= hi - 1 else "mid")


def check_ldt_plus(acc, cal_id, day, t, unit, n, kw=False):
    cal = CalendarSystem.for_id(cal_id)
    x = mk_ldt(cal, day, t)
    u = M.UNIT_NS[unit]
    case = {"kind": "ldt-plus", "cal": cal_id, "day": day, "t": t, "unit": unit, "n": E(n)}
    key = "C10/ldt/plus_%s/%s;%s" % (unit, dcls(cal_id, day), acls(n, unit, t))
    expect_ldt(acc, lambda: getattr(x, "plus_" + unit)(n), cal_id, day, t, n * u, key, lambda: "%s day %d + %d ns .plus_%s(%s)" % (cal_id, day, t, unit, S(n)), case,
               call=lambda: "x.plus_%s(%s)" % (unit, S(n)))
    if kw:
        for f in kwf(acc, "LocalDateTime.plus_" + unit, n, obj=x):
            expect_ldt(acc, f, cal_id, day, t, n * u, key + ",keyword", lambda: "%s day %d + %d ns .plus_%s(%s=%s)" % (cal_id, day, t, unit, unit, S(n)), case,
                       call=lambda: "x.plus_%s(%s=%s)" % (unit, unit, S(n)))
    if not (0 <= t + n * u < NSD):
        acc.count(nontrivial=1)


@worker
def w_ldt_plus(job):
    cal_id, days, times, rich = job
    acc = Acc()
    first_mid = None
    for day in days:
        mid = dcls(cal_id, day) == "mid"
        if mid and first_mid is None:
            first_mid = day
        for t in times:
            acc.count(states=1)
            # numeric-tower / word-wrap / beyond-str-limit amounts: on dates with room on both sides (a wrapped day carry lands inside
            # the calendar there) at the first and last instant of the day; the complete (k, j, r) wrap grid once per calendar
            ext = False
            if mid and t in (0, NSD - 1):
                ext = "full" if (day == first_mid and t == 0) else True
            for unit in LDT_UNITS:
                for idx, n in enumerate(amounts(unit, t, rich, ext=ext)):
                    guarded(acc, "C10/ldt/plus_" + unit, {"kind": "ldt-plus", "cal": cal_id, "day": day, "t": t, "unit": unit, "n": E(n)},
                            check_ldt_plus, cal_id, day, t, unit, n, kw=(t == 0 and idx % 4 == 0))
    acc.sample({"calendar": cal_id, "days": days[:4], "times": list(times)[:3]})
    return acc, []


# periods -----------------------------------------------------------------------------------------------------------
def build_period(comp):
    p = None
    for name in ("years", "months", "weeks", "days", "hours", "minutes", "seconds", "milliseconds", "ticks", "nanoseconds"):
        v = comp.get(name, 0)
        if v:
            q = getattr(Period, "from_" + name)(v)
            p = q if p is None else p + q
    return p if p is not None else Period.zero


def period_list(t, level, mid=False):
    """list of component dicts.  level 'basic': every single non-zero time component crossing midnight / spanning whole days,
    a component against whole days of the opposite sign (small and beyond 2^64), date units with time units;
    'full' adds more magnitudes and mixed-sign pairs of time components; 'thorough' adds further magnitudes."""
    full = level != "basic"
    out = []
    for unit in LDT_UNITS:
        u = M.UNIT_NS[unit]
        upd = NSD // u
        q = t // u
        fwd = -(-(NSD - t) // u)
        single = {1, -1, upd, -upd, upd + 1, -(upd - 1), 3 * upd + 1, -(129 * upd - 1), -q, -q - 1, fwd, fwd - 1}
        if full:
            single |= {upd - 1, -(upd + 1), -(3 * upd + 1), 129 * upd - 1, -q - 2 * upd, fwd + 2 * upd}
        if level == "thorough":
            single |= {2 * upd, -2 * upd, 16385 * upd + 1, -(16385 * upd + 1), 16385 * upd - 1, -(16385 * upd - 1), 2 ** 31, -(2 ** 31) - 1}
        for n in sorted(single, key=lambda x: (abs(x), x)):
            if n:
                out.append({unit: n})
        # the same component against whole days of the opposite sign (net effect within +/-1 unit of zero)
        ks = ((1, 400) + HUGE_K + (10 ** 30,)) if full else (1, 10 ** 15, 10 ** 27)
        for k in ks:
            for d in ((-1, 0, 1) if full else (-1, 1)):
                out.append({"days": -k, unit: k * upd + d})
                out.append({"days": k, unit: -(k * upd + d)})
        out.append({"weeks": -1, unit: 7 * upd + 1})
    if full:
        for ua, ub in MIX:
            if ua == "microseconds" or ub == "microseconds":
                continue
            a, b = NSD // M.UNIT_NS[ua], NSD // M.UNIT_NS[ub]
            for na, nb in ((a, -b), (-a, b), (a, -b - 1), (-a, b + 1), (1, -1), (2 * a + 1, -2 * b), (10 ** 21 * a, -(10 ** 21 * b - 1)), (-(10 ** 27) * a, 10 ** 27 * b + 1)):
                out.append({ua: na, ub: nb})
    if mid:
        # dates with room on both sides: a time component worth (k*2^32 + j) or (k*2^64 + j) whole days (+/- one unit) must raise,
        # amounts beyond the int->str digit limit must raise alone and cancel exactly against whole days
        for unit in LDT_UNITS:
            upd = NSD // M.UNIT_NS[unit]
            if full and t in (0, NSD - 1):
                wl = wrap_amounts(unit, False)
            else:
                wl = [2 ** 32 * upd, (-2 * 2 ** 32 - 1) * upd + 1, (2 ** 64 + 400) * upd, -(2 ** 64) * upd - 1]
            for a in wl:
                out.append({unit: a})
            if t == 0:
                out.append({unit: BIG10 + 1})
                out.append({unit: -BIG10})
        out.append({"days": -BIG10, "nanoseconds": BIG10 * NSD + 1})
        out.append({"days": BIG10, "hours": -(BIG10 * 24) - 1})
    out += [{"days": 1}, {"days": -1}, {"days": 400, "hours": -1}, {"weeks": 1, "nanoseconds": -1}, {"weeks": -1, "ticks": 1},
            {"hours": 23, "minutes": 59, "seconds": 59, "milliseconds": 999, "ticks": 9999, "nanoseconds": 99},
            {"hours": -23, "minutes": -59, "seconds": -59, "milliseconds": -999, "ticks": -9999, "nanoseconds": -100},
            {"hours": 1, "minutes": -60, "seconds": 60, "milliseconds": -60000, "ticks": 1, "nanoseconds": -100},
            {"years": 1, "hours": 25}, {"months": 1, "nanoseconds": -1}, {"years": -1, "months": 13, "days": -1, "seconds": 86401},
            {"months": -1, "minutes": 1441}, {"years": 1}, {"months": -1}]
    return out


TIME_KEYS = tuple(LDT_UNITS)


def pcls(comp):
    names = [k for k in ("years", "months", "weeks", "days") + TIME_KEYS if comp.get(k)]
    big = [k for k in TIME_KEYS if abs(comp.get(k, 0)) >= 2 ** 63]
    if big:
        # one class per unit of the largest time component: huge amounts share their cause whatever they are paired with
        k = max(big, key=lambda k: abs(comp[k]) * M.UNIT_NS[k])
        cc = carry_class(comp[k] * M.UNIT_NS[k])
        return "beyond-2^63%s:%s" % ("," + cc if cc else "", k)
    signs = "".join("-" if comp[k] < 0 else "+" for k in names)
    return "%s;%s" % ("+".join(names), signs)


def check_ldt_period(acc, cal_id, day, t, comp, aliases=True, kw=True):
    cal = CalendarSystem.for_id(cal_id)
    lo, hi, _ = cal_range(cal_id)
    x = mk_ldt(cal, day, t)
    p = build_period(comp)
    tot = sum(comp.get(k, 0) * M.UNIT_NS[k] for k in TIME_KEYS)
    case = {"kind": "ldt-period", "cal": cal_id, "day": day, "t": t, "period": comp_enc(comp)}
    ctxt = comp_txt(comp)
    plus_ops = [("plus", lambda: x.plus(p)), ("add", lambda: x + p), ("add-static", lambda: LocalDateTime.add(x, p))]
    if aliases and kw:
        plus_ops += [("add-static(keyword)", f) for f in kwf(acc, "LocalDateTime.add", x, p)] + [("plus(keyword)", f) for f in kwf(acc, "LocalDateTime.plus", p, obj=x)]
    for sgn, ops in ((1, plus_ops),
                     (-1, (("minus", lambda: x.minus(p)), ("sub", lambda: x - p), ("subtract-static", lambda: LocalDateTime.subtract(x, p))))):
        # date units first-to-last with the library's own LocalDate arithmetic (years, months, weeks, days)
        mid_ok = True
        try:
            d1 = x.date
            if comp.get("years") or comp.get("months"):
                d1 = d1.plus_years(sgn * comp.get("years", 0)).plus_months(sgn * comp.get("months", 0))
            after_weeks = day_of(d1) + sgn * 7 * comp.get("weeks", 0)
            base = after_weeks + sgn * comp.get("days", 0)
            if not (lo <= after_weeks <= hi and lo <= base <= hi):
                mid_ok = False      # a date unit applied in order (years, months, weeks, days) leaves the calendar: a raise is defensible
        except Exception as e:  # noqa: BLE001
            if exc_origin(e) == "harness":
                raise
            acc.outcome("date-part-raises")
            continue
        first = None
        pc = pcls(comp)
        for name, fn in (ops if aliases else ops[:1]):
            # plus / + / add share one key (the spelling is in the text); huge amounts: one key per unit and direction
            key = "C10/ldt/period-%s/%s" % (ops[0][0], pc if pc.startswith("beyond") else "%s;%s" % (dcls(cal_id, day), pc))
            r = expect_ldt(acc, fn, cal_id, base, t, sgn * tot, key, "%s day %d + %d ns %s Period(%s)" % (cal_id, day, t, name, ctxt), case,
                           call=lambda: ("x.plus(p)" if sgn > 0 else "x.minus(p)").replace("p)", "%s)" % _period_src(comp)), mid_ok=mid_ok, day0=day, flat=pc.startswith("beyond"))
            if first is None:
                first = r
        if tot and not (0 <= t + sgn * tot < NSD):
            acc.count(nontrivial=1)
        # (x + p) - p == x where defined (no years/months: those do not invert in general)
        if first is not None and not comp.get("years") and not comp.get("months"):
            # where defined: when undoing the date part alone leaves the calendar a raise is tolerated, a value never is wrong
            inv_mid = day_of(first.date) - sgn * (7 * comp.get("weeks", 0) + comp.get("days", 0))
            acc.count(transitions=1, evaluations=1)
            ikey = "C10/ldt/period-inverse/%s" % (pc if pc.startswith("beyond") else "%s;%s" % (dcls(cal_id, day), pc))
            try:
                back = first.minus(p) if sgn > 0 else first.plus(p)
            except Exception as e:  # noqa: BLE001
                if exc_origin(e) == "harness":
                    raise
                if lo <= inv_mid <= hi:
                    acc.lib_exception(ikey, e, case)
                else:
                    acc.outcome("inverse:date-part-leaves-calendar")
            else:
                if obs_ldt(back) != (day, t, cal_id):
                    acc.violation(ikey, "(x %s p) %s p != x for x = %s day %d + %d ns, p = %s: got %r" % (
                        "+" if sgn > 0 else "-", "-" if sgn > 0 else "+", cal_id, day, t, ctxt, obs_ldt(back)), case)


def _period_src(comp):
    return " + ".join("Period.from_%s(%s)" % (k, S(v)) for k, v in comp.items() if v) or "Period.zero"


@worker
def w_ldt_period(job):
    cal_id, days, times, level = job
    acc = Acc()
    for day in days:
        for t in times:
            acc.count(states=1)
            for idx, comp in enumerate(period_list(t, level, mid=(dcls(cal_id, day) == "mid"))):
                # keyword spellings of the aliases on every 8th period of the list (every component kind occurs many times in it)
                guarded(acc, "C10/ldt/period", {"kind": "ldt-period", "cal": cal_id, "day": day, "t": t, "period": comp_enc(comp)}, check_ldt_period, cal_id, day, t, comp,
                        aliases=(level != "basic"), kw=(idx % 8 == 0))
    acc.sample({"calendar": cal_id, "level": level, "periods_per_state": len(period_list(0, level)), "example_period": period_list(1, level)[40]})
    return acc, []


# cancelling pairs and year+month combinations ------------------------------------------------------------------------
PAIR_UNITS = ("weeks", "days") + LDT_UNITS


def cancel_pairs(rich):
    """for every ORDERED pair of units (weeks and days included): +K days' worth of the first against -K days' worth of the second
    (+ a small remainder on a time unit), K in {2^31, 2^40, 2^64}: each component alone is far outside every calendar and
    outside Duration's range, the sum is a few units"""
    out = []
    ks = (2 ** 31, 2 ** 40, 2 ** 64) if rich else (2 ** 40, 2 ** 31)
    for K in ks:
        smalls = ((3, 0), (0, -1), (0, 0)) if rich else (((3, 0),) if K == 2 ** 40 else ((0, 0),))
        for a in PAIR_UNITS:
            for b in PAIR_UNITS:
                if a == b:
                    continue
                D = 7 * K if "weeks" in (a, b) else K

                def worth(u):
                    return D // 7 if u == "weeks" else (D if u == "days" else D * (NSD // M.UNIT_NS[u]))
                for sa, sb in smalls:
                    out.append({a: worth(a) + (sa if a in LDT_UNITS else 0), b: -worth(b) + (sb if b in LDT_UNITS else 0)})
    return out


@worker
def w_ldt_cancel(job):
    cal_id, day, times, rich = job
    acc = Acc()
    pairs = cancel_pairs(rich)
    for t in times:
        acc.count(states=1)
        for idx, comp in enumerate(pairs):
            guarded(acc, "C10/ldt/period", {"kind": "ldt-period", "cal": cal_id, "day": day, "t": t, "period": comp_enc(comp)}, check_ldt_period, cal_id, day, t, comp,
                    aliases=True, kw=(idx % 8 == 0))
    acc.sample({"calendar": cal_id, "cancelling_pairs": len(pairs), "example": comp_txt(pairs[5])})
    return acc, []


def yearmonth_dates(cal_id):
    """month ends (last day and the day before) of a leap year and of the year after it, found from the middle of the calendar"""
    cal = CalendarSystem.for_id(cal_id)
    y = (cal.min_year + cal.max_year) // 2
    for k in range(40):
        if cal.is_leap_year(y + k):
            y += k
            break
    days = set()
    for yy in (y, y + 1):
        if not (cal.min_year < yy < cal.max_year):
            continue
        for m in range(1, cal.get_months_in_year(yy) + 1):
            n = day_of(LocalDate(yy, m, cal.get_days_in_month(yy, m), cal))
            days.add(n)
            days.add(n - 1)
    return sorted(days)


YEARMONTH = [{"years": y, "months": m} for y in (1, -1, 4) for m in (1, -1, 11, 13, -12)] + [{"years": 1, "months": 1, "hours": 25}, {"years": -1, "months": -1, "nanoseconds": -1}]


@worker
def w_ldt_yearmonth(job):
    cal_id, days = job
    acc = Acc()
    t = 12 * M.NS_H
    for day in days:
        acc.count(states=1)
        for comp in YEARMONTH:
            guarded(acc, "C10/ldt/period", {"kind": "ldt-period", "cal": cal_id, "day": day, "t": t, "period": comp}, check_ldt_period, cal_id, day, t, comp,
                    aliases=True, kw=False)
    acc.sample({"calendar": cal_id, "month_end_dates": len(days), "year_month_periods": len(YEARMONTH)})
    return acc, []


# ------------------------------------------------------------------------------------------------ driver
def _rot(seq, seed):
    seq = list(seq)
    if not seq:
        return seq
    k = seed % len(seq)
    return seq[k:] + seq[:k]


def _split(seq, n):
    seq = list(seq)
    size = max(1, (len(seq) + n - 1) // n)
    return [seq[i:i + size] for i in range(0, len(seq), size)]


def _want(ctx, part):
    only = getattr(ctx, "only", None)
    return not only or part in only


def run(ctx):
    thorough = ctx.tier == "thorough"
    complete = True
    if not private_ok():
        ctx.degrade("LocalDate._ctor(days_since_epoch=...)/_days_since_epoch unavailable or inconsistent: public plus_days/days_between used instead")
    T = time_alphabet()
    if _want(ctx, "time-accessors"):
        deltas = (-1, 0, 1) if not thorough else (-1000, -100, -1, 0, 1, 99, 100, 1000, 999_999, 1_000_000)
        for acc, _ in pmap(w_time_sweep, _rot([(a, min(86400, a + 1350), deltas) for a in range(0, 86400, 1350)], ctx.seed)):
            ctx.merge_part("time-accessors", acc)
        swept = frozenset(d % M.NS_S for d in deltas)
        for acc, _ in pmap(w_time_alpha, [(c, swept) for c in _split(T, 8)]):
            ctx.merge_part("time-accessors", acc)
    if _want(ctx, "time-factories"):
        for acc, _ in pmap(w_factories, [0]):
            ctx.merge_part("time-factories", acc)
    if _want(ctx, "time-plus"):
        seen = set(T)
        frontier = set()
        for acc, new in pmap(w_time_plus, _rot([(c, True, True) for c in _split(T, 48)], ctx.seed)):
            ctx.merge_part("time-plus", acc)
            frontier.update(x for x in new if x not in seen)
        depth = 3 if thorough else 2
        cap = 6000 if thorough else 700
        for level in range(2, depth + 1):
            vals = sorted(frontier)
            seen.update(vals)
            frontier = set()
            if len(vals) > cap:
                step = len(vals) / cap
                total = len(vals)
                off = (ctx.seed % 97) / 97.0          # the seed only shifts which representatives are taken
                vals = [vals[min(total - 1, int((i + off) * step))] for i in range(cap)]
                ctx.cap("time-plus level %d: %d new times, %d explored (even spread over the day)" % (level, total, cap))
                complete = False
            ctx.note("time_plus_level_%d_values" % level, len(vals))
            for acc, new in pmap(w_time_plus, _rot([(c, False, False) for c in _split(vals, 64)], ctx.seed)):
                ctx.merge_part("time-plus", acc)
                frontier.update(x for x in new if x not in seen)
        ctx.note("time_values_seen", len(seen))
    cal_ids = list(CalendarSystem.ids)
    ctx.note("calendars", len(cal_ids))
    if not thorough:
        ctx.cap("ldt-period: full period list for %s; the other calendars get the basic list (all get the full list in the thorough tier)" % ", ".join(FULL_CALS))
    times = LDT_TIMES if not thorough else tuple(sorted(set(LDT_TIMES) | {M.NS_H, M.NS_MIN - 1, 13 * M.NS_H + 5 * M.NS_MIN + 7 * M.NS_S + 123_456_789, NSD - M.NS_S}))
    if _want(ctx, "ldt-plus"):
        jobs = []
        for cid in cal_ids:
            days = cal_dates(cid, thorough)
            for chunk in _split(days, 2 if not thorough else 6):
                jobs.append((cid, chunk, times, True))
        for acc, _ in pmap(w_ldt_plus, _rot(jobs, ctx.seed)):
            ctx.merge_part("ldt-plus", acc)
    if _want(ctx, "ldt-period"):
        jobs = []
        for cid in cal_ids:
            days = cal_dates(cid, thorough)
            if thorough:
                # all calendars get the full list (FULL_CALS the extended one) on the quick date set plus the month ends of one year
                level = "thorough" if cid in FULL_CALS else "full"
                cal = CalendarSystem.for_id(cid)
                y = (cal.min_year + cal.max_year) // 2
                days = sorted(set(cal_dates(cid, False)) | {day_of(LocalDate(y, m, cal.get_days_in_month(y, m), cal)) for m in range(1, cal.get_months_in_year(y) + 1)})
            else:
                level = "full" if cid in FULL_CALS else "basic"
            for chunk in _split(days, (6 if level == "full" else 2) if not thorough else 12):
                jobs.append((cid, chunk, times, level))
        for acc, _ in pmap(w_ldt_period, _rot(jobs, ctx.seed)):
            ctx.merge_part("ldt-period", acc)
    if _want(ctx, "ldt-cancel"):
        jobs = []
        for cid in cal_ids:
            mids = [n for n in cal_dates(cid, False) if dcls(cid, n) == "mid"]
            anchor = 11016 if 11016 in mids else mids[len(mids) // 2]
            rich = thorough or cid in FULL_CALS
            for t in (0, 22 * M.NS_H + 30 * M.NS_MIN + 15 * M.NS_S + 250 * M.NS_MS, NSD - 1):
                jobs.append((cid, anchor, (t,), rich))
        for acc, _ in pmap(w_ldt_cancel, _rot(jobs, ctx.seed)):
            ctx.merge_part("ldt-cancel", acc)
    if _want(ctx, "ldt-yearmonth"):
        jobs = []
        for cid in cal_ids:
            for chunk in _split(yearmonth_dates(cid), 2):
                jobs.append((cid, chunk))
        for acc, _ in pmap(w_ldt_yearmonth, _rot(jobs, ctx.seed)):
            ctx.merge_part("ldt-yearmonth", acc)
    for cid in cal_ids:
        if not cal_range(cid)[2]:
            ctx.degrade("calendar %s: private day range differs from first day of min_year..last day of max_year (C01's subject); "
                        "'must raise beyond the end' is not demanded for it" % cid)
    ctx.rule = ("non-trivial = an addition whose exact result leaves the starting day (wrap / non-zero day carry), lands exactly on "
                "midnight, or must raise because the carried day leaves the calendar; for accessors: times on or next to a second "
                "boundary or off a tick boundary")
    ctx.assumptions = [
        "a carried day outside first-day-of-min_year..last-day-of-max_year of the calendar must raise (any exception type)",
        "date units of a period (years, months, weeks, days) are applied with the library's own LocalDate arithmetic (C09's subject); "
        "when the date part alone leaves the calendar no verdict is given",
        "(x + p) - p == x is demanded only for periods without years/months",
        "amounts are Python ints of any size; the property says 'far beyond 64-bit', so no upper bound is assumed",
    ]
    ctx.exhaustive = bool(complete and not getattr(ctx, "only", None))


# ------------------------------------------------------------------------------------------------ replay
def replay(rec):
    case = rec.get("case") or {}
    if "case" in case and isinstance(case["case"], dict):
        case = case["case"]
    acc = Acc()
    k = case.get("kind")
    if k == "time-value":
        guarded(acc, "C10/time/value", case, check_time_value, case["t"], OT_OFFSETS if "o" not in case else (case["o"],))
    elif k == "factory":
        acc.merge(w_factories(0)[0])
    elif k == "time-adjuster":
        guarded(acc, "C10/time/adjuster", case, check_adjusters, case["t"])
    elif k == "time-plus":
        guarded(acc, "C10/time/plus_" + case["unit"], case, check_time_plus, case["t"], case["unit"], M.dec(case["n"]))
    elif k == "time-mixed" and "ua" in case:
        guarded(acc, "C10/time/period-mixed", case, check_time_mixed, case["t"], case["ua"], M.dec(case["na"]), case["ub"], M.dec(case["nb"]))
    elif k == "ldt-plus":
        guarded(acc, "C10/ldt/plus_" + case["unit"], case, check_ldt_plus, case["cal"], case["day"], case["t"], case["unit"], M.dec(case["n"]), kw=True)
    elif k == "ldt-period":
        guarded(acc, "C10/ldt/period", case, check_ldt_period, case["cal"], case["day"], case["t"], {a: int(M.dec(b)) for a, b in case["period"].items()})
    else:
        return False
    return rec.get("key") in acc.violations or (bool(acc.violations) and rec.get("key") is None)
