"""C07 - formatting then parsing with the same pattern returns the original value.

Model checking by bounded-exhaustive exploration of *programs* (pattern texts) x configurations (cultures, template
values, calendars) x values, all executed on the real pattern classes:

  builtin   (O4) the built-in round-trip / ISO patterns recover every value of the type's boundary alphabet (every
            calendar for the calendar-carrying ones); the lossy built-ins are checked through the projection model
  standard  every standard single-letter pattern of every type x EVERY culture: O1, O2, and O3 where the culture's own
            expansion is scanned as delimited; plus the single-field text patterns x every culture
  custom    grammar.custom_patterns (<= k distinct fields, every width variant, five delimiter styles) x one
            representative of every computed culture class (+ invariant) x template configurations: O1, O2, O3
  fraction-digits  dense sweep of sub-second values (first 20,000 units and a stride of 9,973 over the whole range) through
            the fraction-carrying round-trip patterns of Duration / LocalTime / LocalDateTime / Instant
  hash-collisions (merged into 'history')  per type a lattice of values (24 consecutive days x 0..5000 ns, ...) is grouped
            by the library's own hash(); the members of every collision group are formatted and their texts parsed
            consecutively through ONE pattern object and compared with a second object that did something else in between
  config-chains  every permutation of <= 3 of the with_* calls (two-digit-year maximum, calendar, template value, culture) on
            fixed / single-field / yy patterns: same answers as the same configuration built in a canonical order, plus
            the round trip under the modelled configuration
  value-route  format(value, text) / value.__format__(text) / f-string for every generated pattern text (quoted, space and
            fixed shapes) and whitespace-edged variants == XPattern.create_with_current_culture(text).format(value)
  interposed (merged into 'history')  a catalogue of calls that fail part-way (None, value of another type, values that
            stop answering after k attribute reads, another pattern failing, repr of an unnameable month, garbage parse,
            append_format into a raising builder) placed at every position of a format sequence: later answers unchanged
  history   ONE pattern object used for a sequence of parses and formats in which every ordered pair of operations
            occurs consecutively (sequential and interleaved), every answer compared with the answer of a freshly
            created pattern that has done nothing else

Oracles (DESIGN section 4, C07):
  O1 determinism: format twice, and through a separately created equal pattern -> same text
  O2 one-step fixpoint, for ANY value v: if v1 = parse(format(v)) succeeds then parse(format(v1)) succeeds, equals v1,
     and formats to the same text
  O3 exact recovery of representable values: v' = project(pattern fields, template, v) (models/textref.py) is
     representable by construction; parse(format(v')) must succeed and equal v', unless the culture falls in a
     computed exclusion class for a text field of the pattern
"""
from __future__ import annotations

import functools
import itertools
import re

from pyoda_time import CalendarSystem, LocalDate
from pyoda_time._compatibility._culture_info import CultureInfo
from pyoda_time._compatibility._culture_types import CultureTypes
from pyoda_time.text import (AnnualDatePattern, DurationPattern, InstantPattern, InvalidPatternError, LocalDatePattern,
                             LocalDateTimePattern, LocalTimePattern, OffsetPattern)

from vf.core import grammar as G
from vf.core.evidence import Acc, exc_origin, exc_site
from vf.core.par import pmap
from vf.models import textref as T

LEVEL = "model_checking"

KCLS = {"offset": OffsetPattern, "duration": DurationPattern, "time": LocalTimePattern, "date": LocalDatePattern,
        "datetime": LocalDateTimePattern, "instant": InstantPattern, "annual": AnnualDatePattern}

DEFAULT_TMPL = {"time": (0, 0, 0, 0), "date": ("ISO", 2000, 1, 1), "datetime": ("ISO", 2000, 1, 1, 0, 0, 0, 0),
                "instant": ("ISO", 2000, 1, 1, 0, 0, 0, 0), "annual": (1, 1), "offset": None, "duration": None}

# template configurations: (label, how to derive the pattern, template tuple or a calendar id)
# one calendar of every family, and Gregorian (same rules as ISO, but a different calendar); thorough: every calendar id
TEMPLATE_CALENDARS = ("Gregorian", "Hebrew Civil", "Hijri Civil-Base15", "Coptic", "Persian Simple", "Julian", "Badi", "Um Al Qura", "Hebrew Scriptural")


# ---------------------------------------------------------------------------------------------------------------
# cultures
# ---------------------------------------------------------------------------------------------------------------

def _syn(**kw):
    def build():
        clone = CultureInfo.invariant_culture.clone()
        dtf = clone.date_time_format
        for k, v in kw.items():
            if k in ("month0", "amonth0"):
                attr = "month_names" if k == "month0" else "abbreviated_month_names"
                for a in (attr, attr.replace("month_names", "month_genitive_names")):
                    lst = list(getattr(dtf, a))
                    lst[0] = v
                    setattr(dtf, a, lst)
            elif k == "days":
                longs, shorts = list(dtf.day_names), list(dtf.abbreviated_day_names)
                longs[4], shorts[4], longs[5], shorts[5] = "FooBa", "FooBaz", "FooBar", "Foo"
                dtf.day_names, dtf.abbreviated_day_names = longs, shorts
            else:
                setattr(dtf, k, v)
        return clone
    return build


# customised cultures (clones of the invariant culture): shapes of culture data that no built-in culture has
SYNTHETIC_CULTURES = {
    "syn:no-ampm": _syn(am_designator="", pm_designator=""),
    "syn:am-only": _syn(am_designator="AM", pm_designator=""),
    "syn:pm-only": _syn(am_designator="", pm_designator="PM"),
    "syn:same-ampm": _syn(am_designator="XM", pm_designator="XM"),
    "syn:prefix-ampm": _syn(am_designator="P", pm_designator="PM"),
    "syn:foo-ampm": _syn(am_designator="Foo", pm_designator="FooBar"),
    "syn:timesep-dot": _syn(time_separator="."),
    "syn:timesep-long": _syn(time_separator=" h "),
    "syn:month-prefix": _syn(month0="Ma", amonth0="M"),
    "syn:day-prefix": _syn(days=True),
}


@functools.lru_cache(maxsize=None)
def culture(name: str):
    if name == "":
        return CultureInfo.invariant_culture
    if name in SYNTHETIC_CULTURES:
        return SYNTHETIC_CULTURES[name]()
    return CultureInfo.get_culture_info(name)


@functools.lru_cache(maxsize=None)
def props(name: str) -> T.Props:
    p = T.culture_props(culture(name))
    p.name = name
    return p


def all_culture_names():
    names = sorted({c.name for c in CultureInfo.get_cultures(CultureTypes.ALL_CULTURES)} - {""})
    return [""] + names + sorted(SYNTHETIC_CULTURES)


def _class_worker(names):
    out = []
    for n in names:
        try:
            out.append((n, T.class_key(props(n)), tuple(props(n).degraded)))
        except Exception as e:  # noqa: BLE001
            if exc_origin(e) == "harness":
                raise
            out.append((n, ("unreadable", type(e).__name__), ()))
    return out


def culture_classes(ctx):
    names = all_culture_names()
    chunks = [names[i:i + 32] for i in range(0, len(names), 32)]
    classes = {}
    for res in pmap(_class_worker, chunks):
        for n, key, deg in res:
            classes.setdefault(key, []).append(n)
            for d in deg:
                ctx.degrade(d)
    return names, classes


# ---------------------------------------------------------------------------------------------------------------
# configurations and values
# ---------------------------------------------------------------------------------------------------------------

# non-default template values: deliberately extreme (leap day, day 31, last second), so that absent fields take values
# that are valid only together with some values of the present fields
TEMPLATE_CONFIGS = {
    "time": (("tmpl=23:59:59.5", (23, 59, 59, 500_000_000)),),
    # ... and one template in each era of the two-era calendars (the CE side is covered by the defaults and cal=...)
    "date": (("tmpl=2024-02-29", ("ISO", 2024, 2, 29)), ("tmpl=1999-12-31", ("ISO", 1999, 12, 31)),
             ("tmpl=-0099-01-01 (BCE)", ("ISO", -99, 1, 1)), ("tmpl=Gregorian -0099-01-01 (BCE)", ("Gregorian", -99, 1, 1)),
             ("tmpl=Julian -0043-03-15 (BCE)", ("Julian", -43, 3, 15))),
    "datetime": (("tmpl=2024-02-29T23:59:59.5", ("ISO", 2024, 2, 29, 23, 59, 59, 500_000_000)),
                 ("tmpl=-0099-01-01T00:00 (BCE)", ("ISO", -99, 1, 1, 0, 0, 0, 0)),
                 ("tmpl=Julian -0043-03-15T12:00 (BCE)", ("Julian", -43, 3, 15, 12, 0, 0, 0))),
    "instant": (("tmpl=1999-12-31T23:59:59.5Z", ("ISO", 1999, 12, 31, 23, 59, 59, 500_000_000)),
                ("tmpl=-0099-01-01T00:00Z (BCE)", ("ISO", -99, 1, 1, 0, 0, 0, 0))),
    "annual": (("tmpl=01-31", (1, 31)), ("tmpl=02-29", (2, 29))),
}


def configs(kind, tier):
    """[(label, template tuple)] - label 'default' means the pattern exactly as created."""
    out = [("default", DEFAULT_TMPL[kind])]
    out += list(TEMPLATE_CONFIGS.get(kind, ()))
    if kind == "date":
        cids = TEMPLATE_CALENDARS if tier == "quick" else tuple(c for c in calendar_ids() if c != "ISO")
        for cid in cids:
            out.append(("cal=" + cid, None))
    elif kind == "datetime":
        for cid in (("Gregorian", "Hebrew Civil", "Coptic") if tier == "quick" else TEMPLATE_CALENDARS):
            out.append(("cal=" + cid, None))
    if kind in ("date", "datetime", "instant"):
        out.append(("2dy=79", DEFAULT_TMPL[kind]))      # with_two_digit_year_max(79); only paired with 'yy' patterns
    return out


def apply_config(kind, pat, label):
    """Returns (pattern object, template tuple) for a configuration label."""
    if label == "default":
        return pat, DEFAULT_TMPL[kind]
    if label.startswith("2dy="):
        return pat.with_two_digit_year_max(int(label[4:])), DEFAULT_TMPL[kind]
    if label.startswith("cal="):
        cal = CalendarSystem.for_id(label[4:])
        p2 = pat.with_calendar(cal)
        d = LocalDate(2000, 1, 1).with_calendar(cal)
        t = (cal.id, d.year, d.month, d.day)
        return p2, (t if kind == "date" else t + (0, 0, 0, 0))
    tmpl = dict(TEMPLATE_CONFIGS[kind])[label]
    return pat.with_template_value(T.to_lib(kind, tmpl)), tmpl


@functools.lru_cache(maxsize=None)
def calendar_ids():
    return tuple(CalendarSystem.ids)


@functools.lru_cache(maxsize=None)
def value_alphabet(kind, tmpl_cal, with_cal, small=False, rich=False):
    """Boundary values (plain tuples) for a kind; dates are taken in the template's calendar, or in every calendar
    when the pattern carries a calendar field."""
    if kind == "time":
        return tuple(T.TIME_VALUES)
    if kind == "offset":
        return tuple(T.OFFSET_VALUES)
    if kind == "duration":
        return tuple(T.DURATION_VALUES)
    if kind == "annual":
        return tuple(T.ANNUAL_VALUES)
    if with_cal:
        dates = T.date_values(calendar_ids(), rich=rich)
    elif tmpl_cal == "ISO":
        dates = [("ISO",) + d for d in T.ISO_DATES]
    else:
        dates = T.date_values([tmpl_cal], per_cal_only=True, rich=rich)
    if kind == "date":
        return tuple(dates)
    if kind == "instant":
        dates = [d for d in dates if d[0] == "ISO"]
    if small:
        dates = list(dates)
        keep = dates[:6] + [d for d in dates[6:] if d[1:] in ((9999, 12, 31), (-9998, 1, 1))]
        return tuple([d + T.TIME_VALUES[0] for d in keep] + [dates[1] + t for t in T.TIME_VALUES[1:9]])
    return tuple(T.datetime_values(list(dates), T.TIME_VALUES))


# ---------------------------------------------------------------------------------------------------------------
# the per-(pattern, culture, configuration) check
# ---------------------------------------------------------------------------------------------------------------

def short(x, n=60):
    """Bounded description of a value; never calls repr() of a library value (that formats through the current
    culture and may itself raise, e.g. for month 14+ of the Badi calendar)."""
    if isinstance(x, (str, int, tuple, list, type(None))):
        s = repr(x) if not isinstance(x, (tuple, list)) else "(" + ", ".join(short(y, n) for y in x) + ")"
    else:
        s = None
        for kind in ("date", "datetime", "time", "annual", "offset", "duration", "instant"):
            if type(x).__name__.lower().replace("local", "") == {"annual": "annualdate"}.get(kind, kind):
                try:
                    s = "%s%r" % (type(x).__name__, (T.from_lib(kind, x),))
                except Exception:  # noqa: BLE001
                    s = None
                break
        if s is None:
            s = "<%s>" % type(x).__name__
    return s if len(s) <= n else s[:n] + "..."


def _tokens_key(spec):
    return "+".join(tok for _, tok in spec.fields) if spec is not None else "?"


def vkey(kind, law, spec, delim, extra=""):
    return "C07/%s/%s/%s/%s%s" % (kind, law, _tokens_key(spec), delim or "-", ("/" + extra) if extra else "")


def py_roundtrip(kind, text, cname, label, v):
    cls = KCLS[kind].__name__
    cul = "CultureInfo.invariant_culture" if cname == "" else ("<customised clone %s, see vf/checks/c07.py SYNTHETIC_CULTURES>" % cname if cname.startswith("syn:") else "CultureInfo(%r)" % cname)
    return ("import pyoda_time\nfrom pyoda_time._compatibility._culture_info import CultureInfo\n"
            "from pyoda_time.text import %s\nfrom vf.models import textref as T\n\n"
            "def test_replay():\n    # needs /verif on PYTHONPATH for the tuple<->value helper only\n"
            "    p = %s.create(%r, %s)  # configuration: %s\n    v = T.to_lib(%r, %r)\n"
            "    r = p.parse(p.format(v))\n    assert r.success and r.value == v\n" % (cls, cls, text, cul, label, kind, v))


class Case:
    """One pattern object under one culture and configuration, with the model's view of it."""

    def __init__(self, kind, text, cname, label, pat, tmpl, spec, safe, delim):
        self.kind, self.text, self.cname, self.label = kind, text, cname, label
        self.pat, self.tmpl, self.spec, self.safe, self.delim = pat, tmpl, spec, safe, delim
        self.tdy = int(label[4:]) if label.startswith("2dy=") else 30

    def desc(self):
        return {"kind": self.kind, "pattern": self.text, "culture": self.cname or "<invariant>", "config": self.label}


def run_case(acc: Acc, c: Case, values, twin=None):
    """O1/O2 on every value, O3 on the projected values.  Returns [(projected tuple, lib value, text)] that were
    recovered exactly (used by the history part)."""
    kind, pat, spec = c.kind, c.pat, c.spec
    P = props(c.cname)
    ampm_carried = True
    if spec is not None and "ampm" in spec.names:
        ampm_carried = T.ampm_shape(P) not in ("empty",)
    done = set()
    first_parse = {}          # text -> ParseResult of the first parse of that text (None when it raised)
    good = []
    tmpl_proj = None
    if spec is not None and c.tmpl is not None:
        tmpl_proj = T.project(spec, c.tmpl, c.tmpl, ampm_carried, c.tdy)
    for vi, v in enumerate(values):
        acc.count(states=1)
        try:
            lv = T.to_lib(kind, v)
        except Exception as e:  # noqa: BLE001  value alphabet entry not constructible in this tree: not a C07 matter
            if exc_origin(e) == "harness":
                raise
            acc.outcome("alphabet value not constructible")
            continue
        # ---- O1
        try:
            s = pat.format(lv)
            acc.count(transitions=1)
            s_again = pat.format(lv) if vi < 3 else s
        except Exception as e:  # noqa: BLE001
            if exc_origin(e) == "harness":
                raise
            if spec is not None and "mtext" in spec.names and (v[0] if kind == "annual" else v[2]) > 12:
                acc.outcome("format raised for a month beyond the 12 named ones (outside the property's side condition)")
                continue
            acc.violation(vkey(kind, "format-raises-" + type(e).__name__, spec, c.delim, exc_site(e)),
                          "format(%s) raised %s: %s" % (short(lv), type(e).__name__, str(e)[:200]), dict(c.desc(), value=v))
            continue
        if vi < 3:
            acc.count(transitions=1, evaluations=1)
            if s != s_again:
                acc.violation(vkey(kind, "O1-format-twice", spec, c.delim), "format(%s) gave %r then %r" % (short(lv), s, s_again),
                              dict(c.desc(), value=v))
            if twin is not None:
                try:
                    s_twin = twin.format(lv)
                    acc.count(transitions=1, evaluations=1)
                    if s_twin != s:
                        acc.violation(vkey(kind, "O1-equal-pattern", spec, c.delim),
                                      "two patterns created from the same text/culture format %s as %r and %r" % (short(lv), s, s_twin),
                                      dict(c.desc(), value=v))
                except Exception as e:  # noqa: BLE001
                    if exc_origin(e) == "harness":
                        raise
                    acc.violation(vkey(kind, "O1-equal-pattern-raises", spec, c.delim, exc_site(e)),
                                  "equal pattern raised %s formatting %s" % (type(e).__name__, short(lv)), dict(c.desc(), value=v))
        # ---- O2 one-step fixpoint on the arbitrary value (once per distinct text of this pattern)
        if s not in first_parse:
            first_parse[s] = fixpoint(acc, c, lv, s, v)
        # ---- O3 exact recovery of the projection
        if spec is None or not c.safe:
            acc.outcome("O3 not applicable: pattern not scanned as delimited")
            continue
        try:
            pv = T.project(spec, c.tmpl, v, ampm_carried, c.tdy)
        except Exception as e:  # noqa: BLE001  calendar API raising inside the model: treat as not representable
            if exc_origin(e) == "harness":
                raise
            pv = None
        if pv is None:
            acc.outcome("projection is not a valid value")
            continue
        if pv in done:
            continue
        done.add(pv)
        ex = T.exclusion(P, spec, pv, c.delim)
        if ex is not None:
            acc.outcome("excluded: " + ex)
            continue
        if pv == v:
            lpv, t = lv, s
        else:
            try:
                lpv = T.to_lib(kind, pv)
            except Exception as e:  # noqa: BLE001
                if exc_origin(e) == "harness":
                    raise
                acc.outcome("projection not constructible")
                continue
            try:
                t = pat.format(lpv)
                acc.count(transitions=1)
            except Exception as e:  # noqa: BLE001
                if exc_origin(e) == "harness":
                    raise
                acc.violation(vkey(kind, "format-raises-" + type(e).__name__, spec, c.delim, exc_site(e)),
                              "format(%s) raised %s: %s" % (short(lpv), type(e).__name__, str(e)[:200]), dict(c.desc(), value=pv))
                continue
        if t == "" and T.may_format_empty(spec):
            acc.outcome("exempt: pattern formats this value as the empty string")
            continue
        if t in first_parse:
            r = first_parse[t]
            if r is None:
                r = "raised"
        else:
            r = None
        if r is None or r == "raised":
            try:
                r = pat.parse(t)
                acc.count(transitions=1)
                first_parse.setdefault(t, r)
            except Exception as e:  # noqa: BLE001
                if exc_origin(e) == "harness":
                    raise
                acc.violation(vkey(kind, "O3-parse-raises-" + type(e).__name__, spec, c.delim, exc_site(e)),
                              "parse(%r) of the pattern's own output for representable %s raised %s: %s" % (
                                  t, short(lpv), type(e).__name__, str(e)[:200]),
                              dict(c.desc(), value=pv, text=t), py=py_roundtrip(kind, c.text, c.cname, c.label, pv))
                continue
        acc.count(evaluations=1)
        if not r.success:
            acc.violation(vkey(kind, "O3-parse-fails", spec, c.delim),
                          "pattern %r (%s, %s) formats representable %s as %r and then fails to parse it: %s" % (
                              c.text, c.cname or "invariant", c.label, short(lpv), t, str(r.exception)[:160]),
                          dict(c.desc(), value=pv, text=t), py=py_roundtrip(kind, c.text, c.cname, c.label, pv))
            continue
        got = r.value
        try:
            gt = T.from_lib(kind, got)
        except Exception as e:  # noqa: BLE001
            if exc_origin(e) == "harness":
                raise
            gt = "unreadable: %s" % type(e).__name__
        if got != lpv or gt != pv:
            acc.violation(vkey(kind, "O3-value", spec, c.delim),
                          "pattern %r (%s, %s): %s -> %r -> %s (fields %s)" % (c.text, c.cname or "invariant", c.label, pv, t, gt, _tokens_key(spec)),
                          dict(c.desc(), value=pv, text=t, got=gt), py=py_roundtrip(kind, c.text, c.cname, c.label, pv))
            continue
        acc.outcome("O3 recovered exactly")
        if tmpl_proj is None or pv != tmpl_proj:
            acc.count(nontrivial=1)
        good.append((pv, lpv, t))
        if len(acc.samples) < 3 and len(good) == 2:
            acc.sample({"pattern": c.text, "culture": c.cname or "<invariant>", "config": c.label, "value": pv, "text": t})
    return good


def fixpoint(acc: Acc, c: Case, lv, s, v):
    kind, pat, spec = c.kind, c.pat, c.spec
    try:
        r = pat.parse(s)
        acc.count(transitions=1)
    except Exception as e:  # noqa: BLE001
        if exc_origin(e) == "harness":
            raise
        acc.outcome("O2: first parse raised (reported by C08, nothing demanded here)")
        return None
    if not r.success:
        acc.outcome("O2: first parse failed (value not representable)")
        return r
    v1 = r.value
    try:
        s1 = pat.format(v1)
        r2 = pat.parse(s1)
        acc.count(transitions=2, evaluations=1)
    except Exception as e:  # noqa: BLE001
        if exc_origin(e) == "harness":
            raise
        acc.violation(vkey(kind, "O2-raises-" + type(e).__name__, spec, c.delim, exc_site(e)),
                      "pattern %r (%s): re-formatting/parsing the parsed value of %r raised %s: %s" % (
                          c.text, c.cname or "invariant", s, type(e).__name__, str(e)[:200]), dict(c.desc(), value=v, text=s))
        return r
    if not r2.success:
        acc.violation(vkey(kind, "O2-second-parse-fails", spec, c.delim),
                      "pattern %r (%s, %s): %r parses, re-formats as %r, which does not parse" % (c.text, c.cname or "invariant", c.label, s, s1),
                      dict(c.desc(), value=v, text=s, text1=s1))
        return r
    if r2.value != v1:
        acc.violation(vkey(kind, "O2-value-drifts", spec, c.delim),
                      "pattern %r (%s, %s): %r -> %s -> %r -> %s" % (c.text, c.cname or "invariant", c.label, s, short(v1), s1, short(r2.value)),
                      dict(c.desc(), value=v, text=s, text1=s1))
        return r
    s2 = pat.format(r2.value)
    acc.count(transitions=1)
    if s2 != s1:
        acc.violation(vkey(kind, "O2-text-drifts", spec, c.delim),
                      "pattern %r (%s, %s): %r -> %r -> %r" % (c.text, c.cname or "invariant", c.label, s, s1, s2),
                      dict(c.desc(), value=v, text=s, text1=s1, text2=s2))
        return r
    acc.outcome("O2 fixpoint reached" + ("" if s1 == s else " (text changed by the first projection)"))
    return r


# ---------------------------------------------------------------------------------------------------------------
# history: one shared pattern object, every ordered pair of operations consecutive
# ---------------------------------------------------------------------------------------------------------------

def euler_sequence(n):
    """Indices 0..n-1 arranged so that every ordered pair (a, b), a == b included, occurs consecutively once
    (an Eulerian circuit of the complete digraph with loops; length n*n + 1)."""
    if n == 1:
        return [0, 0]
    adj = {a: list(range(n - 1, -1, -1)) for a in range(n)}
    stack, out = [0], []
    while stack:
        a = stack[-1]
        if adj[a]:
            stack.append(adj[a].pop())
        else:
            out.append(stack.pop())
    out.reverse()
    return out


def observe(pat, op):
    """Result of one operation as a comparable tuple."""
    k, arg = op
    try:
        if k == "parse":
            r = pat.parse(arg)
            if r.success:
                return ("ok", r.value)
            return ("fail", type(r.exception).__name__, str(r.exception))
        return ("text", pat.format(arg))
    except Exception as e:  # noqa: BLE001
        if exc_origin(e) == "harness":
            raise
        return ("raise", type(e).__name__)


def history_ops(kind, good, extra_values, max_ops):
    """Operation alphabet for the history exploration: parses of valid texts, of damaged texts (which leave a
    half-filled parse state behind), and formats."""
    ops = []
    texts = []
    for pv, lpv, t in good:
        if t not in texts:
            texts.append(t)
    picks = texts[:2] + texts[-2:] if len(texts) > 4 else texts
    for t in picks:
        if ("parse", t) not in ops:
            ops.append(("parse", t))
    if picks:
        t = picks[-1]
        for bad in (t[:-1], t + "x", t[: len(t) // 2] + "~" + t[len(t) // 2 + 1:]):
            if bad and ("parse", bad) not in ops:
                ops.append(("parse", bad))
                break
    for pv, lpv, t in (good[:1] + good[-1:]):
        ops.append(("format", lpv))
    for lv in extra_values[:1]:
        ops.append(("format", lv))
    return ops[:max_ops]


def run_history(acc: Acc, c: Case, make_fresh, good, extra_values, max_ops=6):
    ops = history_ops(c.kind, good, extra_values, max_ops)
    if len(ops) < 2:
        acc.outcome("history: fewer than two operations available")
        return
    alone = []
    for op in ops:
        fresh = make_fresh()
        alone.append(observe(fresh, op))
    acc.count(transitions=len(ops))
    # model expectation for the parses of texts of exactly-recovered values
    expect = {t: lpv for pv, lpv, t in good}
    shared = make_fresh()
    orders = [("euler", euler_sequence(len(ops))),
              ("all-parses-then-all-formats-then-reverse",
               [i for i, o in enumerate(ops) if o[0] == "parse"] + [i for i, o in enumerate(ops) if o[0] == "format"]
               + list(range(len(ops) - 1, -1, -1)))]
    for oname, seq in orders:
        prev = None
        for pos, i in enumerate(seq):
            got = observe(shared, ops[i])
            acc.count(states=1, transitions=1, evaluations=1)
            bad = got != alone[i]
            if not bad and ops[i][0] == "parse" and ops[i][1] in expect and got != ("ok", expect[ops[i][1]]):
                bad = True
            if bad:
                hist = [(ops[j][0], short(ops[j][1], 40)) for j in seq[max(0, pos - 3):pos + 1]]
                acc.violation(vkey(c.kind, "history-" + ops[i][0], c.spec, c.delim),
                              "pattern %r (%s): %s(%s) answers %s on a pattern object that has just done %s, but %s on a fresh pattern" % (
                                  c.text, c.cname or "invariant", ops[i][0], short(ops[i][1], 40), short(got, 80),
                                  short(prev, 60), short(alone[i], 80)),
                              dict(c.desc(), order=oname, last_ops=hist))
                return
            prev = (ops[i][0], ops[i][1] if ops[i][0] == "parse" else short(ops[i][1], 40))
        acc.count(nontrivial=1)
    acc.outcome("history: shared object agrees with fresh patterns on %d-op alphabets" % len(ops))


# ---------------------------------------------------------------------------------------------------------------
# workers
# ---------------------------------------------------------------------------------------------------------------

def create(acc: Acc, kind, text, cname, expect_valid=True, spec=None, delim=""):
    """Pattern creation; InvalidPatternError for a grammar-valid pattern and any other exception are violations."""
    try:
        p = KCLS[kind].create(text, culture(cname))
        acc.count(transitions=1)
        return p
    except InvalidPatternError as e:
        if expect_valid:
            acc.violation(vkey(kind, "create-rejected", spec, delim),
                          "well-formed pattern %r (%s) rejected: %s" % (text, cname or "invariant", str(e)[:200]),
                          {"kind": kind, "pattern": text, "culture": cname})
        else:
            acc.outcome("standard pattern rejected with InvalidPatternError")
        return None
    except Exception as e:  # noqa: BLE001
        if exc_origin(e) == "harness":
            raise
        acc.violation("C07/%s/create/unexpected-%s/%s" % (kind, type(e).__name__, exc_site(e)),
                      "creating %s pattern %r (%s) raised %s: %s" % (kind, text, cname or "invariant", type(e).__name__, str(e)[:200]),
                      {"kind": kind, "pattern": text, "culture": cname},
                      py="from pyoda_time.text import %s\n\ndef test_replay():\n    %s.create_with_invariant_culture(%r)\n" % (
                          KCLS[kind].__name__, KCLS[kind].__name__, text))
        return None


@functools.lru_cache(maxsize=None)
def pattern_list(kind, tier):
    k = 2 if tier == "quick" else 3
    reduce_from = 3
    if tier == "thorough" and kind in ("offset", "annual", "date"):
        reduce_from = 4
    if tier == "quick" and kind in ("datetime", "instant"):
        reduce_from = 2          # two-field date-time patterns: shortest/longest width only (all five delimiters kept)
    pats = list(G.fixed_patterns(kind)) + list(G.custom_patterns(kind, k, reduce_from, 3 if reduce_from == 2 else None))
    if kind == "datetime":
        pats += list(G.datetime_composites(1, tier == "thorough"))
    pats += list(G.embedded_standard(kind))
    return tuple(pats)


def _with_cfg(acc, kind, base, label, text, cname):
    try:
        return apply_config(kind, base, label)
    except Exception as e:  # noqa: BLE001
        if exc_origin(e) == "harness":
            raise
        acc.violation("C07/%s/config/unexpected-%s/%s" % (kind, type(e).__name__, exc_site(e)),
                      "%s on pattern %r raised %s: %s" % (label, text, type(e).__name__, str(e)[:200]),
                      {"kind": kind, "pattern": text, "culture": cname, "config": label})
        return None, None


def check_custom_pattern(acc, hacc, kind, tier, pat, reps, rot, do_history):
    """Everything done for one generated pattern: cultures x configurations x values, then the shared-object history."""
    cfgs = configs(kind, tier)
    comp = T.relevant_class_components(pat.text, pat.names)
    if pat.delim == "emb-std":
        cnames = [name for name, _ in reps]       # a standard letter hides what it depends on: every representative
    elif comp:
        # one representative per class of the partition restricted to what this pattern can depend on
        seen_keys, cnames = set(), []
        for name, key in reps:
            pk = tuple(key[i] for i in comp)
            if name == "" or pk not in seen_keys:
                seen_keys.add(pk)
                cnames.append(name)
    else:
        cnames = ("",) + tuple(rot)
    for ci, cname in enumerate(cnames):
        spec = T.spec_of_pat(pat, props(cname)) if pat.fields else None
        base = create(acc, kind, pat.text, cname, True, spec, pat.delim)
        if base is None:
            continue
        if ci % 2 == 1 and cname != "":
            # the same pattern reached through with_culture from the invariant one
            inv = create(acc, kind, pat.text, "", True, spec, pat.delim)
            if inv is not None:
                try:
                    base = inv.with_culture(culture(cname))
                    acc.count(transitions=1)
                except Exception as e:  # noqa: BLE001
                    acc.lib_exception("C07/%s/with_culture" % kind, e, {"pattern": pat.text, "culture": cname})
                    continue
        twin = create(acc, kind, pat.text, cname, True, spec, pat.delim)
        for li, (label, _) in enumerate(cfgs):
            if li > 0 and cname != "":
                continue          # template configurations are explored in the invariant culture
            if label.startswith("cal=") and not (pat.names and (set(pat.names) & G.DATE_FIELD_NAMES)):
                continue
            if label.startswith("2dy=") and dict(pat.fields).get("yoe") != "yy":
                continue
            if label.startswith("tmpl=") and not label.startswith("tmpl=-") and "(BCE)" in label or label.startswith("tmpl=Julian"):
                # non-ISO era templates: only where the template's era / calendar can matter
                if not (set(pat.names) & {"yoe", "era", "cal", "year"}):
                    continue
            if label.startswith("cal=") and "mtext" in pat.names and label[4:] == "Badi":
                # the Badi template (2000-01-01 ISO) lies in month 16: no month name exists for it, and the property
                # pairs month-name fields only with months 1-12
                acc.outcome("configuration skipped: template month has no name")
                continue
            p, tmpl = _with_cfg(acc, kind, base, label, pat.text, cname)
            if p is None:
                continue
            tw = twin if li == 0 else None
            tcal = tmpl[0] if kind in ("date", "datetime", "instant") else None
            small = kind in ("datetime", "instant") and (tier == "quick" or len(pat.fields) > 2)
            values = value_alphabet(kind, tcal, "cal" in pat.names, small, tier == "thorough")
            c = Case(kind, pat.text, cname, label, p, tmpl, spec, spec is not None, pat.delim)
            good = run_case(acc, c, values, tw)
            if do_history and cname == "" and good and (li == 0 or len(pat.fields) == 1):
                def make_fresh(kind=kind, text=pat.text, label=label):
                    q = KCLS[kind].create(text, CultureInfo.invariant_culture)
                    return apply_config(kind, q, label)[0]
                extra = [T.to_lib(kind, values[len(values) // 2])]
                run_history(hacc, c, make_fresh, good, extra)


def custom_worker(task):
    kind, tier, lo, hi, reps, rot, do_history = task
    acc, hacc = Acc(), Acc()
    for pat in pattern_list(kind, tier)[lo:hi]:
        check_custom_pattern(acc, hacc, kind, tier, pat, reps, rot, do_history)
    return acc, hacc


def standard_expansion(kind, letter, P: T.Props):
    """The custom text a culture-dependent standard pattern stands for (documented mapping), or None."""
    pt = P.patterns
    inv = INVARIANT_EXPANSIONS.get(kind, {}).get(letter)
    if inv is not None:
        return inv
    try:
        if kind == "date":
            return {"d": pt["short_date_pattern"], "D": pt["long_date_pattern"], "M": pt["month_day_pattern"]}.get(letter)
        if kind == "time":
            return {"t": pt["short_time_pattern"], "T": pt["long_time_pattern"], "r": "HH:mm:ss.FFFFFFFFF"}.get(letter)
        if kind == "datetime":
            return {"f": pt["long_date_pattern"] + " " + pt["short_time_pattern"], "F": pt["full_date_time_pattern"],
                    "g": pt["short_date_pattern"] + " " + pt["short_time_pattern"],
                    "G": pt["short_date_pattern"] + " " + pt["long_time_pattern"]}.get(letter)
        if kind == "offset":
            return {"l": "+HH:mm:ss", "m": "+HH:mm", "s": "+HH", "L": "+HHmmss", "M": "+HHmm", "S": "+HH"}.get(letter)
    except KeyError:
        return None
    return None


# documented texts of the culture-invariant standard letters
_ISO_DT = "uuuu'-'MM'-'dd'T'HH':'mm':'ss"
INVARIANT_EXPANSIONS = {
    "date": {"R": "uuuu'-'MM'-'dd", "r": "uuuu'-'MM'-'dd '('c')'"},
    "time": {"o": "HH':'mm':'ss;FFFFFFFFF", "O": "HH':'mm':'ss;fffffffff"},
    "datetime": {"o": _ISO_DT + "'.'fffffff", "O": _ISO_DT + "'.'fffffff", "r": _ISO_DT + "'.'fffffffff '('c')'", "R": _ISO_DT + "'.'fffffffff",
                 "s": _ISO_DT, "S": _ISO_DT + ";FFFFFFFFF"},
    "instant": {"g": "uuuu'-'MM'-'dd'T'HH':'mm':'ss'Z'"},
    "annual": {"G": "MM'-'dd"},
}

# standard letters whose expansion depends on the culture (the others return the invariant built-ins)
CULTURE_DEPENDENT = {"offset": ("g", "G", "l", "m"), "duration": (), "time": ("t", "T", "r"), "date": ("d", "D", "M"),
                     "datetime": ("f", "F", "g", "G"), "instant": (), "annual": ()}

SINGLE_TEXT = (("date", "MMM"), ("date", "MMMM"), ("date", "ddd"), ("date", "dddd"), ("time", "%t"), ("time", "tt"),
               ("date", "yyyy'~'gg"), ("annual", "MMMM"), ("datetime", "MMMM'~'tt"))


def standard_worker(task):
    cnames, tier = task
    acc = Acc()
    for cname in cnames:
        P = props(cname)
        for kind in G.KINDS:
            for letter in G.STANDARD[kind]:
                base = create(acc, kind, letter, cname, False)
                if base is None:
                    continue
                dependent = letter in CULTURE_DEPENDENT[kind]
                twin = create(acc, kind, letter, cname, False) if (dependent or cname == "") else None
                exp = standard_expansion(kind, letter, P)
                spec, safe = (None, False)
                if exp is not None:
                    spec, safe = T.scan(kind, exp, P)
                tmpl = DEFAULT_TMPL[kind]
                tcal = "ISO" if kind in ("date", "datetime", "instant") else None
                with_cal = spec is not None and "cal" in spec.names
                values = value_alphabet(kind, tcal, with_cal, True)
                if not dependent and cname != "":
                    values = values[1:4]      # invariant standard patterns: same objects in every culture
                c = Case(kind, letter, cname, "default", base, tmpl, spec, safe, "std")
                run_case(acc, c, values, twin)
                if cname == "" and kind in ("date", "datetime") and spec is not None and safe:
                    # standard letters under the template configurations as well (invariant culture)
                    for label, _ in configs(kind, tier):
                        if label == "default" or label.startswith("2dy=") and "yoe" not in spec.names:
                            continue
                        if label == "cal=Badi" and "mtext" in spec.names:
                            continue
                        p2, tmpl2 = _with_cfg(acc, kind, base, label, letter, cname)
                        if p2 is None:
                            continue
                        vals2 = value_alphabet(kind, tmpl2[0], "cal" in spec.names, True)
                        run_case(acc, Case(kind, letter, cname, label, p2, tmpl2, spec, True, "std"), vals2, None)
        for kind, text in SINGLE_TEXT:
            spec, safe = T.scan(kind, text, P)
            base = create(acc, kind, text, cname, True, spec, "single")
            if base is None:
                continue
            tcal = "ISO" if kind in ("date", "datetime", "instant") else None
            values = value_alphabet(kind, tcal, False, True)
            c = Case(kind, text, cname, "default", base, DEFAULT_TMPL[kind], spec, safe, "single")
            run_case(acc, c, values, None)
    return acc


BUILTINS = (
    # (kind, attribute, exact for every value?)  - inexact ones are checked through their scanned field list
    ("date", "iso", True), ("date", "full_roundtrip", True),
    ("time", "extended_iso", True), ("time", "long_extended_iso", True), ("time", "variable_precision_iso", True),
    ("time", "general_iso", False), ("time", "hour_minute_iso", False), ("time", "hour_iso", False),
    ("datetime", "extended_iso", True), ("datetime", "full_roundtrip_without_calendar", True), ("datetime", "full_roundtrip", True),
    ("datetime", "variable_precision_iso", True), ("datetime", "general_iso", False), ("datetime", "bcl_round_trip", False),
    ("datetime", "date_hour_iso", False), ("datetime", "date_hour_minute_iso", False),
    ("instant", "extended_iso", True), ("instant", "general", False),
    ("duration", "roundtrip", True), ("duration", "json_roundtrip", True),
    ("offset", "general_invariant", True), ("offset", "general_invariant_with_z", True),
    ("annual", "iso", True),
)
CALENDAR_CARRYING = {("date", "full_roundtrip"), ("datetime", "full_roundtrip")}


def builtin_worker(task):
    kind, attr, exact = task
    acc, hacc = Acc(), Acc()
    try:
        pat = getattr(KCLS[kind], attr)
        twin = getattr(KCLS[kind], attr)
    except Exception as e:  # noqa: BLE001
        if exc_origin(e) == "harness":
            raise
        if isinstance(e, AttributeError):
            acc.degrade("built-in pattern %s.%s not present" % (KCLS[kind].__name__, attr))
            return acc, hacc
        acc.lib_exception("C07/%s/builtin-%s" % (kind, attr), e, {"attr": attr})
        return acc, hacc
    carrying = (kind, attr) in CALENDAR_CARRYING
    tcal = "ISO" if kind in ("date", "datetime", "instant") else None
    values = value_alphabet(kind, tcal, carrying, False)
    text = getattr(pat, "pattern_text", None)
    spec, safe = (None, False)
    if isinstance(text, str):
        spec, safe = T.scan(kind, text, props(""))
    label = "builtin:" + attr
    c = Case(kind, text or attr, "", label, pat, DEFAULT_TMPL[kind], spec, safe and not exact, "builtin")
    run_case(acc, c, values, twin)
    if kind in ("date", "datetime") and spec is not None and safe and hasattr(pat, "with_calendar"):
        # the same built-in under every template calendar: values of that calendar must come back in that calendar
        for cid in calendar_ids():
            if cid == "ISO":
                continue
            lab = "%s/cal=%s" % (label, cid)
            try:
                p2, tmpl2 = apply_config(kind, pat, "cal=" + cid)
            except Exception as e:  # noqa: BLE001
                if exc_origin(e) == "harness":
                    raise
                acc.violation("C07/%s/config/unexpected-%s/%s" % (kind, type(e).__name__, exc_site(e)),
                              "%s.%s.with_calendar(%s) raised %s: %s" % (KCLS[kind].__name__, attr, cid, type(e).__name__, str(e)[:200]),
                              {"kind": kind, "builtin": attr, "config": lab})
                continue
            vals2 = value_alphabet(kind, cid, "cal" in spec.names, True)
            run_case(acc, Case(kind, text, "", lab, p2, tmpl2, spec, True, "builtin"), vals2, None)
    if exact:
        for v in values:
            try:
                lv = T.to_lib(kind, v)
            except Exception as e:  # noqa: BLE001
                if exc_origin(e) == "harness":
                    raise
                continue
            acc.count(states=1)
            try:
                s = pat.format(lv)
                r = pat.parse(s)
                acc.count(transitions=2, evaluations=1)
            except Exception as e:  # noqa: BLE001
                if exc_origin(e) == "harness":
                    raise
                acc.violation("C07/%s/O4-raises/%s/%s/%s" % (kind, attr, type(e).__name__, exc_site(e)),
                              "%s.%s: round trip of %s raised %s: %s" % (KCLS[kind].__name__, attr, v, type(e).__name__, str(e)[:200]),
                              {"kind": kind, "builtin": attr, "value": v})
                continue
            if not r.success or r.value != lv:
                acc.violation("C07/%s/O4-roundtrip/%s" % (kind, attr),
                              "%s.%s: %s -> %r -> %s" % (KCLS[kind].__name__, attr, v, s,
                                                           T.from_lib(kind, r.value) if r.success else "failure: " + str(r.exception)[:120]),
                              {"kind": kind, "builtin": attr, "value": v, "text": s})
                continue
            acc.outcome("O4 recovered exactly")
            acc.count(nontrivial=1)
            if len(acc.samples) < 1:
                acc.sample({"builtin": "%s.%s" % (KCLS[kind].__name__, attr), "value": v, "text": s})
        # one shared object, interleaved
        good = []
        for v in values[:6]:
            try:
                lv = T.to_lib(kind, v)
                good.append((v, lv, pat.format(lv)))
            except Exception:  # noqa: BLE001
                pass

        def make_fresh(kind=kind, text=text):
            if isinstance(text, str):
                return KCLS[kind].create_with_invariant_culture(text)
            return getattr(KCLS[kind], attr)
        if isinstance(text, str):
            run_history(hacc, c, make_fresh, good, [])
    return acc, hacc



# ---------------------------------------------------------------------------------------------------------------
# fraction digits: dense sweep of sub-second values through the patterns with a fraction field (digit-dependent
# defects of the fraction scanner / renderer are invisible to a handful of boundary fractions)
# ---------------------------------------------------------------------------------------------------------------

FRACTION_PATTERNS = (
    ("duration", "builtin", "roundtrip", 1), ("duration", "builtin", "json_roundtrip", 1),
    ("datetime", "builtin", "full_roundtrip", 1), ("time", "custom", "HH:mm:ss.FFFFFF", 1000), ("time", "custom", "ss'~'ffffff", 1000),
    ("time", "custom", "HH:mm:ss.FFF", 1_000_000), ("duration", "custom", "S.FFFFFFFFF", 1), ("instant", "custom", "uuuu-MM-ddTHH:mm:ss.FFFFFFF'Z'", 100),
)
FRACTION_STRIDE = 9973


def fraction_worker(task):
    pi, lo, hi = task
    kind, how, name, unit = FRACTION_PATTERNS[pi]
    acc = Acc()
    try:
        pat = getattr(KCLS[kind], name) if how == "builtin" else KCLS[kind].create(name, CultureInfo.invariant_culture)
    except AttributeError:
        acc.degrade("built-in pattern %s.%s not present" % (KCLS[kind].__name__, name))
        return acc
    except Exception as e:  # noqa: BLE001
        acc.lib_exception("C07/%s/fraction-digits/create" % kind, e, {"pattern": name})
        return acc
    top = 10**9 // unit
    for i in range(lo, hi):
        n = i if i < 20_000 else ((i - 20_000) * FRACTION_STRIDE) % top        # first 20,000 units, then a stride over the whole range
        ns = (n % top) * unit
        if kind == "duration":
            v = (T.NS_D + T.NS_H + ns) * (-1 if (i % 2 and how == "builtin") else 1)     # the built-ins carry a sign
        elif kind == "time":
            v = (12, 34, 56, ns) if "HH" in name else (0, 0, 56, ns)
        else:
            v = ("ISO", 2024, 2, 29, 12, 34, 56, ns)
        acc.count(states=1, transitions=2, evaluations=1)
        try:
            lv = T.to_lib(kind, v)
            text = pat.format(lv)
            r = pat.parse(text)
        except Exception as e:  # noqa: BLE001
            if exc_origin(e) == "harness":
                raise
            acc.violation("C07/%s/fraction-digits/raises-%s/%s" % (kind, type(e).__name__, name), "%s: round trip of %s raised %s: %s" % (name, v, type(e).__name__, str(e)[:160]),
                          {"kind": kind, "pattern": name, "value": v})
            continue
        if not r.success or r.value != lv:
            m = re.search(r"[.~](\d+)\D*$", text) if kind != "datetime" else re.search(r"\.(\d+)", text)
            digits = len(m.group(1)) if m else 0
            acc.violation("C07/%s/fraction-digits/%s/digits=%d" % (kind, name, digits),
                          "%s: %s -> %r -> %s" % (name, v, text, T.from_lib(kind, r.value) if r.success else "failure"),
                          {"kind": kind, "pattern": name, "value": v, "text": text})
            continue
        acc.count(nontrivial=1)
    acc.outcome("fraction digits recovered exactly", acc.nontrivial)
    return acc


# ---------------------------------------------------------------------------------------------------------------
# hash collisions: different values with equal hash(), found at run time, used consecutively with ONE pattern object
# ---------------------------------------------------------------------------------------------------------------

@functools.lru_cache(maxsize=None)
def value_lattice(kind):
    """A dense lattice of library values per type (consecutive days x small nanosecond steps, etc.)."""
    import pyoda_time as pt
    if kind in ("datetime", "instant"):
        times = [pt.LocalTime.from_nanoseconds_since_midnight(n) for n in range(0, 5001)]
        d0 = pt.LocalDate(2024, 12, 15)
        out = []
        for k in range(24):
            d = d0.plus_days(k)
            if kind == "datetime":
                out += [d + t for t in times]
            else:
                base = pt.Instant.from_utc(d.year, d.month, d.day, 0, 0, 0)
                out += [base.plus_nanoseconds(n) for n in range(0, 5001)]
        return out
    if kind == "time":
        return ([pt.LocalTime.from_nanoseconds_since_midnight(n) for n in range(0, 20001)]
                + [pt.LocalTime.from_nanoseconds_since_midnight(sec * 10**9 + k) for sec in range(0, 86400, 617) for k in (0, 1, 38, 64)])
    if kind == "date":
        out = [pt.LocalDate(2020, 1, 1).plus_days(k) for k in range(3000)]
        for cid in ("Gregorian", "Julian", "Hebrew Civil", "Coptic"):
            d0 = pt.LocalDate(2020, 1, 1).with_calendar(CalendarSystem.for_id(cid))
            out += [d0.plus_days(k) for k in range(500)]
        return out
    if kind == "offset":
        return [pt.Offset.from_seconds(x) for x in sorted(set(range(-7300, 7301)) | set(range(-64800, 64801, 60)))]
    if kind == "duration":
        out = []
        for days in range(-2, 3):
            for n in list(range(0, 3001)) + list(range(T.NS_D - 3000, T.NS_D)):
                out.append(pt.Duration.from_nanoseconds(days * T.NS_D + n))
        return out
    if kind == "annual":
        return [pt.AnnualDate(m, d) for m in range(1, 13) for d in range(1, T.Cal.get("ISO").days_in_month(2000, m) + 1)]
    raise AssertionError(kind)


@functools.lru_cache(maxsize=None)
def collision_groups(kind):
    """Groups (>= 2 members) of pairwise different lattice values with equal hash(), in lattice order."""
    by = {}
    for v in value_lattice(kind):
        by.setdefault(hash(v), []).append(v)
    groups = []
    for h, vs in by.items():
        distinct = []
        for v in vs:
            if all(v != w for w in distinct):
                distinct.append(v)
        if len(distinct) > 1:
            groups.append(tuple(distinct))
    return groups


def collision_check(acc, keyprefix, kind, label, pat, ref, groups, max_groups=2000):
    """Format (and parse the texts of) the members of every collision group consecutively through `pat`; `ref` is a
    second pattern object that formats an unrelated value (different hash) between any two members."""
    if not groups:
        return
    step = max(1, len(groups) // max_groups)
    lat = value_lattice(kind)
    sentinels = (lat[0], lat[len(lat) // 2 + 1])
    for g in groups[::step]:
        texts = []
        try:
            # phase 1: reference texts, an unrelated value (different hash) formatted before each member
            wants = []
            for v in g:
                sen = sentinels[0] if hash(sentinels[0]) != hash(v) else sentinels[1]
                ref.format(sen)
                wants.append(ref.format(v))
            # phase 2: the members back to back through one object
            gots = [pat.format(v) for v in g]
            acc.count(states=len(g), transitions=3 * len(g), evaluations=len(g))
        except Exception as e:  # noqa: BLE001
            if exc_origin(e) == "harness":
                raise
            acc.violation("%s/hash-collision-raises-%s/%s" % (keyprefix, type(e).__name__, label), "%s: formatting a collision group raised %s" % (label, type(e).__name__),
                          {"kind": kind, "pattern": label, "group": [short(x) for x in g]})
            return
        bad = [i for i in range(len(g)) if gots[i] != wants[i]]
        if bad:
            i = bad[0]
            acc.violation("%s/hash-collision-format/%s" % (keyprefix, label),
                          "%s: formatting %s right after %s (equal hash, different value) through one pattern object gives %r; with "
                          "something else formatted in between it gives %r" % (label, short(g[i]), short(g[i - 1]), gots[i], wants[i]),
                          {"kind": kind, "pattern": label, "group": [short(x) for x in g]})
            return
        texts = gots
        for v, t in zip(g, texts):
            try:
                a, b = pat.parse(t), ref.parse(t)
                acc.count(transitions=2, evaluations=1)
                same = a.success == b.success and (not a.success or a.value == b.value)
            except Exception as e:  # noqa: BLE001
                if exc_origin(e) == "harness":
                    raise
                same = True       # exceptions from parse are C08's
            if not same:
                acc.violation("%s/hash-collision-parse/%s" % (keyprefix, label), "%s: parse(%r) differs between the two pattern objects" % (label, t),
                              {"kind": kind, "pattern": label, "text": t})
                return
        acc.count(nontrivial=1)


COLLISION_CUSTOM = {"datetime": "uuuu'-'MM'-'dd'T'HH':'mm':'ss.fffffffff", "instant": "uuuu'-'MM'-'dd'T'HH':'mm':'ss.fffffffff'Z'",
                    "time": "HH:mm:ss.fffffffff", "date": "uuuu'-'MM'-'dd c", "offset": "+HH:mm:ss", "duration": "-D:hh:mm:ss.fffffffff", "annual": "MM/dd"}


def collision_patterns(kind):
    out = [("%s.%s" % (KCLS[kind].__name__, attr), attr) for k, attr, _ in BUILTINS if k == kind]
    out.append((COLLISION_CUSTOM[kind], None))
    return out


def collision_worker(task):
    kind, pi = task
    acc = Acc()
    groups = collision_groups(kind)
    if pi == 0:
        acc.note("hash collision groups " + kind, {"lattice": len(value_lattice(kind)), "groups": len(groups)})
        acc.outcome("hash collision groups found for %s: %d" % (kind, len(groups)))
    if not groups:
        return acc
    label, attr = collision_patterns(kind)[pi]
    try:
        if attr is not None:
            pat = getattr(KCLS[kind], attr)
            t = getattr(pat, "pattern_text", None)
            ref = KCLS[kind].create_with_invariant_culture(t) if isinstance(t, str) else getattr(KCLS[kind], attr)
        else:
            pat = KCLS[kind].create(label, CultureInfo.invariant_culture)
            ref = KCLS[kind].create(label, CultureInfo.invariant_culture)
    except AttributeError:
        return acc
    collision_check(acc, "C07/%s" % kind, kind, label, pat, ref, groups, 800)
    return acc

# ---------------------------------------------------------------------------------------------------------------
# failed call interposed: a call that fails (after having done part of its work) must not change later answers
# ---------------------------------------------------------------------------------------------------------------

class _FailingProxy:
    """Looks like `value` for its first `n` attribute reads, then raises: a format call on it stops part-way."""

    def __init__(self, value, n):
        object.__setattr__(self, "_v", value)
        object.__setattr__(self, "_n", n)

    def __getattr__(self, name):
        n = object.__getattribute__(self, "_n")
        if n <= 0:
            raise AttributeError("value refuses attribute %r" % name)
        object.__setattr__(self, "_n", n - 1)
        return getattr(object.__getattribute__(self, "_v"), name)


class _RaisingBuilder:
    """A builder whose second append raises (append_format must not leave anything behind in the pattern)."""

    def __init__(self):
        self.calls = 0
        self.length = 0

    def append(self, text):
        self.calls += 1
        if self.calls > 1:
            raise RuntimeError("builder full")
        self.length += len(str(text))
        return self

    def __getitem__(self, i):
        return "x"


def failing_calls(kind, values):
    """[(label, callable(pattern))]: calls that raise or fail on the unchanged tree, most of them after having written
    part of their output.  The same catalogue for every type."""
    import pyoda_time as pt
    wrong = {"date": pt.LocalTime(1, 2, 3), "time": pt.LocalDate(1999, 12, 31), "datetime": pt.LocalDate(1999, 12, 31),
             "instant": pt.LocalDate(1999, 12, 31), "offset": pt.LocalDate(1999, 12, 31), "duration": pt.LocalDate(1999, 12, 31),
             "annual": pt.LocalTime(1, 2, 3)}[kind]
    badi = pt.LocalDate(180, 19, 1, CalendarSystem.for_id("Badi"))
    month_names = LocalDatePattern.create_with_invariant_culture("dd MMMM")
    out = [
        ("format(None)", lambda p: p.format(None)),
        ("format(value of another type)", lambda p: p.format(wrong)),
        ("format(value that fails after 1 attribute read)", lambda p: p.format(_FailingProxy(values[0], 1))),
        ("format(value that fails after 2 attribute reads)", lambda p: p.format(_FailingProxy(values[0], 2))),
        ("format(value that fails after 4 attribute reads)", lambda p: p.format(_FailingProxy(values[-1], 4))),
        ("another pattern fails part-way (month name of Badi month 19)", lambda p: month_names.format(badi)),
        ("repr() of a Badi date in month 19", lambda p: repr(badi)),
        ("parse of garbage", lambda p: p.parse("\0garbage").value),
        ("parse(None)", lambda p: p.parse(None).value),
        ("append_format into a builder that raises", lambda p: p.append_format(values[0], _RaisingBuilder())),
    ]
    return out


def interposed_check(acc, keyprefix, kind, label, pat, values):
    """For every failing call F and every position: [format(v1), F, format(v2), F, format(v3)] restricted to one
    interposition at a time - every later answer (text, and the parse of that text) must equal the answer of the
    undisturbed sequence."""
    vs = list(values[:3])
    if len(vs) < 2:
        return
    try:
        base = [pat.format(v) for v in vs]
        base_parse = [observe(pat, ("parse", t)) for t in base]
    except Exception as e:  # noqa: BLE001
        if exc_origin(e) == "harness":
            raise
        acc.outcome("interposed: baseline not formattable")
        return
    for flabel, fcall in failing_calls(kind, vs):
        for pos in range(len(vs)):
            outcome = "returned"
            got = []
            for i, v in enumerate(vs):
                if i == pos:
                    try:
                        fcall(pat)
                    except BaseException as e:  # noqa: BLE001
                        outcome = "raised " + type(e).__name__
                acc.count(states=1, transitions=2, evaluations=1)
                try:
                    t = pat.format(v)
                    got.append((t, observe(pat, ("parse", t))))
                except Exception as e:  # noqa: BLE001
                    if exc_origin(e) == "harness":
                        raise
                    got.append(("raised " + type(e).__name__, None))
            acc.outcome("interposed call %s" % outcome)
            for i in range(len(vs)):
                if got[i][0] != base[i] or (got[i][1] is not None and got[i][1] != base_parse[i]):
                    acc.violation("%s/interposed-failure/%s" % (keyprefix, label),
                                  "%s: after the failing call <%s> (it %s) placed before format #%d, format(%s) answers %r instead of %r" % (
                                      label, flabel, outcome, pos + 1, short(vs[i]), got[i][0], base[i]),
                                  {"kind": kind, "pattern": label, "failing_call": flabel, "position": pos})
                    # one successful clean call may be needed to get the pattern machinery back to normal
                    try:
                        pat.format(vs[0])
                    except Exception:  # noqa: BLE001
                        pass
                    return
        acc.count(nontrivial=1)


def interposed_worker(kind):
    acc = Acc()
    values = [T.to_lib(kind, v) for v in value_alphabet(kind, "ISO" if kind in ("date", "datetime", "instant") else None, False, True)[1:4]]
    for label, attr in collision_patterns(kind):
        try:
            pat = getattr(KCLS[kind], attr) if attr is not None else KCLS[kind].create(label, CultureInfo.invariant_culture)
        except AttributeError:
            continue
        interposed_check(acc, "C07/%s" % kind, kind, label, pat, values)
    for fp in G.fixed_patterns(kind):
        pat = create(acc, kind, fp.text, "", True, None, "fixed")
        if pat is not None:
            interposed_check(acc, "C07/%s" % kind, kind, fp.text, pat, values)
    return acc


# ---------------------------------------------------------------------------------------------------------------
# configuration chains: with_* calls in every order
# ---------------------------------------------------------------------------------------------------------------

CHAIN_OPS = {
    "date": ("tdy", "cal", "tmpl", "culture"), "datetime": ("tdy", "cal", "tmpl", "culture"), "instant": ("tdy", "tmpl", "culture"),
    "time": ("tmpl", "culture"), "annual": ("tmpl", "culture"), "offset": ("culture",), "duration": ("culture",),
}
CHAIN_ARGS = {"tdy": 80, "cal": "Julian", "culture": "fi-FI",
              "tmpl": {"date": ("ISO", 1985, 7, 23), "datetime": ("ISO", 1985, 7, 23, 13, 45, 56, 500_000_000),
                       "instant": ("ISO", 1985, 7, 23, 13, 45, 56, 500_000_000), "time": (13, 45, 56, 500_000_000), "annual": (7, 23)}}
CHAIN_EXTRA_PATTERNS = {
    "date": ("yy'~'MM'~'dd", "dd'~'MM'~'yy", "yy/M", "MMMM'~'yy"), "datetime": ("yy'~'MM'~'dd' 'HH':'mm", "d/M/yy HH:mm:ss", "ld<yy'~'MM'~'dd>'T'lt<HH>"),
    "instant": ("yy'~'MM'~'dd'T'HH':'mm'Z'",), "time": ("h:mm tt", "mm'~'ss"), "annual": ("MMMM", "%d"), "offset": ("+HH:mm",), "duration": ("-H:mm:ss",),
}


def chain_apply(kind, pat, op):
    if op == "tdy":
        return pat.with_two_digit_year_max(CHAIN_ARGS["tdy"])
    if op == "cal":
        return pat.with_calendar(CalendarSystem.for_id(CHAIN_ARGS["cal"]))
    if op == "tmpl":
        return pat.with_template_value(T.to_lib(kind, CHAIN_ARGS["tmpl"][kind]))
    return pat.with_culture(culture(CHAIN_ARGS["culture"]))


def chain_model(kind, ops):
    """(template tuple, two-digit-year maximum, culture name) after applying ops in order - the documented meaning of
    each call: with_calendar converts the current template, with_template_value replaces it, the others are
    independent settings."""
    tmpl, tdy, cname = DEFAULT_TMPL[kind], 30, ""
    for op in ops:
        if op == "tdy":
            tdy = CHAIN_ARGS["tdy"]
        elif op == "culture":
            cname = CHAIN_ARGS["culture"]
        elif op == "tmpl":
            tmpl = CHAIN_ARGS["tmpl"][kind]
        elif op == "cal":
            d = T.to_lib("date", tmpl[:4]).with_calendar(CalendarSystem.for_id(CHAIN_ARGS["cal"]))
            tmpl = (d.calendar.id, d.year, d.month, d.day) + tuple(tmpl[4:])
    return tmpl, tdy, cname


def chain_worker(kind):
    acc = Acc()
    ops_all = CHAIN_OPS[kind]
    texts = [fp.text for fp in G.fixed_patterns(kind)] + [p.text for p in G.custom_patterns(kind, 1)] + list(CHAIN_EXTRA_PATTERNS[kind])
    chains = [c for n in range(1, 4) for c in itertools.permutations(ops_all, n)]
    for text in dict.fromkeys(texts):
        base = create(acc, kind, text, "", True, None, "chain")
        if base is None:
            continue
        for ops in chains:
            tmpl, tdy, cname = chain_model(kind, ops)
            P = props(cname)
            spec, safe = T.scan(kind, text, P)
            label = "chain=" + ">".join(ops)
            if spec is not None and "mtext" in spec.names and tmpl is not None and kind != "time" and (tmpl[0] if kind == "annual" else tmpl[2]) > 12:
                continue
            acc.count(states=1)
            try:
                p = base
                for op in ops:
                    p = chain_apply(kind, p, op)
                # the same configuration reached in a canonical order through the factory
                q = KCLS[kind].create(text, culture(cname))
                if "tmpl" in ops or "cal" in ops:
                    q = q.with_template_value(T.to_lib(kind, tmpl))
                if "tdy" in ops:
                    q = q.with_two_digit_year_max(tdy)
                acc.count(transitions=len(ops) + 3)
            except Exception as e:  # noqa: BLE001
                if exc_origin(e) == "harness":
                    raise
                acc.violation("C07/%s/config-chain/raises-%s/%s" % (kind, type(e).__name__, exc_site(e)),
                              "pattern %r: %s raised %s: %s" % (text, label, type(e).__name__, str(e)[:160]), {"kind": kind, "pattern": text, "config": label})
                continue
            tcal = tmpl[0] if kind in ("date", "datetime", "instant") else None
            values = value_alphabet(kind, tcal, spec is not None and "cal" in spec.names, True)
            if tcal is not None and "tdy" in ops:
                extra = T.pivot_dates(tcal)
                values = tuple(values) + tuple(d if kind == "date" else d + (1, 2, 3, 0) for d in extra)
            bad = None
            for v in values:
                try:
                    lv = T.to_lib(kind, v)
                except Exception:  # noqa: BLE001
                    continue
                a, b = observe(p, ("format", lv)), observe(q, ("format", lv))
                acc.count(transitions=2, evaluations=1)
                if a != b:
                    bad = ("format(%s)" % short(lv), a, b)
                    break
                if a[0] == "text":
                    pa, pb = observe(p, ("parse", a[1])), observe(q, ("parse", a[1]))
                    acc.count(transitions=2, evaluations=1)
                    if pa != pb:
                        bad = ("parse(%r)" % a[1], pa, pb)
                        break
            if bad is not None:
                acc.violation("C07/%s/config-chain/order-dependent/%s" % (kind, "+".join(sorted(ops))),
                              "pattern %r: the chain %s answers %s with %s, the same configuration built as create(culture).with_template_value"
                              "(...).with_two_digit_year_max(...) answers %s" % (text, label, bad[0], short(bad[1], 90), short(bad[2], 90)),
                              {"kind": kind, "pattern": text, "config": label})
                continue
            c = Case(kind, text, cname, label, p, tmpl, spec, spec is not None and safe, "chain")
            c.tdy = tdy
            run_case(acc, c, values, None)
    return acc


# ---------------------------------------------------------------------------------------------------------------
# the value's own route: format(value, pattern text) / f-string / __format__
# ---------------------------------------------------------------------------------------------------------------

WS_VARIANTS = (lambda t: " " + t, lambda t: t + " ", lambda t: " " + t + " ", lambda t: "\t" + t, lambda t: t + "\t")


def value_route_worker(task):
    kind, tier, lo, hi = task
    acc = Acc()
    pats = [p for p in pattern_list(kind, tier) if p.delim in ("", "q", "sp", "fixed", "T", "emb-std")][lo:hi]
    vals = value_alphabet(kind, "ISO" if kind in ("date", "datetime", "instant") else None, False, True)
    lv = T.to_lib(kind, vals[min(3, len(vals) - 1)])
    for idx, pat in enumerate(pats):
        texts = [pat.text]
        if len(pat.fields) <= 1 or pat.delim == "fixed":
            texts += [f(pat.text) for f in WS_VARIANTS]
        else:
            texts.append(WS_VARIANTS[(lo + idx) % len(WS_VARIANTS)](pat.text))
        for text in texts:
            acc.count(states=1, transitions=4, evaluations=1)
            try:
                want = ("text", KCLS[kind].create_with_current_culture(text).format(lv))
            except Exception as e:  # noqa: BLE001
                if exc_origin(e) == "harness":
                    raise
                want = ("raise", "InvalidPatternError" if isinstance(e, InvalidPatternError) else type(e).__name__)
            got = []
            for route, fn in (("format(value, text)", lambda: format(lv, text)), ("value.__format__(text)", lambda: lv.__format__(text)),
                              ("f-string", lambda: "{0:{1}}".format(lv, text) if "{" not in text and "}" not in text else format(lv, text))):
                try:
                    got.append((route, ("text", fn())))
                except Exception as e:  # noqa: BLE001
                    if exc_origin(e) == "harness":
                        raise
                    got.append((route, ("raise", "InvalidPatternError" if isinstance(e, InvalidPatternError) else type(e).__name__)))
            for route, g in got:
                if g != want:
                    edge = "plain" if text == pat.text else "whitespace-edged"
                    acc.violation("C07/%s/value-route/%s/%s" % (kind, route, edge),
                                  "%s with pattern text %r gives %s, %s.create_with_current_culture(%r).format(value) gives %s" % (
                                      route, text, short(g, 80), KCLS[kind].__name__, text, short(want, 80)),
                                  {"kind": kind, "pattern": text, "route": route})
                    break
            else:
                acc.count(nontrivial=1)
    if lo == 0:
        # a blank spec means the default pattern
        for blank in ("", " ", "\t", "  "):
            try:
                if format(lv, blank) != str(lv):
                    acc.violation("C07/%s/value-route/blank-spec" % kind, "format(value, %r) = %r but str(value) = %r" % (blank, format(lv, blank), str(lv)),
                                  {"kind": kind, "pattern": blank})
            except Exception as e:  # noqa: BLE001
                acc.lib_exception("C07/%s/value-route/blank-spec" % kind, e, {"pattern": blank})
    acc.outcome("value route agrees with create_with_current_culture(text).format(value)", acc.nontrivial)
    return acc


# ---------------------------------------------------------------------------------------------------------------
# driver
# ---------------------------------------------------------------------------------------------------------------

def rotate(lst, k):
    lst = list(lst)
    if not lst:
        return lst
    k %= len(lst)
    return lst[k:] + lst[:k]


def run(ctx):
    tier = ctx.tier
    only = getattr(ctx, "only", None)
    ctx.rule = ("nontrivial = exactly-recovered round trips whose (projected) value differs from the pattern's template "
                "in at least one carried field, plus shared-object operation orders completed; counted per "
                "(pattern, culture, configuration, value)")
    ctx.assumptions = [
        "month/day counts and calendar ranges used to build representable dates come from the public CalendarSystem API (checked by C01/C02)",
        "documented defaults: template 2000-01-01 / midnight / AnnualDate(1,1) / 2000-01-01T00:00Z, two-digit-year maximum 30",
        "a truncating fraction field directly after a literal '.' (culture time separator '.') is excluded for zero fractions: the formatter removes that dot by design",
        "exceptions escaping parse() for non-representable values are left to C08",
        "custom patterns: <= %d distinct fields per pattern; delimiters '~' (quoted, double-quoted, escaped), culture separator, space" % (2 if tier == "quick" else 3),
    ]
    names, classes = culture_classes(ctx)
    ctx.note("cultures", len(names))
    ctx.note("culture_classes", len(classes))
    reps = [""]
    key_of = {n: k for k, ms in classes.items() for n in ms}
    for key in sorted(classes, key=repr):
        members = classes[key]
        if members[0] not in reps:
            reps.append(members[0])
    # one extra member per class, chosen by the seed (never decides the verdict of a property that holds)
    rot = []
    for key in sorted(classes, key=repr):
        members = classes[key]
        if len(members) > 1:
            rot.append(members[1 + ctx.seed % (len(members) - 1)])
    rot_pick = tuple(rotate(rot, ctx.seed)[:2]) if rot else ()
    if tier == "thorough":
        reps = reps + [r for r in rot if r not in reps]
    ctx.note("culture_representatives", len(reps))
    ctx.note("seed_rotated_cultures", list(rot_pick))

    if not only or "builtin" in only:
        for acc, hacc in pmap(builtin_worker, BUILTINS):
            ctx.merge_part("builtin", acc)
            ctx.merge_part("history", hacc)
    if not only or "hash-collisions" in only:
        tasks = [(k, i) for k in G.KINDS for i in range(len(collision_patterns(k)))]
        for acc in pmap(collision_worker, sorted(tasks, key=lambda t: (t[0] not in ("datetime", "instant"), t))):
            ctx.merge_part("history", acc)
    if not only or "config-chains" in only:
        for acc in pmap(chain_worker, list(G.KINDS)):
            ctx.merge_part("config-chains", acc)
    if not only or "value-route" in only:
        tasks = []
        for kind in G.KINDS:
            n = len([p for p in pattern_list(kind, tier) if p.delim in ("", "q", "sp", "fixed", "T", "emb-std")])
            for lo in range(0, n, 150):
                tasks.append((kind, tier, lo, min(n, lo + 150)))
        for acc in pmap(value_route_worker, rotate(tasks, ctx.seed)):
            ctx.merge_part("value-route", acc)
    if not only or "interposed" in only:
        for acc in pmap(interposed_worker, list(G.KINDS)):
            ctx.merge_part("history", acc)
    if not only or "fraction-digits" in only:
        total = 20_000 + 10**9 // FRACTION_STRIDE // (1 if tier == "thorough" else 2)
        tasks = []
        for pi, (_, _, _, unit) in enumerate(FRACTION_PATTERNS):
            n = min(total, 20_000 + 10**9 // unit // FRACTION_STRIDE + 1) if unit > 1 else total
            n = min(n, 10**9 // unit)
            for lo in range(0, n, 20_000):
                tasks.append((pi, lo, min(n, lo + 20_000)))
        for acc in pmap(fraction_worker, rotate(tasks, ctx.seed)):
            ctx.merge_part("fraction-digits", acc)
    if not only or "standard" in only:
        chunks = [(tuple(names[i:i + 13]), tier) for i in range(0, len(names), 13)]
        for acc in pmap(standard_worker, rotate(chunks, ctx.seed)):
            ctx.merge_part("standard", acc)
    if not only or "custom" in only:
        tasks = []
        npat = {}
        import os
        kinds = [k for k in G.KINDS if not os.environ.get("VERIF_KINDS") or k in os.environ["VERIF_KINDS"].split(",")]
        for kind in kinds:
            n = len(pattern_list(kind, tier))
            npat[kind] = n
            size = 40 if kind in ("datetime", "date") else 80
            for lo in range(0, n, size):
                tasks.append((kind, tier, lo, min(n, lo + size), tuple((r, key_of[r]) for r in reps), rot_pick, True))
        ctx.note("patterns_per_type", npat)
        if tier == "quick":
            ctx.cap("two-field datetime / instant patterns use only the shortest/longest width variant of each field (all five delimiter styles kept)")
        if tier == "thorough":
            ctx.cap("custom patterns of >= 3 fields use only the shortest/longest width variants and the quoted/separator delimiters for time, duration, datetime, instant")
        ctx.cap("template configurations (with_template_value / with_calendar) are explored in the invariant culture only")
        ctx.cap("patterns without culture-dependent parts run in the invariant culture plus %d seed-rotated cultures, not in every class representative" % len(rot_pick))
        # interleave kinds so that the expensive ones do not all end up at the tail
        tasks = rotate(sorted(tasks, key=lambda t: (t[2] // 400, t[0])), ctx.seed)
        for acc, hacc in pmap(custom_worker, tasks):
            ctx.merge_part("custom", acc)
            ctx.merge_part("history", hacc)
    ctx.exhaustive = False
    ctx.cap("pattern space bounded: <= %d fields per custom pattern; value space bounded to the boundary alphabets" % (2 if tier == "quick" else 3))


def replay(rec) -> bool:
    """Re-execute the smallest unit of work containing a recorded case; True when the same violation key reappears."""
    key = rec.get("key", "")
    case = rec.get("case") or {}
    tier = rec.get("tier", "quick")
    kind = case.get("kind") or (key.split("/")[1] if key.count("/") >= 1 else None)
    cname = case.get("culture", "")
    cname = "" if cname in ("<invariant>", None) else cname
    label = case.get("config", "default")
    found = {}
    if "builtin" in case or str(label).startswith("builtin:"):
        attr = (case.get("builtin") or label.split(":", 1)[1]).split("/")[0]
        for k, a, exact in BUILTINS:
            if k == kind and a == attr:
                acc, hacc = builtin_worker((k, a, exact))
                found.update(acc.violations)
                found.update(hacc.violations)
    else:
        text = case.get("pattern")
        pat = next((p for p in pattern_list(kind, tier) if p.text == text), None) if kind in G.KINDS else None
        if pat is not None:
            acc, hacc = Acc(), Acc()
            reps = (("", T.class_key(props(""))),) + (((cname, T.class_key(props(cname))),) if cname else ())
            check_custom_pattern(acc, hacc, kind, tier, pat, reps, (cname,) if cname else (), True)
            found.update(acc.violations)
            found.update(hacc.violations)
        else:
            acc = standard_worker(((cname,), tier))
            found.update(acc.violations)
    return key in found
