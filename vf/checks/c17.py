"""C17 - the built-in ISO patterns interoperate with an independent ISO-8601 reader/writer (the standard library).

Exhaustive sweeps of the domain shared with `datetime`:
  dates      every date of years 1..9999 (3,652,059): LocalDatePattern.iso text == date.isoformat(), the standard
             library reads it back to the same date, and the library parses the standard library's text to the same
             LocalDate
  times      every second of the day (86,400) x a fraction alphabet, for extended_iso / long_extended_iso / general_iso:
             text shape, stdlib reader (truncating beyond microseconds), an own regular-grammar decoder for all nine
             digits, and the stdlib writer's texts ('.', ',' and millisecond/microsecond forms) parsed back
  fractions  digit-dependent sweep at one fixed second: ALL 1,000,000 microsecond values (text as time.isoformat() writes
             it), every nanosecond value below 100,000, every d*10^k and its neighbours, and a 1-in-997 stride over all
             10^9 nanosecond values - both directions through extended_iso against exact integer arithmetic, strides
             through long_extended_iso and the LocalDateTime / Instant ISO patterns
  datetimes  boundary dates x boundary times for LocalDateTimePattern.general_iso / extended_iso / bcl_round_trip and
             InstantPattern.general / extended_iso (must end in 'Z'; stdlib reads an aware UTC datetime)
  offsets    every whole minute in +/-18 h (plus a seconds alphabet) for OffsetPattern.general_invariant(_with_z)
             against datetime.timezone rendering/reading
  builtins   EVERY built-in pattern property of the seven pattern classes (found by introspection): ISO shape with the
             signed -YYYY / 0000 year rule, no information lost below the pattern's own capability (the finest form it
             writes for a fully detailed value), own reader and stdlib reader agree - over years {min, -43, -1, 0, 1, ...}
             x times whose minute / second are 0 and whose fraction is 1 ns, 999 ns, 1 us, 999,999 ns, 1 ms, ...
  ambient    every ISO built-in and every route to an ISO standard letter (format(v, letter), create(letter, culture),
             create_with_current_culture, with_culture, and repr / str / format(v, '') where they give an ISO letter's
             text) repeated with CultureInfo.current_culture in {fi-FI, da-DK, th-TH, ko-KR, ar-SA}: same text, and the
             ISO text still parses
  interposed a catalogue of calls that fail part-way (None, wrong type, values that stop answering after k attribute
             reads, another pattern failing, repr of an unnameable month, garbage parse, raising builder) at every
             position of a format sequence of every built-in / ISO letter: later answers unchanged
  consecutive  values with equal hash() but different value (found at run time on a lattice) formatted back to back
             through each built-in
  beyond     years <= 0 (outside the shared domain): sign and width rule '-YYYY', round trip inside the library

Direction matters: text written by the standard library (variable-length fraction, none when zero) is parsed with the
*variable* patterns (extended_iso; general_iso for whole seconds); long_extended_iso (fixed nine digits) is checked in
the format direction and on its own output only.
"""
from __future__ import annotations

import datetime as dt
import re

from pyoda_time import Instant, LocalDate, LocalTime, Offset
from pyoda_time.text import InstantPattern, LocalDatePattern, LocalDateTimePattern, LocalTimePattern, OffsetPattern

from vf.core.evidence import Acc, exc_origin, exc_site
from vf.core.par import chunks, pmap

LEVEL = "model_checking"

MAX_ORD = dt.date.max.toordinal()          # 3652059
DATE_RE = re.compile(r"^\d{4}-\d{2}-\d{2}$")
TIME_RE = re.compile(r"^(\d{2}):(\d{2}):(\d{2})(?:\.(\d{1,9}))?$")
FRACTIONS = (0, 1, 1_000, 1_000_000, 500_000_000, 123_456_789, 999_999_999)   # x every second; the dense digit sweep is part 'fractions'
UTC = dt.timezone.utc


def year_class(y):
    return "year<10" if y < 10 else "year<100" if y < 100 else "year<1000" if y < 1000 else "year>=1000"


def guard(acc, key, case, fn):
    """Run fn(); an exception from library code is a violation, returned as None."""
    try:
        return fn()
    except Exception as e:  # noqa: BLE001
        if exc_origin(e) == "harness":
            raise
        acc.violation("%s/unexpected-%s/%s" % (key, type(e).__name__, exc_site(e)), "%s: %s" % (type(e).__name__, str(e)[:200]), case)
        return None


# ---------------------------------------------------------------------------------------------------------------
# dates
# ---------------------------------------------------------------------------------------------------------------

def date_worker(rng):
    lo, hi = rng
    acc = Acc()
    pat = LocalDatePattern.iso
    fromord = dt.date.fromordinal
    for o in range(lo, hi):
        d = fromord(o)
        ref = d.isoformat()
        ld = LocalDate(d.year, d.month, d.day)
        try:
            text = pat.format(ld)
        except Exception as e:  # noqa: BLE001
            acc.lib_exception("C17/date/format", e, {"date": ref})
            continue
        if text != ref:
            bad = True
            try:
                back = dt.date.fromisoformat(text)
            except ValueError:
                back = None
            acc.violation("C17/date/format-differs-from-isoformat/" + year_class(d.year),
                          "LocalDatePattern.iso.format(%s) = %r, ISO text is %r (standard library reads it as %s)" % (ref, text, ref, back),
                          {"ordinal": o, "text": text, "expected": ref},
                          py="import datetime\nfrom pyoda_time import LocalDate\nfrom pyoda_time.text import LocalDatePattern\n\n"
                             "def test_replay():\n    d = datetime.date.fromordinal(%d)\n"
                             "    assert LocalDatePattern.iso.format(LocalDate(d.year, d.month, d.day)) == d.isoformat()\n" % o)
        else:
            bad = False
        try:
            r = pat.parse(ref)
            ok = r.success and r.value == ld and (r.value.year, r.value.month, r.value.day) == (d.year, d.month, d.day)
        except Exception as e:  # noqa: BLE001
            acc.lib_exception("C17/date/parse", e, {"text": ref})
            ok = True
        if not ok:
            acc.violation("C17/date/parse-of-isoformat/" + year_class(d.year),
                          "LocalDatePattern.iso.parse(%r) -> %s" % (ref, (r.value.year, r.value.month, r.value.day) if r.success else "failure"),
                          {"ordinal": o, "text": ref})
        if not bad:
            acc.count(nontrivial=1)
    n = hi - lo
    acc.count(states=n, transitions=2 * n, evaluations=2 * n)
    acc.outcome("date: text equals isoformat and parses back", acc.nontrivial)
    if lo == 1:
        acc.sample({"date": "0001-01-01", "text": pat.format(LocalDate(1, 1, 1))})
    return acc


# ---------------------------------------------------------------------------------------------------------------
# times
# ---------------------------------------------------------------------------------------------------------------

def decode_time(text):
    """Independent regular-grammar decoder: (h, m, s, ns, number of fraction digits) or None."""
    m = TIME_RE.match(text)
    if not m:
        return None
    frac = m.group(4) or ""
    return int(m.group(1)), int(m.group(2)), int(m.group(3)), int(frac.ljust(9, "0")) if frac else 0, len(frac)


FRACTIONS_THOROUGH = FRACTIONS + (100_000_000, 120_000_000, 999_999_000, 999, 1_001, 10, 999_999)


def time_worker(hour):
    fractions = FRACTIONS
    if isinstance(hour, tuple):
        hour, fractions = hour[0], FRACTIONS_THOROUGH
    acc = Acc()
    ext, long_, gen = LocalTimePattern.extended_iso, LocalTimePattern.long_extended_iso, LocalTimePattern.general_iso
    for minute in range(60):
        for second in range(60):
            for ns in fractions:
                acc.count(states=1)
                case = {"time": (hour, minute, second, ns)}
                lt = LocalTime.from_hour_minute_second_nanosecond(hour, minute, second, ns)
                us = ns // 1000
                std = dt.time(hour, minute, second, us)
                # --- extended_iso: variable fraction, no trailing zeros
                t = guard(acc, "C17/time/extended_iso/format", case, lambda: ext.format(lt))
                if t is not None:
                    acc.count(transitions=1, evaluations=1)
                    dec = decode_time(t)
                    if dec is None or dec[:4] != (hour, minute, second, ns) or (dec[4] and t.endswith("0")) or (ns == 0 and dec[4]):
                        acc.violation("C17/time/extended_iso/shape", "extended_iso.format(%s) = %r" % (case["time"], t), case)
                    else:
                        try:
                            if dt.time.fromisoformat(t) != std:
                                acc.violation("C17/time/extended_iso/stdlib-reads-differently",
                                              "%r read by the standard library as %s, expected %s" % (t, dt.time.fromisoformat(t), std), case)
                            else:
                                acc.count(nontrivial=1)
                        except ValueError as e:
                            acc.violation("C17/time/extended_iso/stdlib-rejects", "%r rejected by time.fromisoformat: %s" % (t, e), case)
                # --- long_extended_iso: exactly nine digits
                t = guard(acc, "C17/time/long_extended_iso/format", case, lambda: long_.format(lt))
                if t is not None:
                    acc.count(transitions=2, evaluations=2)
                    dec = decode_time(t)
                    if dec is None or dec[:4] != (hour, minute, second, ns) or dec[4] != 9:
                        acc.violation("C17/time/long_extended_iso/shape", "long_extended_iso.format(%s) = %r" % (case["time"], t), case)
                    else:
                        try:
                            if dt.time.fromisoformat(t) != std:
                                acc.violation("C17/time/long_extended_iso/stdlib-reads-differently", "%r read as %s" % (t, dt.time.fromisoformat(t)), case)
                        except ValueError as e:
                            acc.violation("C17/time/long_extended_iso/stdlib-rejects", "%r rejected: %s" % (t, e), case)
                        r = guard(acc, "C17/time/long_extended_iso/parse", case, lambda: long_.parse(t))
                        if r is not None and not (r.success and r.value == lt):
                            acc.violation("C17/time/long_extended_iso/own-output", "long_extended_iso does not parse its own %r back" % t, case)
                # --- general_iso: whole seconds
                if ns == 0 or ns == 999_999_999:
                    t = guard(acc, "C17/time/general_iso/format", case, lambda: gen.format(lt))
                    if t is not None:
                        acc.count(transitions=1, evaluations=1)
                        if t != "%02d:%02d:%02d" % (hour, minute, second) or dt.time.fromisoformat(t) != dt.time(hour, minute, second):
                            acc.violation("C17/time/general_iso/shape", "general_iso.format(%s) = %r" % (case["time"], t), case)
                # --- text written by the standard library, parsed by the variable patterns
                if ns % 1000 == 0:
                    texts = [std.isoformat()]
                    if us:
                        texts.append(std.isoformat().replace(".", ","))
                        if us % 1000 == 0:
                            texts.append(std.isoformat(timespec="milliseconds"))
                    else:
                        texts.append(std.isoformat(timespec="microseconds"))
                        texts.append(std.isoformat(timespec="milliseconds"))
                    for st in texts:
                        r = guard(acc, "C17/time/extended_iso/parse", dict(case, text=st), lambda: ext.parse(st))
                        acc.count(transitions=1, evaluations=1)
                        if r is not None and not (r.success and r.value == lt):
                            acc.violation("C17/time/extended_iso/parse-of-stdlib-text",
                                          "extended_iso.parse(%r) -> %s, expected %s" % (st, "failure" if not r.success else "another value", case["time"]),
                                          dict(case, text=st))
                    if us == 0:
                        st = std.isoformat()
                        r = guard(acc, "C17/time/general_iso/parse", dict(case, text=st), lambda: gen.parse(st))
                        acc.count(transitions=1, evaluations=1)
                        if r is not None and not (r.success and r.value == lt):
                            acc.violation("C17/time/general_iso/parse-of-stdlib-text", "general_iso.parse(%r) fails or differs" % st, dict(case, text=st))
    acc.outcome("time: shapes, stdlib reader and stdlib-written texts agree", acc.nontrivial)
    if hour == 12:
        acc.sample({"time": (12, 34, 56, 123_456_789), "extended_iso": ext.format(LocalTime.from_hour_minute_second_nanosecond(12, 34, 56, 123_456_789))})
    return acc


# ---------------------------------------------------------------------------------------------------------------
# fractions: dense, digit-dependent sweep at one fixed second (12:34:56)
# ---------------------------------------------------------------------------------------------------------------

FH, FM, FS = 12, 34, 56
FPREFIX = "12:34:56"
NS_STRIDE = 997
POW_VALUES = tuple(sorted({v for k in range(9) for d in range(1, 10) for v in (d * 10**k - 1, d * 10**k, d * 10**k + 1)
                           if 0 <= v < 10**9} | {10**9 - 1, 10**9 - 2}))


def frac_text(ns):
    """The ISO fraction text for ns nanoseconds without trailing zeros ('' for 0) - written with integer arithmetic."""
    if ns == 0:
        return ""
    return "." + ("%09d" % ns).rstrip("0")


def _fraction_case(acc, ns, idx, via_stdlib):
    """Both directions for one nanosecond-of-second value through extended_iso; strides through the other patterns."""
    ext = LocalTimePattern.extended_iso
    acc.count(states=1)
    case = {"fraction_ns": ns}
    lt = LocalTime.from_hour_minute_second_nanosecond(FH, FM, FS, ns)
    exp = FPREFIX + frac_text(ns)
    digits = len(exp) - len(FPREFIX) - 1 if ns else 0
    # format direction
    t = guard(acc, "C17/fraction/extended_iso/format", case, lambda: ext.format(lt))
    acc.count(transitions=1, evaluations=1)
    ok = True
    if t is not None and t != exp:
        ok = False
        acc.violation("C17/fraction/extended_iso/format/digits=%d" % digits, "extended_iso.format(12:34:56 + %d ns) = %r, ISO text is %r" % (ns, t, exp), case)
    # parse direction: the text an ISO writer produces (the standard library's own text for whole microseconds)
    texts = [exp]
    if via_stdlib:
        texts = [dt.time(FH, FM, FS, ns // 1000).isoformat()]      # six digits, trailing zeros kept
    for st in texts:
        r = guard(acc, "C17/fraction/extended_iso/parse", dict(case, text=st), lambda: ext.parse(st))
        acc.count(transitions=1, evaluations=1)
        if r is not None and not (r.success and r.value.nanosecond_of_second == ns and r.value == lt):
            ok = False
            got = r.value.nanosecond_of_second if r.success else "failure"
            acc.violation("C17/fraction/extended_iso/parse/digits=%d" % (len(st) - len(FPREFIX) - 1 if "." in st else 0),
                          "extended_iso.parse(%r) -> %s ns, the text says %d ns" % (st, got, ns), dict(case, text=st),
                          py="from pyoda_time.text import LocalTimePattern\n\ndef test_replay():\n"
                             "    assert LocalTimePattern.extended_iso.parse(%r).value.nanosecond_of_second == %d\n" % (st, ns))
    if idx % 8 == 0:
        long_ = LocalTimePattern.long_extended_iso
        exp9 = FPREFIX + ".%09d" % ns
        t9 = guard(acc, "C17/fraction/long_extended_iso/format", case, lambda: long_.format(lt))
        r9 = guard(acc, "C17/fraction/long_extended_iso/parse", dict(case, text=exp9), lambda: long_.parse(exp9))
        acc.count(transitions=2, evaluations=2)
        if t9 is not None and t9 != exp9:
            ok = False
            acc.violation("C17/fraction/long_extended_iso/format", "long_extended_iso.format(%d ns) = %r, expected %r" % (ns, t9, exp9), case)
        if r9 is not None and not (r9.success and r9.value.nanosecond_of_second == ns):
            ok = False
            acc.violation("C17/fraction/long_extended_iso/parse", "long_extended_iso.parse(%r) -> %s ns" % (exp9, r9.value.nanosecond_of_second if r9.success else "failure"),
                          dict(case, text=exp9))
    if idx % 64 == 0:
        dtext = "2024-02-29T" + exp
        ldt = LocalDate(2024, 2, 29) + lt
        ins = Instant.from_utc(2024, 2, 29, FH, FM, FS).plus_nanoseconds(ns)
        for name, pat, text, val in (("datetime/extended_iso", LocalDateTimePattern.extended_iso, dtext, ldt),
                                     ("instant/extended_iso", InstantPattern.extended_iso, dtext + "Z", ins)):
            tt = guard(acc, "C17/fraction/%s/format" % name, case, lambda: pat.format(val))
            rr = guard(acc, "C17/fraction/%s/parse" % name, dict(case, text=text), lambda: pat.parse(text))
            acc.count(transitions=2, evaluations=2)
            if tt is not None and tt != text:
                ok = False
                acc.violation("C17/fraction/%s/format" % name, "%s.format = %r, expected %r" % (name, tt, text), case)
            if rr is not None and not (rr.success and rr.value == val):
                ok = False
                acc.violation("C17/fraction/%s/parse" % name, "%s.parse(%r) fails or differs by the fraction" % (name, text), dict(case, text=text))
        if ns % 100 == 0:
            btext = "2024-02-29T%s.%07d" % (FPREFIX, ns // 100)
            rb = guard(acc, "C17/fraction/datetime/bcl_round_trip/parse", dict(case, text=btext), lambda: LocalDateTimePattern.bcl_round_trip.parse(btext))
            tb = guard(acc, "C17/fraction/datetime/bcl_round_trip/format", case, lambda: LocalDateTimePattern.bcl_round_trip.format(ldt))
            acc.count(transitions=2, evaluations=2)
            if tb is not None and tb != btext or rb is not None and not (rb.success and rb.value == ldt):
                ok = False
                acc.violation("C17/fraction/datetime/bcl_round_trip", "bcl_round_trip: %r / %r for %d ns" % (tb, btext, ns), dict(case, text=btext))
    if ok:
        acc.count(nontrivial=1)


def fraction_worker(task):
    mode, lo, hi = task[:3]
    stride = task[3] if len(task) > 3 else NS_STRIDE
    acc = Acc()
    if mode == "us":                       # every microsecond value, text as written by time.isoformat()
        for us in range(lo, hi):
            _fraction_case(acc, us * 1000, us, True)
    elif mode == "ns-low":                 # every nanosecond value below 100,000
        for ns in range(lo, hi):
            _fraction_case(acc, ns, ns, False)
    elif mode == "ns-stride":              # 1-in-997 stride over all 10^9
        for i in range(lo, hi):
            _fraction_case(acc, i * stride, i, False)
    else:                                  # d*10^k and neighbours
        for i, ns in enumerate(POW_VALUES):
            _fraction_case(acc, ns, i * 8, False)
    acc.outcome("fraction: exact in both directions", acc.nontrivial)
    if mode == "us" and lo == 0:
        acc.sample({"fraction": "12:34:56.000065", "parsed_ns": LocalTimePattern.extended_iso.parse("12:34:56.000065").value.nanosecond_of_second})
    return acc


# ---------------------------------------------------------------------------------------------------------------
# date-times and instants
# ---------------------------------------------------------------------------------------------------------------

BOUNDARY_ORDINALS = (1, 2, 31, 32, 59, 60, 365, 366, 1461, 36524, 36525, 146097, 146098, 577736, 693596, 693961, 719163, 719162,
                     730120, 730179, 730180, 730485, 738945, 738946, MAX_ORD - 365, MAX_ORD - 1, MAX_ORD, 3287, 32872, 328718)
BOUNDARY_TIMES = ((0, 0, 0, 0), (23, 59, 59, 999_999_999), (12, 0, 0, 0), (0, 0, 0, 1), (1, 2, 3, 4_000), (12, 34, 56, 789_000_000),
                  (23, 59, 59, 0), (0, 0, 1, 100_000_000), (9, 9, 9, 999_999_900), (10, 20, 30, 123_456_700), (5, 6, 7, 500_000_000))
DT_RE = re.compile(r"^(\d{4})-(\d{2})-(\d{2})T(\d{2}):(\d{2}):(\d{2})(?:\.(\d{1,9}))?(Z?)$")


def decode_dt(text):
    m = DT_RE.match(text)
    if not m:
        return None
    frac = m.group(7) or ""
    return tuple(int(m.group(i)) for i in range(1, 7)) + (int(frac.ljust(9, "0")) if frac else 0, len(frac), m.group(8))


def datetime_worker(part):
    acc = Acc()
    ords = BOUNDARY_ORDINALS[part::4]
    L = LocalDateTimePattern
    for o in ords:
        d = dt.date.fromordinal(o)
        for (h, mi, s, ns) in BOUNDARY_TIMES:
            acc.count(states=1)
            case = {"datetime": (d.year, d.month, d.day, h, mi, s, ns)}
            ldt = LocalDate(d.year, d.month, d.day) + LocalTime.from_hour_minute_second_nanosecond(h, mi, s, ns)
            std = dt.datetime(d.year, d.month, d.day, h, mi, s, ns // 1000)
            full = (d.year, d.month, d.day, h, mi, s)
            for name, digits, trunc_unit in (("general_iso", 0, 10**9), ("extended_iso", None, 1), ("bcl_round_trip", 7, 100)):
                pat = getattr(L, name)
                t = guard(acc, "C17/datetime/%s/format" % name, case, lambda: pat.format(ldt))
                if t is None:
                    continue
                acc.count(transitions=1, evaluations=1)
                dec = decode_dt(t)
                exp_ns = ns - ns % trunc_unit
                ok = dec is not None and dec[:6] == full and dec[6] == exp_ns and dec[8] == ""
                if ok and digits is not None and dec[7] != digits:
                    ok = False
                if ok and digits is None and (dec[7] and t.endswith("0") or (ns == 0 and dec[7])):
                    ok = False
                if not ok:
                    acc.violation("C17/datetime/%s/shape" % name, "%s.format(%s) = %r" % (name, case["datetime"], t), case)
                    continue
                try:
                    back = dt.datetime.fromisoformat(t)
                except ValueError as e:
                    acc.violation("C17/datetime/%s/stdlib-rejects" % name, "%r rejected by datetime.fromisoformat: %s" % (t, e), case)
                    continue
                if back != std.replace(microsecond=exp_ns // 1000):
                    acc.violation("C17/datetime/%s/stdlib-reads-differently" % name, "%r read as %s" % (t, back), case)
                    continue
                acc.count(nontrivial=1)
            # stdlib-written text -> library
            if ns % 1000 == 0:
                st = std.isoformat()
                r = guard(acc, "C17/datetime/extended_iso/parse", dict(case, text=st), lambda: L.extended_iso.parse(st))
                acc.count(transitions=1, evaluations=1)
                if r is not None and not (r.success and r.value == ldt):
                    acc.violation("C17/datetime/extended_iso/parse-of-stdlib-text", "extended_iso.parse(%r) fails or differs" % st, dict(case, text=st))
                if ns == 0:
                    r = guard(acc, "C17/datetime/general_iso/parse", dict(case, text=st), lambda: L.general_iso.parse(st))
                    acc.count(transitions=1, evaluations=1)
                    if r is not None and not (r.success and r.value == ldt):
                        acc.violation("C17/datetime/general_iso/parse-of-stdlib-text", "general_iso.parse(%r) fails or differs" % st, dict(case, text=st))
            # instants
            ins = guard(acc, "C17/instant/construct", case, lambda: Instant.from_utc(d.year, d.month, d.day, h, mi, s).plus_nanoseconds(ns))
            if ins is None:
                continue
            aware = std.replace(tzinfo=UTC)
            for name, whole in (("general", True), ("extended_iso", False)):
                pat = getattr(InstantPattern, name)
                t = guard(acc, "C17/instant/%s/format" % name, case, lambda: pat.format(ins))
                if t is None:
                    continue
                acc.count(transitions=1, evaluations=1)
                dec = decode_dt(t)
                exp_ns = 0 if whole else ns
                ok = dec is not None and dec[:6] == full and dec[6] == exp_ns and dec[8] == "Z"
                if ok and whole and dec[7] != 0:
                    ok = False
                if ok and not whole and (dec[7] and t[:-1].endswith("0") or (ns == 0 and dec[7])):
                    ok = False
                if not ok:
                    acc.violation("C17/instant/%s/shape" % name, "InstantPattern.%s.format(%s) = %r (must be ISO date-time ending in Z)" % (name, case["datetime"], t), case)
                    continue
                try:
                    back = dt.datetime.fromisoformat(t)
                except ValueError as e:
                    acc.violation("C17/instant/%s/stdlib-rejects" % name, "%r rejected by datetime.fromisoformat: %s" % (t, e), case)
                    continue
                if back.tzinfo is None or back.utcoffset() != dt.timedelta(0) or back != aware.replace(microsecond=exp_ns // 1000):
                    acc.violation("C17/instant/%s/stdlib-reads-differently" % name, "%r read as %r" % (t, back), case)
                    continue
                acc.count(nontrivial=1)
            if ns % 1000 == 0:
                st = std.isoformat() + "Z"      # the standard library's own UTC rendering is '+00:00'; 'Z' is the ISO designator
                r = guard(acc, "C17/instant/extended_iso/parse", dict(case, text=st), lambda: InstantPattern.extended_iso.parse(st))
                acc.count(transitions=1, evaluations=1)
                if r is not None and not (r.success and r.value == ins):
                    acc.violation("C17/instant/extended_iso/parse-of-stdlib-text", "InstantPattern.extended_iso.parse(%r) fails or differs" % st, dict(case, text=st))
                if ns == 0:
                    r = guard(acc, "C17/instant/general/parse", dict(case, text=st), lambda: InstantPattern.general.parse(st))
                    acc.count(transitions=1, evaluations=1)
                    if r is not None and not (r.success and r.value == ins):
                        acc.violation("C17/instant/general/parse-of-stdlib-text", "InstantPattern.general.parse(%r) fails or differs" % st, dict(case, text=st))
    acc.outcome("datetime/instant: shapes, stdlib reader and stdlib-written texts agree", acc.nontrivial)
    if part == 0:
        acc.sample({"instant": "9999-12-31T23:59:59.999999999Z", "general": InstantPattern.general.format(Instant.max_value)})
    return acc


def every_date_time_worker(rng):
    """Thorough tier: every date of years 1..9999 combined with one boundary time (rotating), through the
    LocalDateTime and Instant ISO patterns, both directions, against the standard library's writer / reader."""
    lo, hi = rng
    acc = Acc()
    L, I = LocalDateTimePattern, InstantPattern
    for o in range(lo, hi):
        d = dt.date.fromordinal(o)
        h, mi, sec, ns = BOUNDARY_TIMES[o % len(BOUNDARY_TIMES)]
        ns -= ns % 1000
        acc.count(states=1, transitions=6, evaluations=6)
        std = dt.datetime(d.year, d.month, d.day, h, mi, sec, ns // 1000)
        ldt = LocalDate(d.year, d.month, d.day) + LocalTime.from_hour_minute_second_nanosecond(h, mi, sec, ns)
        ins = Instant.from_utc(d.year, d.month, d.day, h, mi, sec).plus_nanoseconds(ns)
        exp = "%s%s" % (std.replace(microsecond=0).isoformat(), frac_text(ns))
        case = {"ordinal": o, "every_date_time": (h, mi, sec, ns)}
        ok = True
        for name, pat, val, want in (("datetime/extended_iso", L.extended_iso, ldt, exp), ("instant/extended_iso", I.extended_iso, ins, exp + "Z"),
                                     ("datetime/general_iso", L.general_iso, ldt, exp[:19]), ("instant/general", I.general, ins, exp[:19] + "Z")):
            t = guard(acc, "C17/every-date/%s/format" % name, case, lambda: pat.format(val))
            if t is not None and t != want:
                ok = False
                acc.violation("C17/every-date/%s/format/%s" % (name, year_class(d.year)), "%s.format = %r, ISO text is %r" % (name, t, want), case)
        st = std.isoformat()
        for name, pat, val, text in (("datetime/extended_iso", L.extended_iso, ldt, st), ("instant/extended_iso", I.extended_iso, ins, st + "Z")):
            r = guard(acc, "C17/every-date/%s/parse" % name, dict(case, text=text), lambda: pat.parse(text))
            if r is not None and not (r.success and r.value == val):
                ok = False
                acc.violation("C17/every-date/%s/parse/%s" % (name, year_class(d.year)), "%s.parse(%r) fails or differs" % (name, text), dict(case, text=text))
        if ok:
            acc.count(nontrivial=1)
    acc.outcome("every date x one time: ISO texts agree in both directions", acc.nontrivial)
    return acc


# ---------------------------------------------------------------------------------------------------------------
# offsets
# ---------------------------------------------------------------------------------------------------------------

OFF_RE = re.compile(r"^([+-])(\d{2})(?::(\d{2})(?::(\d{2}))?)?$")
EXTRA_OFFSET_SECONDS = (1, -1, 59, -59, 61, 3599, -3601, 19815, -45296, 64799, -64799)


def offset_worker(part):
    acc = Acc()
    g, gz = OffsetPattern.general_invariant, OffsetPattern.general_invariant_with_z
    if isinstance(part, tuple):                 # thorough tier: every second of [lo, hi)
        secs = list(range(part[1], part[2]))
        part = -1
    else:
        minutes = range(-1080 + part, 1081, 4)
        secs = [m * 60 for m in minutes] + (list(EXTRA_OFFSET_SECONDS) if part == 0 else [])
    for sec in secs:
        acc.count(states=1)
        case = {"offset_seconds": sec}
        o = Offset.from_seconds(sec)
        td = dt.timedelta(seconds=sec)
        for name, pat in (("general_invariant", g), ("general_invariant_with_z", gz)):
            t = guard(acc, "C17/offset/%s/format" % name, case, lambda: pat.format(o))
            if t is None:
                continue
            acc.count(transitions=1, evaluations=1)
            if name.endswith("with_z") and sec == 0:
                if t != "Z":
                    acc.violation("C17/offset/%s/shape" % name, "zero offset rendered %r, expected 'Z'" % t, case)
                    continue
            else:
                m = OFF_RE.match(t)
                a = abs(sec)
                exp = ("+" if sec >= 0 else "-", a // 3600, a // 60 % 60, a % 60)
                got = None if not m else (m.group(1), int(m.group(2)), int(m.group(3) or 0), int(m.group(4) or 0))
                minimal = m is not None and ((m.group(4) is None) == (a % 60 == 0)) and ((m.group(3) is None) == (a % 3600 == 0))
                if got != exp or not minimal:
                    acc.violation("C17/offset/%s/shape" % name, "%s.format(%d s) = %r" % (name, sec, t), case)
                    continue
            try:
                back = dt.datetime.fromisoformat("2000-01-01T00:00:00" + t)
            except ValueError as e:
                acc.violation("C17/offset/%s/stdlib-rejects" % name, "offset text %r rejected by datetime.fromisoformat: %s" % (t, e), case)
                continue
            if back.utcoffset() != td:
                acc.violation("C17/offset/%s/stdlib-reads-differently" % name, "%r read as %s" % (t, back.utcoffset()), case)
                continue
            acc.count(nontrivial=1)
        # standard library rendering of the same offset, parsed by both patterns
        st = dt.datetime(2000, 1, 1, tzinfo=dt.timezone(td)).isoformat()[19:]
        for name, pat in (("general_invariant", g), ("general_invariant_with_z", gz)):
            r = guard(acc, "C17/offset/%s/parse" % name, dict(case, text=st), lambda: pat.parse(st))
            acc.count(transitions=1, evaluations=1)
            if r is not None and not (r.success and r.value == o and r.value.seconds == sec):
                acc.violation("C17/offset/%s/parse-of-stdlib-text" % name, "%s.parse(%r) fails or differs (expected %d s)" % (name, st, sec), dict(case, text=st))
        if sec == 0:
            r = guard(acc, "C17/offset/general_invariant_with_z/parse", dict(case, text="Z"), lambda: gz.parse("Z"))
            if r is not None and not (r.success and r.value.seconds == 0):
                acc.violation("C17/offset/general_invariant_with_z/parse-of-Z", "parse('Z') fails or differs", case)
    acc.outcome("offset: shapes, stdlib reader and stdlib-written texts agree", acc.nontrivial)
    if part == 0:
        acc.sample({"offset_seconds": 19800, "general_invariant": g.format(Offset.from_seconds(19800))})
    return acc


# ---------------------------------------------------------------------------------------------------------------
# builtins: every ISO built-in property of the seven pattern classes, found by introspection
# ---------------------------------------------------------------------------------------------------------------

import pyoda_time.text as _tx  # noqa: E402

PATTERN_CLASSES = {"date": "LocalDatePattern", "time": "LocalTimePattern", "datetime": "LocalDateTimePattern", "instant": "InstantPattern",
                   "offset": "OffsetPattern", "duration": "DurationPattern", "annual": "AnnualDatePattern"}
B_TIME_RE = r"(\d\d)(?::(\d\d)(?::(\d\d)(?:\.(\d{1,9}))?)?)?"
B_DATE_RE = r"(-?\d{4})-(\d\d)-(\d\d)"
B_RE = {"time": re.compile("^" + B_TIME_RE + "$"), "date": re.compile("^" + B_DATE_RE + r"( \([^)]+\))?$"),
        "datetime": re.compile("^" + B_DATE_RE + "T" + B_TIME_RE + r"( \([^)]+\))?$"),
        "instant": re.compile("^" + B_DATE_RE + "T" + B_TIME_RE + "Z$")}
B_NS = (0, 1, 999, 1_000, 999_999, 1_000_000, 1_000_001, 500_000_000, 123_456_789, 999_999_999)
B_TIMES = tuple((h, m, sec, ns) for h in (0, 12, 23) for m in (0, 34, 59) for sec in (0, 56, 59) for ns in B_NS)
B_YEARS = (-9998, -43, -1, 0, 1, 4, 999, 2021, 9999)
B_DATES = tuple((y, m, d) for y in B_YEARS for (m, d) in ((1, 1), (3, 4), (12, 31), (2, 28)))


def builtin_patterns():
    """[(kind, property name, pattern)] for every public property of the pattern classes' metaclasses that yields an
    object with format and parse."""
    out = []
    for kind, cname in PATTERN_CLASSES.items():
        cls = getattr(_tx, cname, None)
        if cls is None:
            continue
        names = set()
        for k in type(cls).__mro__:
            for a, v in vars(k).items():
                if isinstance(v, property) and not a.startswith("_"):
                    names.add(a)
        for a in sorted(names):
            try:
                p = getattr(cls, a)
            except Exception:  # noqa: BLE001
                continue
            if callable(getattr(p, "format", None)) and callable(getattr(p, "parse", None)):
                out.append((kind, a, p))
    return out


def b_decode(kind, text):
    """Own decoder of the ISO shapes: ((y, mo, d) | None, (h, mi, s, ns) | None, granularity) or None.
    granularity: 'h', 'm', 's' or the number of fraction digits; the year must be written as -?YYYY."""
    m = B_RE[kind].match(text)
    if not m:
        return None
    g = m.groups()
    date = tm = None
    gran = None
    i = 0
    if kind != "time":
        date = (int(g[0]), int(g[1]), int(g[2]))
        i = 3
    if kind != "date":
        h, mi, sec, fr = g[i:i + 4]
        tm = (int(h), int(mi or 0), int(sec or 0), int(fr.ljust(9, "0")) if fr else 0)
        gran = len(fr) if fr else ("s" if sec is not None else "m" if mi is not None else "h")
    return date, tm, gran


def b_trunc(tm, gran):
    h, mi, sec, ns = tm
    if gran == "h":
        return (h, 0, 0, 0)
    if gran == "m":
        return (h, mi, 0, 0)
    if gran == "s":
        return (h, mi, sec, 0)
    unit = 10 ** (9 - gran)
    return (h, mi, sec, ns - ns % unit)


def b_date_text(y, mo, d):
    return ("-" if y < 0 else "") + "%04d-%02d-%02d" % (abs(y), mo, d)


def builtins_worker(idx):
    acc = Acc()
    pats = builtin_patterns()
    kind, name, pat = pats[idx]
    label = "%s.%s" % (PATTERN_CLASSES[kind], name)
    acc.note("builtins_found", ["%s.%s" % (PATTERN_CLASSES[k], n) for k, n, _ in pats])
    if kind in ("offset", "duration", "annual"):
        from pyoda_time import AnnualDate, Duration
        vals = ([Offset.from_seconds(x) for x in (0, 1, -1, 3600, -3600, 19800, 64800, -64800, 45296)] if kind == "offset" else
                [Duration.from_nanoseconds(x) for x in (0, 1, -1, 10**9, -10**9, 86400 * 10**9, -86400 * 10**9 - 1, 90061 * 10**9 + 1_000, 123_456_789)] if kind == "duration" else
                [AnnualDate(m, d) for m in range(1, 13) for d in (1, 28)] + [AnnualDate(2, 29), AnnualDate(12, 31)])
        for v in vals:
            acc.count(states=1, transitions=2, evaluations=1)
            case = {"builtin": label}
            t = guard(acc, "C17/builtins/%s/format" % label, case, lambda: pat.format(v))
            if t is None:
                continue
            r = guard(acc, "C17/builtins/%s/parse" % label, dict(case, text=t), lambda: pat.parse(t))
            if r is not None and not (r.success and r.value == v):
                acc.violation("C17/builtins/%s/own-text" % label, "%s does not read its own text %r back to the same value" % (label, t), dict(case, text=t))
            elif kind == "annual" and not re.match(r"^\d\d-\d\d$", t):
                acc.violation("C17/builtins/%s/shape" % label, "%s text %r is not MM-DD" % (label, t), dict(case, text=t))
            else:
                acc.count(nontrivial=1)
        return acc
    # --- capability of the pattern: the finest granularity it writes for a fully detailed value
    probe_t = LocalTime.from_hour_minute_second_nanosecond(23, 59, 59, 123_456_789)
    probe = {"time": probe_t, "date": LocalDate(2021, 3, 4), "datetime": LocalDate(2021, 3, 4) + probe_t,
             "instant": Instant.from_utc(2021, 3, 4, 23, 59, 59).plus_nanoseconds(123_456_789)}[kind]
    ptext = guard(acc, "C17/builtins/%s/format" % label, {"builtin": label}, lambda: pat.format(probe))
    dec = b_decode(kind, ptext) if ptext is not None else None
    if dec is None:
        acc.violation("C17/builtins/%s/shape" % label, "%s writes %r for 2021-03-04T23:59:59.123456789: not an ISO-8601 extended text" % (label, ptext), {"builtin": label})
        return acc
    cap = dec[2]
    acc.note("capability " + label, cap)
    dates = B_DATES if kind != "time" else ((None, None, None),)
    times = B_TIMES if kind != "date" else ((None, None, None, None),)
    for (y, mo, d) in dates:
        for tm in times:
            acc.count(states=1)
            case = {"builtin": label, "value": (y, mo, d) + tuple(tm)}
            if kind == "time":
                v = LocalTime.from_hour_minute_second_nanosecond(*tm)
            elif kind == "date":
                v = LocalDate(y, mo, d)
            elif kind == "datetime":
                v = LocalDate(y, mo, d) + LocalTime.from_hour_minute_second_nanosecond(*tm)
            else:
                v = Instant.from_utc(y, mo, d, tm[0], tm[1], tm[2]).plus_nanoseconds(tm[3])
            t = guard(acc, "C17/builtins/%s/format" % label, case, lambda: pat.format(v))
            if t is None:
                continue
            acc.count(transitions=2, evaluations=2)
            dec = b_decode(kind, t)
            exp_t = b_trunc(tm, cap) if kind != "date" else None
            exp_d = (y, mo, d) if kind != "time" else None
            yclass = "" if kind == "time" else ("/year<=0" if y <= 0 else "/year>0")
            if dec is None or (kind != "time" and not t.startswith(b_date_text(y, mo, d))):
                acc.violation("C17/builtins/%s/shape%s" % (label, yclass),
                              "%s.format(%s) = %r: not the ISO shape%s" % (label, case["value"], t, "" if kind == "time" else " (date must read %s)" % b_date_text(y, mo, d)), case)
                continue
            if dec[0] != exp_d or dec[1] != exp_t:
                acc.violation("C17/builtins/%s/text-loses-information%s" % (label, yclass),
                              "%s.format(%s) = %r denotes %s %s, but the pattern can express %s" % (label, case["value"], t, dec[0], dec[1], exp_t), case)
                continue
            # the library reads its own text back to that value
            r = guard(acc, "C17/builtins/%s/parse" % label, dict(case, text=t), lambda: pat.parse(t))
            if r is not None:
                ok = r.success
                if ok:
                    rv = r.value
                    if kind == "instant":
                        rv = rv.in_utc().local_date_time
                    got_d = (rv.year, rv.month, rv.day) if kind != "time" else None
                    got_t = (rv.hour, rv.minute, rv.second, rv.nanosecond_of_second) if kind != "date" else None
                    ok = got_d == exp_d and got_t == exp_t
                if not ok:
                    acc.violation("C17/builtins/%s/own-text%s" % (label, yclass), "%s.parse(%r) %s, the text says %s %s" % (
                        label, t, "fails" if not r.success else "gives another value", exp_d, exp_t), dict(case, text=t))
                    continue
            # the standard library reads it (shared domain only)
            if kind == "time" or 1 <= y <= 9999:
                iso = t.split(" (")[0]
                try:
                    if kind == "time":
                        back = dt.time.fromisoformat(iso)
                        want = dt.time(exp_t[0], exp_t[1], exp_t[2], exp_t[3] // 1000)
                    elif kind == "date":
                        back = dt.date.fromisoformat(iso)
                        want = dt.date(y, mo, d)
                    else:
                        back = dt.datetime.fromisoformat(iso)
                        want = dt.datetime(y, mo, d, exp_t[0], exp_t[1], exp_t[2], exp_t[3] // 1000, tzinfo=UTC if kind == "instant" else None)
                    if back != want:
                        acc.violation("C17/builtins/%s/stdlib-reads-differently" % label, "%r read by the standard library as %s, expected %s" % (t, back, want), case)
                        continue
                except ValueError as e:
                    acc.violation("C17/builtins/%s/stdlib-rejects" % label, "%r rejected by the standard library: %s" % (t, e), case)
                    continue
            acc.count(nontrivial=1)
    acc.outcome("builtin %s: ISO shape, no information lost below its capability, own and stdlib readers agree" % label, acc.nontrivial)
    return acc


# ---------------------------------------------------------------------------------------------------------------
# ambient culture x all routes: ISO text must not depend on CultureInfo.current_culture or on the route taken
# ---------------------------------------------------------------------------------------------------------------

AMBIENT_CULTURES = ("fi-FI", "da-DK", "th-TH", "ko-KR", "ar-SA")
# standard letters documented as culture-invariant ISO / round-trip patterns (the parsers return the invariant
# built-in implementations for them)
ISO_LETTERS = {"date": "Rr", "time": "oO", "datetime": "oOrRsS", "instant": "g", "annual": "G"}


def ambient_values(kind):
    from pyoda_time import AnnualDate, Duration
    t1, t2 = LocalTime.from_hour_minute_second_nanosecond(23, 59, 58, 0), LocalTime.from_hour_minute_second_nanosecond(1, 2, 3, 120_000_000)
    if kind == "date":
        return [LocalDate(2024, 2, 29), LocalDate(1, 1, 1), LocalDate(-43, 3, 15), LocalDate(9999, 12, 31)]
    if kind == "time":
        return [t1, t2, LocalTime(0, 0, 0), LocalTime(12, 30, 0)]
    if kind == "datetime":
        return [LocalDate(2024, 2, 29) + t1, LocalDate(-43, 3, 15) + t2, LocalDate(9999, 12, 31) + LocalTime(12, 0, 0)]
    if kind == "instant":
        return [Instant.from_utc(2024, 2, 29, 23, 59, 58), Instant.from_utc(-43, 3, 15, 1, 2, 3).plus_nanoseconds(120_000_000), Instant.from_utc(1970, 1, 1, 12, 30, 0)]
    if kind == "offset":
        return [Offset.from_seconds(x) for x in (0, 19800, -3600, 45296, -64800)]
    if kind == "duration":
        return [Duration.from_nanoseconds(x) for x in (0, 90061 * 10**9 + 500_000_000, -1, 86400 * 10**9)]
    return [AnnualDate(2, 29), AnnualDate(12, 31)]


def _routes(kind, cul):
    """[(route label, callable value -> text, pattern or None)] that are documented / measured to be ISO-invariant."""
    cls = getattr(_tx, PATTERN_CLASSES[kind])
    routes = []
    for k, name, pat in builtin_patterns():
        if k == kind:
            routes.append(("%s.%s" % (PATTERN_CLASSES[kind], name), pat.format, pat, None))
    for L in ISO_LETTERS.get(kind, ""):
        routes.append(("format(value, %r)" % L, (lambda v, L=L: format(v, L)), None, L))
        routes.append(("create(%r, culture)" % L, None, (lambda L=L: cls.create(L, cul)), L))
        routes.append(("create_with_current_culture(%r)" % L, None, (lambda L=L: cls.create_with_current_culture(L)), L))
        routes.append(("create_with_invariant_culture(%r).with_culture" % L, None, (lambda L=L: cls.create_with_invariant_culture(L).with_culture(cul)), L))
    return routes


def ambient_worker(cname):
    from pyoda_time._compatibility._culture_info import CultureInfo
    acc = Acc()
    cul = CultureInfo.get_culture_info(cname)
    for kind in PATTERN_CLASSES:
        cls = getattr(_tx, PATTERN_CLASSES[kind])
        values = ambient_values(kind)
        # references, under the process's default culture
        ref = {}
        for k, name, pat in builtin_patterns():
            if k == kind:
                ref["%s.%s" % (PATTERN_CLASSES[kind], name)] = [pat.format(v) for v in values]
        for L in ISO_LETTERS.get(kind, ""):
            ref[L] = [cls.create_with_invariant_culture(L).format(v) for v in values]
        # which default to-string routes claim an ISO letter's text
        defaults = []
        for rname, fn in (("repr(value)", repr), ("str(value)", str), ("format(value, '')", lambda v: format(v, ""))):
            for L in ISO_LETTERS.get(kind, ""):
                try:
                    if [fn(v) for v in values] == ref[L]:
                        defaults.append((rname, fn, L))
                        break
                except Exception:  # noqa: BLE001
                    break
        old = CultureInfo.current_culture
        try:
            CultureInfo.current_culture = cul
            for label, fn, patf, L in _routes(kind, cul):
                want = ref[L] if L is not None else ref[label]
                case = {"route": label, "current_culture": cname, "kind": kind}
                pat = None
                if fn is None:
                    pat = guard(acc, "C17/ambient/%s/create" % kind, case, patf)
                    if pat is None:
                        continue
                    fn = pat.format
                elif patf is not None:
                    pat = patf
                for v, w in zip(values, want):
                    acc.count(states=1, transitions=1, evaluations=1)
                    t = guard(acc, "C17/ambient/%s/format" % kind, case, lambda: fn(v))
                    if t is None:
                        continue
                    if t != w:
                        acc.violation("C17/ambient/%s/text-depends-on-culture/%s" % (kind, label),
                                      "%s under culture %s writes %r; the invariant ISO text is %r" % (label, cname, t, w), dict(case, text=t, expected=w))
                        break
                    if pat is not None:
                        r = guard(acc, "C17/ambient/%s/parse" % kind, dict(case, text=w), lambda: pat.parse(w))
                        acc.count(transitions=1, evaluations=1)
                        if r is not None and not r.success:
                            acc.violation("C17/ambient/%s/iso-text-rejected/%s" % (kind, label),
                                          "%s under culture %s does not parse the ISO text %r" % (label, cname, w), dict(case, text=w))
                            break
                    acc.count(nontrivial=1)
            for rname, fn, L in defaults:
                case = {"route": rname, "current_culture": cname, "kind": kind}
                for v, w in zip(values, ref[L]):
                    acc.count(states=1, transitions=1, evaluations=1)
                    t = guard(acc, "C17/ambient/%s/format" % kind, case, lambda: fn(v))
                    if t is not None and t != w:
                        acc.violation("C17/ambient/%s/text-depends-on-culture/%s" % (kind, rname),
                                      "%s under current culture %s gives %r; under the default culture it is the ISO text %r" % (rname, cname, t, w), dict(case, text=t, expected=w))
                        break
                    acc.count(nontrivial=1)
                acc.outcome("default route claiming ISO text: %s of %s" % (rname, kind))
        finally:
            CultureInfo.current_culture = old
    acc.outcome("ambient culture %s: ISO routes invariant" % cname, acc.nontrivial)
    return acc


def interposed_worker(idx):
    """A failing call (c07.failing_calls catalogue) placed at every position of a format sequence of a built-in."""
    from vf.checks import c07
    acc = Acc()
    pats = builtin_patterns()
    kind, name, pat = pats[idx]
    label = "%s.%s" % (PATTERN_CLASSES[kind], name)
    c07.interposed_check(acc, "C17", kind, label, pat, ambient_values(kind))
    cls = getattr(_tx, PATTERN_CLASSES[kind])
    if idx == next(i for i, p in enumerate(pats) if p[0] == kind):
        for L in ISO_LETTERS.get(kind, ""):
            p2 = guard(acc, "C17/interposed/create", {"letter": L}, lambda: cls.create_with_invariant_culture(L))
            if p2 is not None:
                c07.interposed_check(acc, "C17", kind, "%s %r" % (PATTERN_CLASSES[kind], L), p2, ambient_values(kind))
    acc.outcome("interposed failing calls leave later answers unchanged", acc.nontrivial)
    return acc


def consecutive_worker(idx):
    """Hash-colliding values (found at run time, see c07.collision_groups) formatted back to back through a built-in."""
    from vf.checks import c07
    acc = Acc()
    kind, name, pat = builtin_patterns()[idx]
    groups = c07.collision_groups(kind)
    acc.note("hash collision groups " + kind, len(groups))
    c07.collision_check(acc, "C17/consecutive", kind, "%s.%s" % (PATTERN_CLASSES[kind], name), pat, pat, groups, 600)
    acc.outcome("consecutive formatting of hash-colliding values agrees (%s: %d groups)" % (kind, len(groups)))
    return acc


# ---------------------------------------------------------------------------------------------------------------
# beyond the shared domain: years <= 0
# ---------------------------------------------------------------------------------------------------------------

def beyond_worker(_):
    acc = Acc()
    pat = LocalDatePattern.iso
    for y in (0, -1, -9, -10, -99, -100, -999, -1000, -9998):
        for (m, d) in ((1, 1), (12, 31), (2, 28)):
            acc.count(states=1, transitions=2, evaluations=2)
            case = {"date": (y, m, d)}
            ld = LocalDate(y, m, d)
            t = guard(acc, "C17/beyond/format", case, lambda: pat.format(ld))
            if t is None:
                continue
            exp = "-%04d-%02d-%02d" % (-y, m, d) if y < 0 else "%04d-%02d-%02d" % (y, m, d)
            if t != exp:
                acc.violation("C17/beyond/date-shape", "LocalDatePattern.iso.format(%s) = %r, documented shape %r" % (case["date"], t, exp), case)
                continue
            r = guard(acc, "C17/beyond/parse", case, lambda: pat.parse(t))
            if r is not None and not (r.success and r.value == ld):
                acc.violation("C17/beyond/date-roundtrip", "LocalDatePattern.iso does not parse %r back" % t, case)
                continue
            ldt = ld + LocalTime(1, 2, 3)
            t2 = guard(acc, "C17/beyond/format-datetime", case, lambda: LocalDateTimePattern.general_iso.format(ldt))
            if t2 is not None and t2 != exp + "T01:02:03":
                acc.violation("C17/beyond/datetime-shape", "general_iso.format = %r" % t2, case)
                continue
            acc.count(nontrivial=1)
    acc.outcome("beyond: sign/width rule for years <= 0", acc.nontrivial)
    return acc


# ---------------------------------------------------------------------------------------------------------------

def rotate(lst, k):
    lst = list(lst)
    k %= max(1, len(lst))
    return lst[k:] + lst[:k]


def run(ctx):
    only = getattr(ctx, "only", None)
    ctx.rule = ("[quick: all dates, all seconds x 7 fractions, 10^6 microsecond values + 10^5 low ns + 1-in-997 ns stride, whole-minute "
                "offsets; thorough adds: all seconds x 14 fractions, 10^6 low ns + 1-in-97 ns stride (10.3 M), every offset second, "
                "every date x one time through the date-time / instant patterns] nontrivial = (value, pattern) pairs whose library text passed the shape rule AND was read back to the same value "
                "by the standard library (dates: text equals date.isoformat() and the library parses it back; times: counted "
                "once per value on extended_iso)")
    ctx.assumptions = [
        "CPython >= 3.11 datetime.fromisoformat (accepts 'Z', hour-only offsets, ','/'.' fractions of any length, truncating beyond microseconds) is the independent ISO-8601 reader",
        "sub-microsecond digits are checked by an own regular-grammar decoder because the standard library cannot represent them",
        "the standard library writes UTC as '+00:00'; for instants its naive text + 'Z' is used as the foreign ISO text",
        "LocalDate(y, m, d) / Instant.from_utc construct the values under test (checked by C01/C15)",
    ]
    if not only or "dates" in only:
        shards = list(chunks(1, MAX_ORD + 1, 60_000))
        for acc in pmap(date_worker, rotate(shards, ctx.seed)):
            ctx.merge_part("dates", acc)
    thorough = ctx.tier == "thorough"
    if not only or "times" in only:
        for acc in pmap(time_worker, rotate([(h, "all") for h in range(24)] if thorough else range(24), ctx.seed)):
            ctx.merge_part("times", acc)
    if not only or "fractions" in only:
        tasks = [("us", a, b) for a, b in chunks(0, 1_000_000, 25_000)]
        tasks += [("ns-low", a, b) for a, b in chunks(0, 1_000_000 if thorough else 100_000, 25_000)]
        stride = 97 if thorough else NS_STRIDE
        nstride = (10**9 + stride - 1) // stride
        tasks += [("ns-stride", a, b, stride) for a, b in chunks(0, nstride, 25_000)]
        tasks += [("pow", 0, 0)]
        for acc in pmap(fraction_worker, rotate(tasks, ctx.seed)):
            ctx.merge_part("fractions", acc)
        ctx.note("fraction_space", {"microseconds": 1_000_000, "ns_low": 1_000_000 if thorough else 100_000, "ns_stride": stride, "ns_stride_values": nstride, "powers": len(POW_VALUES)})
    if not only or "datetimes" in only:
        for acc in pmap(datetime_worker, range(4)):
            ctx.merge_part("datetimes", acc)
    if not only or "offsets" in only:
        tasks = list(range(4)) + ([("sec", a, b) for a, b in chunks(-64800, 64801, 8000)] if thorough else [])
        for acc in pmap(offset_worker, tasks):
            ctx.merge_part("offsets", acc)
    if thorough and (not only or "every-date" in only):
        for acc in pmap(every_date_time_worker, rotate(list(chunks(1, MAX_ORD + 1, 60_000)), ctx.seed)):
            ctx.merge_part("every-date", acc)
    if not only or "builtins" in only:
        n = len(builtin_patterns())
        ctx.note("builtins_count", n)
        for acc in pmap(builtins_worker, range(n)):
            ctx.merge_part("builtins", acc)
    if not only or "ambient" in only:
        for acc in pmap(ambient_worker, AMBIENT_CULTURES):
            ctx.merge_part("ambient", acc)
    if not only or "consecutive" in only:
        pats = builtin_patterns()
        order = sorted(range(len(pats)), key=lambda i: (pats[i][0] not in ("datetime", "instant"), i))
        for acc in pmap(consecutive_worker, order):
            ctx.merge_part("consecutive", acc)
    if not only or "interposed" in only:
        for acc in pmap(interposed_worker, range(len(builtin_patterns()))):
            ctx.merge_part("interposed", acc)
    if not only or "beyond" in only:
        for acc in pmap(beyond_worker, [0]):
            ctx.merge_part("beyond", acc)
    ctx.exhaustive = not only
    ctx.note("date_space", MAX_ORD)
    ctx.note("time_space", 86400 * len(FRACTIONS))
    if only:
        ctx.cap("only parts %s were run" % sorted(only))


def replay(rec) -> bool:
    """Re-run the worker unit containing the recorded case; True when the same violation key reappears."""
    key = rec.get("key", "")
    case = rec.get("case") or {}
    found = {}
    if "every_date_time" in case:
        found.update(every_date_time_worker((case["ordinal"], case["ordinal"] + 1)).violations)
    elif "ordinal" in case:
        found.update(date_worker((case["ordinal"], case["ordinal"] + 1)).violations)
    elif "fraction_ns" in case:
        a = Acc()
        _fraction_case(a, case["fraction_ns"], 0, case["fraction_ns"] % 1000 == 0)
        _fraction_case(a, case["fraction_ns"], 0, False)
        found.update(a.violations)
    elif "route" in case:
        for c in AMBIENT_CULTURES:
            found.update(ambient_worker(c).violations)
    elif "failing_call" in case:
        for i in range(len(builtin_patterns())):
            found.update(interposed_worker(i).violations)
    elif "group" in case:
        for i in range(len(builtin_patterns())):
            found.update(consecutive_worker(i).violations)
    elif "builtin" in case:
        for i in range(len(builtin_patterns())):
            found.update(builtins_worker(i).violations)
    elif "time" in case:
        found.update(time_worker(case["time"][0]).violations)
    elif "datetime" in case:
        for part in range(4):
            found.update(datetime_worker(part).violations)
    elif "offset_seconds" in case:
        for part in range(4):
            found.update(offset_worker(part).violations)
    else:
        found.update(beyond_worker(0).violations)
    return key in found
