"""C20 - damaged time-zone data is rejected with the documented error, promptly.   LEVEL = fault_enumeration

The fault engine enumerates fault operators over the bytes of the two real .nzd files

    Trunc(p)          keep the first p bytes
    Sub(p, b)         overwrite byte p            b in {0x00, 0xFF, orig^1, orig^0x80} \\ {orig}   ("base4")
    Ins(p, b)         insert a byte before p      b = 0x80
    Del(p)            delete byte p
    Sub^k             k <= 4 simultaneous substitutions inside one 6-byte framing window (field id, length, first payload bytes)
    MaxLen(j)         the two Sub^4 that turn field j's length into ff ff ff ff <next byte> (up to 32 GiB) and ff ff ff 7f (2^28-1)
    Value(j, e, v)    value-level: decoded element e of zone field j re-encoded as adversarial value v, spliced into the payload with
                      the field's length varint recomputed (framing stays valid): transitions := start/end-of-time marker in
                      both encodings (00, 80 00, 01, 81 00), equal to / before the predecessor, min/max real instants and
                      beyond, raw form; counts 0/1/n+-1; name and id indexes outside the pool; offsets +-18h, +-18h+-1s,
                      +-(24h-1ms); tail flag toggled with / without the tail bytes; non-minimal re-encoding of every varint
                      The same for the non-zone fields (string pool, version, id map, Windows zones, zone locations): pool indexes
                      := 0, 1, v+-1, the index of "001" / "ZZ" / "", outside the pool, 2^31-1, 2^31; list counts and string
                      lengths := 0, 1, n+-1, 2^31-1 with the bytes kept, list emptied / last element removed / doubled with
                      the bytes adjusted; coordinates := +-90/180 degrees +-1 s and the int32 ends; non-minimal varints
    IdMap / PoolStr   structure-aware Sub^k (k<=4, lengths kept): alias entries of the id map re-pointed to another alias, to
                      themselves, to a non-id string, in 2-cycles and 3-cycles; id strings of the pool with a meaningful token
                      ("UTC", "UTC+", "GMT", "Etc/", "+", "-", ":", digits) written over their first / last characters
    Sub(p, v)         role-aware values inside zone payloads: every month 0..13, every flag byte 0..127, every day-of-month
                      code 0..63 of the tail rules; orig+-1, orig+-2, 0x7F, 0x80, 1..12 ("E") and all 256 values on chosen zones

and runs, for every faulted stream, the REAL loader:  TzdbDateTimeZoneSource.from_stream, then version_id, get_ids(),
DateTimeZoneCache(source), and source.for_id(id) / cache[id] for every id whose decoding can read a changed byte.
Each call runs under a watchdog (signal.setitimer on the process CPU clock, 5 s) with RLIMIT_AS = the worker's footprint + 192 MiB.

Oracle: a call returns, or raises InvalidPyodaDataError (cache construction / cache[id] may also raise the documented
InvalidDateTimeZoneSourceError).  Anything else - another exception type, the watchdog, MemoryError - is a violation
keyed by (call, exception type, innermost pyoda_time function).

Two seams, one conformance check.  Faults that can change framing (header, field id / length bytes, Trunc, Ins, Del,
Sub^k) go through the public from_stream on the whole file.  A single substitution strictly inside one field's payload
leaves every other field's bytes and the framing untouched, so only that field's handler (and zones decoded from it) can
behave differently; those faults are driven through the field seam: the REAL from_stream is called, with only its
byte-by-byte framing reader and its "new empty builder" substituted so that it iterates over [the faulted field] and starts
from the builder state the handlers produced for the other, undamaged fields (header check, handler dispatch, handler,
completeness checks, source construction and any error translation run as in a public load); then the real for_id.  For
the string pool (on which every later handler depends) ALL fields are fed again.  That the seams agree is checked, not
assumed: a stated subset of payload faults is run through both and must classify identically (a difference degrades the
check and is listed in the evidence; the public-seam run of that fault is judged by the oracle as usual).
"""
from __future__ import annotations

import bisect
import gc
import io
import itertools
import math
import os
import resource
import signal
import time
import traceback

from vf.core.evidence import Acc, exc_site
from vf.core.par import pmap
from vf.models import nzdcodec as M
from vf.models import nzdframe as F

LEVEL = "fault_enumeration"
TIME_LIMIT_S = 5.0
MEM_EXTRA = 192 << 20          # a load needs a few MB; a reader that pre-allocates a declared length of 2^28 bytes must be seen

_BIND_ERROR = None
_SEAM_ERROR = None
try:
    import pyoda_time
    import pyoda_time.time_zones as _tz
    from pyoda_time.time_zones import DateTimeZoneCache, InvalidDateTimeZoneSourceError
    from pyoda_time.utility import InvalidPyodaDataError
    try:
        TzdbDateTimeZoneSource = _tz.TzdbDateTimeZoneSource
    except AttributeError:
        from pyoda_time.time_zones._tzdb_date_time_zone_source import TzdbDateTimeZoneSource
except Exception as _e:  # noqa: BLE001
    _BIND_ERROR = "%s: %s" % (type(_e).__name__, _e)
try:
    from pyoda_time.time_zones.io._tzdb_stream_data import _TzdbStreamData
    from pyoda_time.time_zones.io._tzdb_stream_field import _TzdbStreamField
    from pyoda_time.time_zones.io._tzdb_stream_field_id import _TzdbStreamFieldId
except Exception as _e:  # noqa: BLE001
    _SEAM_ERROR = "%s: %s" % (type(_e).__name__, _e)


# ---------------------------------------------------------------------------------------------- watchdog

class Timeout(BaseException):
    pass


def _on_alarm(_sig, _frm):
    raise Timeout()


_LIMITS_SET = False


def init_limits(force=False):
    global _LIMITS_SET
    if _LIMITS_SET and not force:
        return
    signal.signal(signal.SIGPROF, _on_alarm)
    vm = 0
    try:
        with open("/proc/self/status") as f:
            for line in f:
                if line.startswith("VmSize:"):
                    vm = int(line.split()[1]) * 1024
    except OSError:
        pass
    try:
        soft, hard = resource.getrlimit(resource.RLIMIT_AS)
        want = (vm or (2 << 30)) + MEM_EXTRA
        if hard != resource.RLIM_INFINITY:
            want = min(want, hard)
        resource.setrlimit(resource.RLIMIT_AS, (want, hard))
    except (ValueError, OSError):
        pass
    _LIMITS_SET = True


def guarded(fn, limit=TIME_LIMIT_S):
    """-> (status, value-or-exception); status in ok / exc / timeout / memory.
    The timer counts the CPU time of this process (ITIMER_PROF), so a busy machine cannot fake a hang; the loader works on
    in-memory streams, a call that does not return is therefore a call that keeps computing."""
    signal.setitimer(signal.ITIMER_PROF, limit)
    try:
        try:
            return "ok", fn()
        finally:
            signal.setitimer(signal.ITIMER_PROF, 0)
    except Timeout:
        return "timeout", None
    except MemoryError as e:
        return "memory", e
    except Exception as e:  # noqa: BLE001
        return "exc", e


def watchdog_selftest():
    """the guard really interrupts a spin and really refuses a 3 GiB allocation"""
    init_limits()

    def spin():
        while True:
            pass
    a = guarded(spin, 0.05)[0]
    b = guarded(lambda: bytearray(3 << 30))[0]
    return a == "timeout", b == "memory"


# ---------------------------------------------------------------------------------------------- file context

class FileCtx:
    def __init__(self, name, path):
        self.name = name
        self.path = path
        self.data = open(path, "rb").read()
        self.version, self.fields = F.split(self.data)
        self.starts = [f.start for f in self.fields]
        self.pool = F.string_pool(self.data, self.fields)
        self.zone_id = F.zone_ids(self.data, self.fields, self.pool)            # field index -> id
        self.idmap = F.id_map(self.data, self.fields, self.pool) or {}
        self.all_ids = set(self.zone_id.values()) | set(self.idmap)
        self.alias_of = {}
        for a, c in self.idmap.items():
            self.alias_of.setdefault(c, []).append(a)
        # which pool strings does each zone field read?  (decode with a pool whose strings are their own indices)
        idx_pool = ["\x00%d" % i for i in range(len(self.pool))]
        self.zone_uses = {}
        self.first_tailed = self.first_fixed = None
        for f in self.fields:
            if f.fid != 1:
                continue
            used = set()

            class _P(list):
                def __getitem__(s, i, used=used):
                    used.add(i)
                    return list.__getitem__(s, i)
            d = M.Dec(F.payload(self.data, f), _P(idx_pool))
            _zid, kind, body = d.zone_field()
            self.zone_uses[f.index] = used
            if kind == "precalc" and body[2] is not None and self.first_tailed is None:
                self.first_tailed = self.zone_id[f.index]
            if kind == "fixed" and self.first_fixed is None:
                self.first_fixed = self.zone_id[f.index]
        self.roles = {}      # zone field index -> {payload offset: role}
        for f in self.fields:
            if f.fid == 1:
                try:
                    self.roles[f.index] = M.zone_field_roles(F.payload(self.data, f), self.pool)
                except M.Bad:
                    self.roles[f.index] = {}
        self.canaries = [c for c in (self.first_tailed, self.first_fixed) if c]
        if self.idmap:
            self.canaries.append(sorted(self.idmap)[0])
        self.lib_fields = None
        self.base = None

    # ---- position roles
    def role(self, p):
        """('header', None) | ('fid'|'len'|'payload', field index)"""
        if p < 4:
            return "header", None
        j = bisect.bisect_right(self.starts, p) - 1
        f = self.fields[j]
        if p == f.start:
            return "fid", j
        if p < f.payload_start:
            return "len", j
        return "payload", j

    # ---- field seam
    def prepare_seam(self):
        """the builder state after the undamaged file: captured from a real from_stream run (no handler is called by us)"""
        self.lib_fields = [_TzdbStreamField._ctor(_TzdbStreamFieldId(f.fid), F.payload(self.data, f)) for f in self.fields]
        self.real_builder = _TzdbStreamData._Builder
        captured = []

        def capture(*a, **k):
            captured.append(self.real_builder(*a, **k))
            return captured[-1]
        saved_b = _TzdbStreamData.__dict__["_Builder"]
        try:
            _TzdbStreamData._Builder = capture
            TzdbDateTimeZoneSource.from_stream(io.BytesIO(self.data))
        finally:
            _TzdbStreamData._Builder = saved_b
        if len(captured) != 1:
            raise SeamBroken("from_stream created %d builders" % len(captured))
        b = captured[0]
        self.base = b
        # the stream-data constructor adds the canonical ids to the builder's map afterwards: start from the file's own map
        self.base_idmap = dict(self.idmap)
        if not set(self.base_idmap) <= set(b._tzdb_id_map) or set(b._zone_fields) != set(self.zone_id.values()):
            raise SeamBroken("builder state does not match the model's reading of the file")
        self.base_zone_fields = dict(b._zone_fields)

    def seam_load(self, j, payload):
        """The loader's work for a stream whose field j has this payload (all other bytes original), through the REAL
        from_stream: only the byte-by-byte framing reader and the creation of the empty builder are substituted, so that
        the fields it iterates over are [the faulted field] and the builder already holds what the handlers made of the
        other (undamaged) fields.  Header check, handler dispatch, the handler itself, completeness checks, source
        construction and whatever error translation the loader performs all run as in a public load."""
        f = self.fields[j]
        fld = _TzdbStreamField._ctor(_TzdbStreamFieldId(f.fid), payload)
        real_builder = self.real_builder
        if f.fid == 0:
            nb = real_builder()
            feed = [fld if k == j else lf for k, lf in enumerate(self.lib_fields)]
        else:
            b = self.base
            nb = real_builder()
            nb._string_pool = b._string_pool
            nb._tzdb_version = b._tzdb_version
            nb._tzdb_id_map = dict(self.base_idmap)
            nb._zone_locations = b._zone_locations
            nb._zone_1970_locations = b._zone_1970_locations
            nb._windows_mapping = b._windows_mapping
            nb._zone_fields = dict(self.base_zone_fields)
            if f.fid == 1:
                del nb._zone_fields[self.zone_id[j]]
            elif f.fid == 2:
                nb._tzdb_version = None
            elif f.fid == 3:
                nb._tzdb_id_map = None
            elif f.fid == 4:
                nb._windows_mapping = None
            elif f.fid == 6:
                nb._zone_locations = None
            elif f.fid == 7:
                nb._zone_1970_locations = None
            feed = [fld]
        used = []

        def fake_builder(*a, **k):
            used.append("builder")
            return nb

        def fake_read_fields(cls, stream):
            used.append("fields")
            return iter(feed)
        saved_b = _TzdbStreamData.__dict__["_Builder"]
        saved_r = _TzdbStreamField.__dict__["_read_fields"]
        try:
            _TzdbStreamData._Builder = fake_builder
            _TzdbStreamField._read_fields = classmethod(fake_read_fields)
            src = TzdbDateTimeZoneSource.from_stream(io.BytesIO(self.data[:4]))
        finally:
            _TzdbStreamData._Builder = saved_b
            _TzdbStreamField._read_fields = saved_r
        if used != ["builder", "fields"]:
            raise SeamBroken("from_stream no longer creates one builder and reads the fields once (%r)" % (used,))
        return src


class SeamBroken(Exception):
    pass


_FILES = []      # filled by run() before the workers fork


def nzd_files():
    out = []
    try:
        tzdir = os.path.dirname(os.path.abspath(_tz.__file__))
        p = os.path.join(tzdir, "Tzdb.nzd")
        if os.path.exists(p):
            out.append(("Tzdb.nzd", p))
        repo = os.environ.get("VERIF_REPO") or os.path.dirname(os.path.dirname(tzdir))
        p = os.path.join(repo, "tests", "test_data", "Tzdb2013bFromNodaTime1.1.nzd")
        if os.path.exists(p):
            out.append(("Tzdb2013bFromNodaTime1.1.nzd", p))
    except Exception:  # noqa: BLE001
        pass
    return out


# ---------------------------------------------------------------------------------------------- faults

def sub_values(orig):
    out = []
    for b in (0x00, 0xFF, orig ^ 1, orig ^ 0x80):
        if b != orig and b not in out:
            out.append(b)
    return out


def alphabet(name, orig):
    """extra substitution values (beyond sub_values) for a byte with a known role"""
    base = sub_values(orig)
    if name == "E":
        extra = [(orig + 1) & 255, (orig - 1) & 255, (orig + 2) & 255, (orig - 2) & 255, 0x7F, 0x80] + list(range(1, 13))
    elif name == "all":
        extra = range(256)
    elif name == "month":
        extra = range(0, 14)
    elif name == "flags":
        extra = range(0, 128)
    elif name == "dom":
        extra = range(0, 64)
    else:
        raise AssertionError(name)
    out = []
    for b in extra:
        if b != orig and b not in base and b not in out:
            out.append(b)
    return out


ROLE_ALPHABET = {"tail-month": "month", "tail-flags": "flags", "tail-dom": "dom"}


def apply_fault(data, fault):
    k = fault[0]
    if k == "T":
        return data[:fault[1]]
    if k == "S":
        b = bytearray(data)
        for p, v in fault[1]:
            b[p] = v
        return bytes(b)
    if k == "I":
        return data[:fault[1]] + bytes([fault[2]]) + data[fault[1]:]
    if k == "D":
        return data[:fault[1]] + data[fault[1] + 1:]
    if k == "X":        # splices: ((start, end, hex of the replacement), ...) on original offsets, non-overlapping
        b = bytearray(data)
        for a, e, hx in sorted(fault[1], reverse=True):
            b[a:e] = bytes.fromhex(hx)
        return bytes(b)
    raise AssertionError(fault)


def fault_text(fault):
    k = fault[0]
    if k == "T":
        return "Trunc(%d)" % fault[1]
    if k == "S":
        return "Sub(" + ", ".join("%d:=0x%02x" % (p, v) for p, v in fault[1]) + ")"
    if k == "I":
        return "Ins(%d, 0x%02x)" % (fault[1], fault[2])
    if k == "X":
        return "Splice(" + ", ".join("[%d:%d):=%s" % (a, e, hx or "-") for a, e, hx in fault[1]) + ")"
    return "Del(%d)" % fault[1]


# ---------------------------------------------------------------------------------------------- one execution

_PY = '''import io

from pyoda_time.time_zones import DateTimeZoneCache, InvalidDateTimeZoneSourceError
from pyoda_time.time_zones._tzdb_date_time_zone_source import TzdbDateTimeZoneSource
from pyoda_time.utility import InvalidPyodaDataError


def test_c20_damaged_stream():
    data = bytearray(open(%(path)r, "rb").read())
    %(apply)s
    try:
        source = TzdbDateTimeZoneSource.from_stream(io.BytesIO(bytes(data)))
        source.version_id
        ids = list(source.get_ids())
        cache = DateTimeZoneCache(source)
        for zone_id in %(ids)s:
            source.for_id(zone_id)
            cache[zone_id]
    except (InvalidPyodaDataError, InvalidDateTimeZoneSourceError):
        pass    # the documented way of rejecting damaged data; anything else fails the test
'''


def py_text(fc, fault, ids):
    k = fault[0]
    if k == "T":
        ap = "del data[%d:]" % fault[1]
    elif k == "S":
        ap = "; ".join("data[%d] = 0x%02x" % (p, v) for p, v in fault[1])
    elif k == "I":
        ap = "data.insert(%d, 0x%02x)" % (fault[1], fault[2])
    elif k == "X":
        ap = "; ".join("data[%d:%d] = bytes.fromhex(%r)" % (a, e, hx) for a, e, hx in sorted(fault[1], reverse=True))
    else:
        ap = "del data[%d]" % fault[1]
    return _PY % {"path": fc.path, "apply": ap, "ids": "ids" if ids is None else repr(list(ids))}


def tname(e):
    t = type(e)
    return t.__name__ if t.__module__ in ("builtins", "pyoda_time.utility._invalid_pyoda_data_exception") or t.__module__.startswith("pyoda_time") else "%s.%s" % (t.__module__, t.__name__)


def chain(e):
    """the last pyoda_time frames of the traceback, outermost first"""
    out = []
    tb = e.__traceback__
    while tb is not None:
        fn = tb.tb_frame.f_code.co_filename.replace("\\", "/")
        if "/pyoda_time/" in fn:
            out.append("%s:%s" % (os.path.basename(fn), tb.tb_frame.f_code.co_name))
        tb = tb.tb_next
    return out[-4:]


class Exec:
    """runs the calls of one faulted stream and classifies them"""

    def __init__(self, acc, fc, fault, seam):
        self.acc = acc
        self.fc = fc
        self.fault = fault
        self.seam = seam
        self.vector = []        # (call, id-or-None, class) for seam equivalence
        self.calls = 0
        self.observed = False   # something differs from the undamaged run

    def call(self, name, fn, allowed, zid=None, same_root_as=None, retry=None):
        """same_root_as: the class the preceding for_id(zid) ended in - cache[zid] delegating to for_id and failing the
        same way is the same root cause and gets no key of its own"""
        self.calls += 1
        st, val = guarded(fn)
        if st in ("timeout", "memory") and retry is not None:
            if st == "memory":
                # the worker's own footprint may have drifted towards the limit: collect, re-measure, re-arm
                val = None
                gc.collect()
                init_limits(force=True)
            st, val = guarded(retry())       # reported only when it happens twice
        if st == "ok":
            self.acc.outcome("%s: ok" % name)
            self.vector.append((name, zid, "ok"))
            return True, val
        self.observed = True
        if st == "exc" and isinstance(val, allowed):
            label = tname(val)
            self.acc.outcome("%s: %s" % (name, label))
            self.vector.append((name, zid, label))
            return False, val
        if st == "exc":
            site = exc_site(val)
            if site == "?":
                # not raised inside pyoda_time at all: a harness problem unless it came through library code
                if not any("/pyoda_time/" in fr.filename.replace("\\", "/") for fr in traceback.extract_tb(val.__traceback__)):
                    raise val
            label = "%s/%s" % (tname(val), site)
            what = "%s raised %s(%s) via %s" % (name, tname(val), str(val)[:160].replace("\n", " "), " > ".join(chain(val)))
        elif st == "timeout":
            HANGS[0] += 1
            if ALL_HANGS is not None:
                with ALL_HANGS.get_lock():
                    ALL_HANGS.value += 1
            label = "timeout"
            what = "%s did not return within %.0f s of CPU time (twice)" % (name, TIME_LIMIT_S)
        else:
            label = "MemoryError/%s" % exc_site(val)
            what = "%s exhausted memory (more than %d MiB above the worker's footprint, twice)" % (name, MEM_EXTRA >> 20)
        self.acc.outcome("%s: FOREIGN %s" % (name, label))
        self.vector.append((name, zid, label))
        key = "C20/%s/%s" % (name, label)
        if same_root_as == label:
            return False, val
        if key not in self.acc.violations:
            ids = None if zid is None else [zid]
            self.acc.violation(key, "%s on %s with %s [%s seam]; documented: InvalidPyodaDataError" % (what, self.fc.name, fault_text(self.fault), self.seam),
                               {"file": self.fc.name, "fault": list(self.fault), "call": name, "id": zid, "seam": self.seam},
                               py_text(self.fc, self.fault, ids))
        return False, val


DATA_ERR = None
CACHE_ERR = None
HANGS = [0]          # confirmed time-outs in the current shard
MAX_HANGS = 2        # after that the shard is abandoned (each confirmed hang costs 2 x 5 s of CPU)
ALL_HANGS = None     # multiprocessing.Value shared by the workers: confirmed time-outs of the whole run
MAX_ALL_HANGS = 12   # after that every remaining shard is skipped (the verdict is a violation anyway)


class ShardAbandoned(Exception):
    pass


def _errs():
    global DATA_ERR, CACHE_ERR
    if DATA_ERR is None:
        DATA_ERR = (InvalidPyodaDataError,)
        CACHE_ERR = (InvalidPyodaDataError, InvalidDateTimeZoneSourceError)


def after_load(ex, src, pick_ids):
    """version_id, get_ids, cache, then for_id / cache[id] for the ids chosen by pick_ids(list of ids)"""
    ok, _ = ex.call("version_id", lambda: src.version_id, DATA_ERR, retry=lambda: (lambda: src.version_id))
    ok, ids = ex.call("get_ids", lambda: list(src.get_ids()), DATA_ERR, retry=lambda: (lambda: list(src.get_ids())))
    if not ok:
        return None
    if set(ids) != ex.fc.all_ids:
        ex.observed = True
    okc, cache = ex.call("cache_ctor", lambda: DateTimeZoneCache(src), CACHE_ERR, retry=lambda: (lambda: DateTimeZoneCache(src)))
    for zid in pick_ids(ids):
        ex.call("for_id", lambda zid=zid: src.for_id(zid), DATA_ERR, zid, retry=lambda zid=zid: (lambda: src.for_id(zid)))
        if okc:
            ex.call("cache_getitem", lambda zid=zid: cache[zid], CACHE_ERR, zid, same_root_as=ex.vector[-1][2],
                    retry=lambda zid=zid: (lambda: DateTimeZoneCache(src)[zid]))
    return ids


MAX_DEP_IDS = 24      # run() lowers it to 6 in the quick tier


def pick_for(fc, acc, role, j, faulted_payload, everything):
    """which ids can read a changed byte (see module docstring); returns a function of the loaded id list"""
    def pick(ids):
        idset = set(ids)
        new = sorted(i for i in ids if i not in fc.all_ids)
        chosen = []
        if everything:
            return list(ids)
        f = fc.fields[j] if j is not None else None
        if f is not None and f.fid == 1:
            chosen = new[:4]
            zid = fc.zone_id[j]
            if zid in idset:
                chosen.append(zid)
        elif f is not None and f.fid == 3:
            try:
                m = M.Dec(faulted_payload, fc.pool).dictionary()
                changed = [k for k in m if fc.idmap.get(k) != m[k]]
            except (M.Bad, IndexError):
                changed = list(new)
            chosen = [i for i in changed if i in idset]
            if len(chosen) > MAX_DEP_IDS:
                acc.cap("id-map fault changing more than %d entries: first %d fetched" % (MAX_DEP_IDS, MAX_DEP_IDS))
                chosen = chosen[:MAX_DEP_IDS]
        elif f is not None and f.fid == 0:
            try:
                d = M.Dec(faulted_payload)
                newpool = [d.string() for _ in range(d.count())]
            except M.Bad:
                newpool = None
            if newpool is None:
                changed = None
            else:
                changed = {i for i in range(max(len(newpool), len(fc.pool))) if i >= len(newpool) or i >= len(fc.pool) or newpool[i] != fc.pool[i]}
            deps = []
            for fi, used in fc.zone_uses.items():
                if changed is None or used & changed:
                    deps.append(fi)
            # the zone's id string may itself be a changed pool entry: look the zone up by what the id became
            cand = list(new)
            for fi in deps:
                z = fc.zone_id[fi]
                if z in idset and z not in cand:
                    cand.append(z)
            if len(cand) > MAX_DEP_IDS:
                acc.cap("string-pool fault read by more than %d zones: first %d (file order) fetched - strings are opaque to zone decoding" % (MAX_DEP_IDS, MAX_DEP_IDS))
                cand = cand[:MAX_DEP_IDS]
            chosen = cand
        else:
            chosen = new[:4]
        return chosen
    return pick


def pick_for_stream(fc, acc, faulted):
    """faults that may shift framing: if the model's split of the faulted stream still has exactly the original framing
    (same field ids and boundaries) only the fields whose payload bytes differ can behave differently - fetch their
    dependents and the canaries; otherwise every id"""
    try:
        version, fields = F.split(faulted)
        same = version == fc.version and len(fields) == len(fc.fields) and all(
            (a.fid, a.start, a.payload_start, a.end) == (b.fid, b.start, b.payload_start, b.end) for a, b in zip(fields, fc.fields))
    except (M.Bad, IndexError):
        same = False
    if not same:
        return lambda ids: list(ids)
    picks = []
    for f in fc.fields:
        pl = faulted[f.payload_start:f.end]
        if pl != fc.data[f.payload_start:f.end]:
            picks.append(pick_for(fc, acc, "payload", f.index, pl, False))

    def pick(ids):
        out = []
        for p in picks:
            for i in p(ids):
                if i not in out:
                    out.append(i)
        return out
    return with_canaries(fc, pick)


def with_canaries(fc, pick):
    def p(ids):
        out = list(pick(ids))
        s = set(ids)
        for c in fc.canaries:
            if c in s and c not in out:
                out.append(c)
        return out
    return p


def run_public(acc, fc, fault, pick, seam="public"):
    _errs()
    ex = Exec(acc, fc, fault, seam)
    faulted = apply_fault(fc.data, fault)
    if pick is None:
        pick = pick_for_stream(fc, acc, faulted)
    stream = io.BytesIO(faulted)
    ok, src = ex.call("from_stream", lambda: TzdbDateTimeZoneSource.from_stream(stream), DATA_ERR,
                      retry=lambda: (lambda: TzdbDateTimeZoneSource.from_stream(io.BytesIO(faulted))))
    if ok:
        after_load(ex, src, pick)
    return ex


def run_seam(acc, fc, fault, j, payload, pick):
    _errs()
    ex = Exec(acc, fc, fault, "field")
    ok, src = ex.call("from_stream", lambda: fc.seam_load(j, payload), DATA_ERR, retry=lambda: (lambda: fc.seam_load(j, payload)))
    if ok:
        after_load(ex, src, pick)
    return ex


def account(acc, ex):
    acc.count(states=1, evaluations=1, transitions=ex.calls, nontrivial=1 if ex.observed else 0)
    if not acc.samples and ex.observed:
        acc.sample({"file": ex.fc.name, "fault": fault_text(ex.fault), "seam": ex.seam,
                    "calls": ["%s%s -> %s" % (c, "(%s)" % z if z else "", o) for c, z, o in ex.vector[:6]]})
    if HANGS[0] >= MAX_HANGS:
        raise ShardAbandoned()


# ---------------------------------------------------------------------------------------------- shard worker

def _positions(spec):
    if spec[0] == "r":
        return range(spec[1], spec[2])
    return spec[1]


def do_sub(acc, fc, p, b, use_seam):
    fault = ("S", ((p, b),))
    role, j = fc.role(p)
    if role == "payload" and use_seam and fc.fields[j].fid in (0, 1, 2, 3, 4, 6, 7):
        f = fc.fields[j]
        pl = bytearray(F.payload(fc.data, f))
        pl[p - f.payload_start] = b
        pl = bytes(pl)
        ex = run_seam(acc, fc, fault, j, pl, pick_for(fc, acc, role, j, pl, False))
    elif role == "payload":
        f = fc.fields[j]
        pl = bytearray(F.payload(fc.data, f))
        pl[p - f.payload_start] = b
        pl = bytes(pl)
        ex = run_public(acc, fc, fault, with_canaries(fc, pick_for(fc, acc, role, j, pl, False)))
    else:
        ex = run_public(acc, fc, fault, None)
    account(acc, ex)
    return ex


def shard(item):
    kind, fi = item[0], item[1]
    fc = _FILES[fi]
    init_limits()
    acc = Acc()
    t0 = time.process_time()
    HANGS[0] = 0
    if ALL_HANGS is not None and ALL_HANGS.value >= MAX_ALL_HANGS:
        acc.cap("shards skipped after %d confirmed time-outs in this run" % MAX_ALL_HANGS)
        return kind, acc
    try:
        _shard_body(acc, fc, kind, item)
    except ShardAbandoned:
        acc.cap("a shard was abandoned after %d confirmed time-outs (reported as violations); the rest of that shard was not run" % MAX_HANGS)
    acc.note("cpu_s", round(time.process_time() - t0, 2))
    return kind, acc


def _shard_body(acc, fc, kind, item):
    fi = item[1]
    if kind == "trunc":
        for p in _positions(item[2]):
            ex = run_public(acc, fc, ("T", p), None)
            account(acc, ex)
    elif kind == "sub":
        use_seam = item[3]
        for p in _positions(item[2]):
            for b in sub_values(fc.data[p]):
                do_sub(acc, fc, p, b, use_seam)
    elif kind == "subv":
        # role-aware / extended substitution values for payload bytes: item[2] = ("l", [(position, alphabet name), ...])
        for p, name in item[2][1]:
            for b in alphabet(name, fc.data[p]):
                do_sub(acc, fc, p, b, item[3])
    elif kind == "ins":
        for p in _positions(item[2]):
            ex = run_public(acc, fc, ("I", p, item[3]), None)
            account(acc, ex)
    elif kind == "del":
        for p in _positions(item[2]):
            ex = run_public(acc, fc, ("D", p), None)
            account(acc, ex)
    elif kind == "tuples":
        _kind, _fi, w0, kmin, kmax, nvals, sh, nsh = item
        win = [p for p in range(w0, w0 + 6) if p < len(fc.data)]
        n = 0
        for k in range(kmin, kmax + 1):
            for combo in itertools.combinations(win, k):
                for vals in itertools.product(*[sub_values(fc.data[p])[:nvals] for p in combo]):
                    n += 1
                    if n % nsh != sh:
                        continue
                    ex = run_public(acc, fc, ("S", tuple(zip(combo, vals))), None)
                    account(acc, ex)
    elif kind == "equiv":
        # both seams on the same fault must classify identically
        for p in _positions(item[2]):
            role, j = fc.role(p)
            if role != "payload":
                continue
            f = fc.fields[j]
            for b in sub_values(fc.data[p]):
                fault = ("S", ((p, b),))
                pl = bytearray(F.payload(fc.data, f))
                pl[p - f.payload_start] = b
                pl = bytes(pl)
                pick = pick_for(fc, acc, role, j, pl, False)
                e1 = run_seam(acc, fc, fault, j, pl, pick)
                e2 = run_public(acc, fc, fault, pick, seam="public(equivalence)")
                account(acc, e1)
                account(acc, e2)
                v1 = sorted((c, z or "", o) for c, z, o in e1.vector)
                v2 = sorted((c, z or "", o) for c, z, o in e2.vector)
                acc.outcome("seam-equivalence: %s" % ("same" if v1 == v2 else "DIFFERENT"))
                if v1 != v2:
                    d = [x for x in v1 if x not in v2][:3], [x for x in v2 if x not in v1][:3]
                    # not a property violation (the public-seam run above has been judged by the oracle); it means the
                    # field-seam results for this field kind cannot be trusted on this tree
                    acc.degrade("field seam and public seam classify a fault in a field of id %d differently (%s on %s: field-only %r, public-only %r)"
                                % (f.fid, fault_text(fault), fc.name, d[0], d[1]))
    elif kind == "multi":
        # structure-aware faults: item[2] = [(((pos, byte), ...), ids to fetch or None = the ids that are new)], all inside one field
        for subs, ids in item[2]:
            role, j = fc.role(subs[0][0])
            f = fc.fields[j]
            pl = bytearray(F.payload(fc.data, f))
            for p, b in subs:
                pl[p - f.payload_start] = b
            pl = bytes(pl)
            if ids is None:
                pick = lambda got: sorted(i for i in got if i not in fc.all_ids)[:4]      # noqa: E731
            else:
                pick = lambda got, ids=ids: [i for i in ids if i in set(got)]             # noqa: E731
            fault = ("S", tuple(subs))
            if item[3]:
                ex = run_seam(acc, fc, fault, j, pl, pick)
            else:
                ex = run_public(acc, fc, fault, with_canaries(fc, pick))
            account(acc, ex)
    elif kind in ("value", "vequiv"):
        # value-level faults: item[2] = [(field index, payload start, payload end, replacement hex)]
        for j, a, b, hx in item[2]:
            pl, fault = value_fault_to_stream(fc, j, a, b, hx)
            pick = pick_for(fc, acc, "payload", j, pl, False)
            if kind == "vequiv":
                e1 = run_seam(acc, fc, fault, j, pl, pick)
                e2 = run_public(acc, fc, fault, pick, seam="public(equivalence)")
                account(acc, e1)
                account(acc, e2)
                v1 = sorted((c, z or "", o) for c, z, o in e1.vector)
                v2 = sorted((c, z or "", o) for c, z, o in e2.vector)
                acc.outcome("seam-equivalence: %s" % ("same" if v1 == v2 else "DIFFERENT"))
                if v1 != v2:
                    acc.degrade("field seam and public seam classify the value-level fault %s on %s differently" % (fault_text(fault), fc.name))
                continue
            if item[3]:
                ex = run_seam(acc, fc, fault, j, pl, pick)
            else:
                ex = run_public(acc, fc, fault, with_canaries(fc, pick))
            account(acc, ex)
    elif kind == "maxlen":
        # Sub^4: the four bytes from the first length byte of a field on are set to 0xFF (a 5-byte varint whose top byte is
        # whatever follows): declared lengths of up to 32 GiB
        for j in _positions(item[2]):
            f = fc.fields[j]
            ps = [p for p in range(f.len_start, f.len_start + 4) if p < len(fc.data)]
            ex = run_public(acc, fc, ("S", tuple((p, 0xFF) for p in ps)), None)
            account(acc, ex)
            # and the largest 4-byte varint (2^28-1: huge, but a valid int32 whatever follows)
            vals = [0xFF] * (len(ps) - 1) + [0x7F]
            ex = run_public(acc, fc, ("S", tuple(zip(ps, vals))), None)
            account(acc, ex)
    else:
        raise AssertionError(kind)


# ---------------------------------------------------------------------------------------------- enumeration plans

def cost_chunks(lo, hi, budget=12e6):
    """[lo,hi) cut so that the sum of positions (~ bytes the loader reads before the fault) is about equal"""
    a = lo
    while a < hi:
        b = int(math.sqrt(a * a + 2 * budget)) + 1
        b = min(hi, max(b, a + 1))
        yield a, b
        a = b


def listed(kind, fi, positions, per, *rest):
    positions = sorted(set(positions))
    for i in range(0, len(positions), per):
        yield (kind, fi, ("l", positions[i:i + per])) + rest


def plan(tier, seed, seam_ok, notes):
    items = []
    for fi, fc in enumerate(_FILES):
        L = len(fc.data)
        zf = [f for f in fc.fields if f.fid == 1]
        by_size = sorted(zf, key=lambda f: (f.end - f.payload_start, f.index))
        framing = list(range(4))
        for f in fc.fields:
            framing.extend(range(f.start, f.payload_start))
        if tier == "quick":
            # Trunc
            tp = set(range(0, 48)) | set(range(L - 48, L))
            for f in fc.fields:
                tp |= {f.start, f.start + 1, f.payload_start}
            items += listed("trunc", fi, tp, 60)
            # Sub, public seam: every framing byte of the file
            items += listed("sub", fi, framing, 40, seam_ok)
            # Sub, payload bytes
            pp = set()
            for f in fc.fields:
                n = f.end - f.payload_start
                if f.fid in (2, 3):
                    pp |= set(range(f.payload_start, f.end))
                elif f.fid in (4, 6, 7):
                    pp |= set(range(f.payload_start, min(f.end, f.payload_start + 256)))
                elif f.fid == 0:
                    pp |= set(range(f.payload_start, min(f.end, f.payload_start + 160)))
                elif f.fid == 5:
                    pp |= set(range(f.payload_start, min(f.end, f.payload_start + 6)))
                elif f.fid == 1:
                    pp |= set(range(f.payload_start, min(f.end, f.payload_start + 4)))
            tailed = [f for f in by_size if fc.zone_uses.get(f.index) is not None and _is_tailed(fc, f)]
            plain = [f for f in by_size if not _is_tailed(fc, f) and (f.end - f.payload_start) > 8]
            whole = by_size[:3] + plain[:1] + tailed[:1] + tailed[len(tailed) // 2:len(tailed) // 2 + 1]
            for f in whole:
                pp |= set(range(f.payload_start, f.end))
            notes.setdefault("zone_fields_substituted_completely", {})[fc.name] = [fc.zone_id[f.index] for f in whole]
            if seam_ok:
                items += listed("sub", fi, pp, 250, True)
                xv = []
                first_tailed = next((f for f in whole if _is_tailed(fc, f)), None)
                for f in whole:                       # chosen zones: extended values everywhere; tail bytes: role alphabets,
                    for off, role in sorted(fc.roles[f.index].items()):      # and all 256 values on the first tailed one
                        if role.startswith("tail-"):
                            xv.append((f.payload_start + off, "all" if f is first_tailed else ROLE_ALPHABET.get(role, "E")))
                        else:
                            xv.append((f.payload_start + off, "E"))
                whole_idx = {f.index for f in whole}
                for f in zf:                          # every other zone with a tail: every month value of both rules
                    if f.index in whole_idx:
                        continue
                    for off, role in sorted(fc.roles[f.index].items()):
                        if role == "tail-month":
                            xv.append((f.payload_start + off, "month"))
                for i in range(0, len(xv), 40):
                    items.append(("subv", fi, ("l", xv[i:i + 40]), True))
            else:
                items += listed("sub", fi, sorted(pp)[::6], 40, False)
            # Ins / Del
            idp = set(range(0, 64)) | set(range(L - 32, L))
            for f in fc.fields:
                idp |= {f.start, f.payload_start}
            # one extra seed-positioned block (coverage accumulates over runs; the verdict never depends on it)
            s0 = 64 + (seed * 7919 + 1234) % (L - 256)
            idp |= set(range(s0, s0 + 24))
            notes.setdefault("seed_block", {})[fc.name] = [s0, s0 + 24]
            items += listed("del", fi, idp, 50)
            items += listed("ins", fi, idp, 50, 0x80)
            # Sub^k in framing windows
            first_zone = zf[0]
            for w0, kmax, nsh in ((0, 4, 2), (fc.fields[0].start, 4, 4), (first_zone.start, 4, 8), (fc.fields[-1].start, 2, 2)):
                for sh in range(nsh):
                    items.append(("tuples", fi, w0, 2, kmax, 3, sh, nsh))
            notes.setdefault("tuple_windows", {})[fc.name] = [0, fc.fields[0].start, first_zone.start, fc.fields[-1].start]
            items += listed("maxlen", fi, range(len(fc.fields)), 30)
            for fam, per in ((idmap_faults(fc, tier), 60), (poolstr_faults(fc, tier), 40)):
                for i in range(0, len(fam), per):
                    items.append(("multi", fi, fam[i:i + per], seam_ok))
            vi, nv = value_plan(fc, fi, tier, whole[3:], seam_ok)
            items += vi
            notes.setdefault("value_level_faults", {})[fc.name] = nv
            # seam equivalence sample
            if seam_ok:
                ep = set()
                for f in zf[::16]:
                    ep |= set(range(f.payload_start, min(f.end, f.payload_start + 4)))
                for f in fc.fields:
                    if f.fid in (2, 3, 4, 6, 7):
                        ep |= set(range(f.payload_start, min(f.end, f.payload_start + 3)))
                    if f.fid == 0:
                        ep |= set(range(f.payload_start, f.payload_start + 6))
                items += listed("equiv", fi, ep, 12)
        else:
            for a, b in cost_chunks(0, L + 1):
                items.append(("trunc", fi, ("r", a, b)))
            items += listed("sub", fi, framing, 40, seam_ok)
            nonzone = []
            for f in fc.fields:
                if f.fid == 1:
                    if seam_ok:
                        for a in range(f.payload_start, f.end, 500):
                            items.append(("sub", fi, ("r", a, min(f.end, a + 500)), True))
                elif f.fid == 0:
                    per = 60 if seam_ok else 20
                    for a in range(f.payload_start, f.end, per):
                        items.append(("sub", fi, ("r", a, min(f.end, a + per)), seam_ok))
                    nonzone.append((f.payload_start, f.end))
                else:
                    per = 250 if (seam_ok and f.fid != 5) else 20
                    for a in range(f.payload_start, f.end, per):
                        items.append(("sub", fi, ("r", a, min(f.end, a + per)), seam_ok))
                    nonzone.append((f.payload_start, f.end))
            if not seam_ok:
                zp = []
                for f in zf:
                    zp.extend(range(f.payload_start, min(f.end, f.payload_start + 8)))
                items += listed("sub", fi, zp, 40, False)
            else:
                plain = [f for f in by_size if not _is_tailed(fc, f) and (f.end - f.payload_start) > 8]
                tl = [f for f in by_size if _is_tailed(fc, f)]
                step = max(1, len(tl) // 12)
                whole = by_size[:3] + plain[:3] + tl[:4] + tl[4::step][:6]
                whole_idx = {f.index for f in whole}
                notes.setdefault("zone_fields_substituted_with_extended_values", {})[fc.name] = [fc.zone_id[f.index] for f in whole]
                xv = []
                for f in whole:
                    for off, role in sorted(fc.roles[f.index].items()):
                        xv.append((f.payload_start + off, "all" if role.startswith("tail-") else "E"))
                for f in zf:
                    if f.index in whole_idx:
                        continue
                    for off, role in sorted(fc.roles[f.index].items()):
                        if role.startswith("tail-"):
                            xv.append((f.payload_start + off, ROLE_ALPHABET.get(role, "E")))
                for i in range(0, len(xv), 30):
                    items.append(("subv", fi, ("l", xv[i:i + 30]), True))
            # Ins / Del at every non-zone position (framing bytes + every byte of the non-zone fields)
            idp = set(framing) | set(range(L - 32, L + 1))
            for a, b in nonzone:
                idp |= set(range(a, b))
            idp = sorted(idp)
            # Ins shifts the framing exactly like Del does: it gets the framing bytes, the first 512 bytes of every non-zone
            # field and the end of the file; Del gets every non-zone position
            inp = set(framing) | set(range(L - 32, L + 1))
            for a, b in nonzone:
                inp |= set(range(a, min(b, a + 512)))
            inp = sorted(inp)
            for kind, extra, plist in (("del", (), idp), ("ins", (0x80,), inp)):
                i = 0
                while i < len(plist):
                    a = plist[i]
                    n = max(8, int(12e6 / (a + 4000)))
                    items.append((kind, fi, ("l", plist[i:i + n])) + extra)
                    i += n
            # Sub^k, k<=4, 4-value alphabet, eight windows
            tailed = [f for f in by_size if _is_tailed(fc, f)]
            wins = [0, fc.fields[0].start, zf[0].start, zf[len(zf) // 2].start, by_size[-1].start, tailed[0].start if tailed else zf[1].start]
            wins += [f.start for f in fc.fields if f.fid in (2, 3)]
            notes.setdefault("tuple_windows", {})[fc.name] = wins
            items += listed("maxlen", fi, range(len(fc.fields)), 30)
            for fam, per in ((idmap_faults(fc, tier), 60), (poolstr_faults(fc, tier), 40)):
                for i in range(0, len(fam), per):
                    items.append(("multi", fi, fam[i:i + per], seam_ok))
            if seam_ok:
                plain_v = [f for f in by_size if not _is_tailed(fc, f) and (f.end - f.payload_start) > 8]
                tl_v = [f for f in by_size if _is_tailed(fc, f)]
                whole_v = plain_v[:3] + tl_v[:6] + tl_v[6::max(1, len(tl_v) // 8)][:8]
            else:
                whole_v = []
            vi, nv = value_plan(fc, fi, tier, whole_v, seam_ok)
            items += vi
            notes.setdefault("value_level_faults", {})[fc.name] = nv
            for w0 in wins:
                nsh = 4 if w0 < 64 else 24
                for sh in range(nsh):
                    items.append(("tuples", fi, w0, 2, 4, 4, sh, nsh))
            if seam_ok:
                ep = []
                for f in zf:
                    ep.extend(range(f.payload_start, min(f.end, f.payload_start + 4)))
                for f in fc.fields:
                    if f.fid in (2, 3, 4, 6, 7):
                        ep.extend(range(f.payload_start, min(f.end, f.payload_start + 16)))
                    if f.fid == 0:
                        ep.extend(range(f.payload_start, f.payload_start + 32))
                items += listed("equiv", fi, ep, 12)
    return items


# ---------------------------------------------------------------------------------------------- value-level (semantic) faults

INT64_MIN = -(1 << 63)


def _raw(t):
    return "02" + (t & ((1 << 64) - 1)).to_bytes(8, "big").hex()


def _nonminimal(b: bytes):
    """the same varint with one redundant continuation group (0x81 0x00 for 1, 0x80 0x00 for 0, ...)"""
    return (b[:-1] + bytes([b[-1] | 0x80, 0x00])).hex()


def element_variants(fc, payload, el, donor_tail):
    """[(tag, payload start, payload end, replacement hex)] for one decoded element of a zone field: the adversarial value
    set.  tags: marker (start/end-of-time in both encodings), nonminimal (same value, redundant varint group), value"""
    a, b, role, v, prev = el
    orig = payload[a:b]
    out = []
    npool = len(fc.pool)
    if role == "transition":
        out += [("marker", x) for x in ("00", "8000", "01", "8100")]
        out += [("value", "8001"), ("value", "80808001")]                 # 128 hours after the previous; 2^21 minutes after 1800
        vlen = 1
        while orig[vlen - 1] & 0x80:
            vlen += 1
        out.append(("nonminimal", _nonminimal(orig[:vlen]) + orig[vlen:].hex()))
        ticks = [M.MIN_INSTANT_TICKS, M.MAX_INSTANT_TICKS, M.MIN_INSTANT_TICKS - 1, M.MAX_INSTANT_TICKS + 1, INT64_MIN, (1 << 63) - 1]
        if isinstance(prev, int):
            ticks += [prev, prev - 1, prev - M.TICKS_PER_HOUR]            # equal to / before its predecessor
        if isinstance(v, int):
            ticks.append(v)                                              # the same instant in the raw form
        out += [("value", _raw(t)) for t in ticks]
    elif role == "count":
        out += [("value", M.enc_varint(x).hex()) for x in (0, 1, v + 1, v - 1) if x >= 0]
        out.append(("nonminimal", _nonminimal(orig)))
    elif role in ("id", "name", "tail-name", "fixed-name"):
        out += [("value", M.enc_varint(x).hex()) for x in (npool, npool + 1, M.INT_MAX, M.INT_MAX + 1)]
        out.append(("nonminimal", _nonminimal(orig)))
    elif role in ("offset", "tail-offset", "fixed-offset", "tail-tod"):
        for ms in (64_800_000, -64_800_000, 64_801_000, -64_801_000, 86_399_999, -86_399_999, 1, -1000):
            out.append(("value", M.enc_millis(ms).hex()))
        out.append(("value", "e0"))                                       # undefined flag bits
    elif role in ("tail-month", "tail-dom"):
        out.append(("nonminimal", _nonminimal(orig)))
        out += [("value", M.enc_varint(x).hex()) for x in (128, M.INT_MAX)]
    elif role == "tail-flag":
        if v == 1:
            out += [("value", "00"), ("value", "02"), ("value", "ff")]    # flag cleared / unknown, tail bytes left behind
            out.append(("cut", "00"))                                     # flag cleared and the tail bytes removed
        else:
            out += [("value", "01"), ("value", "02")]                     # flag set, nothing follows
            if donor_tail:
                out.append(("value", "01" + donor_tail.hex()))            # flag set and a well-formed tail appended
    res = []
    seen = set()
    for tag, hx in out:
        r = (tag, a, len(payload), hx) if tag == "cut" else (tag, a, b, hx)
        if (tag != "cut" and bytes.fromhex(hx) == orig) or r[1:] in seen:
            continue
        seen.add(r[1:])
        res.append(r)
    return res


def value_faults(fc, f, mode, donor_tail):
    """[(field index, payload start, payload end, replacement hex)] for one zone field.
    mode "full": every element with its whole variant set.
    mode "mid":  count, tail flag, every tail element, the last transition and the last name / offset with their whole sets,
                 the first transition's markers, the id's non-minimal form.
    mode "lite": as mid without the tail elements and with two values for the last name / offset.
    mode "markers": every transition := end-of-time marker (both encodings) and its own non-minimal re-encoding."""
    pl = F.payload(fc.data, f)
    try:
        els = M.zone_field_elements(pl, fc.pool)
    except M.Bad:
        return []
    tr = [e for e in els if e[2] == "transition"]
    names = [e for e in els if e[2] == "name"]
    offs = [e for e in els if e[2] == "offset"]
    out = []
    for e in els:
        role = e[2]
        vs = element_variants(fc, pl, e, donor_tail)
        if mode == "full":
            pass
        elif mode == "markers":
            vs = [r for r in vs if role == "transition" and (r[0] == "nonminimal" or r[3] in ("01", "8100"))]
        elif role in ("count", "tail-flag", "fixed-offset", "fixed-name"):
            pass
        elif role.startswith("tail-"):
            if mode == "lite":
                vs = []
        elif role == "transition" and e is tr[-1]:
            pass
        elif (role == "name" and e is names[-1]) or (role == "offset" and e is offs[-1]):
            if mode == "lite":      # one out-of-range value and one malformed / non-minimal encoding
                vs = [vs[0] if role == "name" else vs[2], vs[-1]]
        elif role == "transition" and e is tr[0]:
            vs = [r for r in vs if r[0] == "marker"]
        elif role == "id":
            vs = [r for r in vs if r[0] == "nonminimal"]
        else:
            vs = []
        out += [(f.index,) + r[1:] for r in vs]
    return out


def nonzone_variants(fc, pl, e, specials):
    """[(tag, payload start, payload end, replacement hex)] for one decoded element of a non-zone field"""
    a, b, role, v = e["a"], e["b"], e["role"], e["value"]
    orig = pl[a:b]
    npool = len(fc.pool)
    out = []

    def enc(x):
        return M.enc_varint(x).hex()
    if role == "index":
        out += [("special", a, b, enc(x)) for x in specials]
        out += [("value", a, b, enc(x)) for x in (0, 1, v + 1, v - 1, npool, npool + 1, M.INT_MAX, M.INT_MAX + 1) if x >= 0]
        out.append(("nonminimal", a, b, _nonminimal(orig)))
    elif role == "signed":
        for x in (0, 324000, -324000, 324001, -324001, 648000, -648000, 648001, -648001, M.INT_MAX, M.INT_MIN):
            out.append(("value", a, b, M.enc_signed(x).hex()))
        out.append(("nonminimal", a, b, _nonminimal(orig)))
    elif role in ("count", "strlen"):
        items = e.get("items") or []
        end = items[-1][1] if items else b
        out += [("value", a, b, enc(x)) for x in (0, 1, v + 1, v - 1, M.INT_MAX) if x >= 0]      # count changed, bytes kept
        out.append(("nonminimal", a, b, _nonminimal(orig)))
        if role == "count" and items:
            out.append(("drop", a, end, enc(0)))                                                  # list emptied
            out.append(("drop", a, end, enc(v - 1) + pl[b:items[-1][0]].hex()))                   # last element removed
            out.append(("grow", a, end, enc(v + 1) + pl[b:end].hex() + pl[items[-1][0]:end].hex()))   # last element doubled
        elif role == "strlen" and v > 0:
            out.append(("drop", a, end, enc(0)))
            out.append(("drop", a, end, enc(v - 1) + pl[b:end - 1].hex()))
            out.append(("grow", a, end, enc(v + 1) + pl[b:end].hex() + "41"))
    res = []
    seen = set()
    for tag, x, y, hx in out:
        if bytes.fromhex(hx) == pl[x:y] or (x, y, hx) in seen:
            continue
        seen.add((x, y, hx))
        res.append((tag, x, y, hx))
    return res


def nonzone_value_faults(fc, f, mode):
    """value-level faults for a non-zone field (string pool, version, id map, Windows zones, zone locations).
    full: every element, whole set.   lite: every list count (top-level lists: whole set; inner lists: emptied, count 0 /
    n+1 with the bytes kept, non-minimal); the index in front of every inner list := each special string ("001", "ZZ", "");
    the first and last 8 indexes, 4 numbers and 3 inline strings with their whole sets."""
    pl = F.payload(fc.data, f)
    try:
        els = M.field_elements(f.fid, pl)
    except M.Bad:
        return []
    specials = [fc.pool.index(x) for x in ("001", "ZZ", "") if x in fc.pool]
    by_role = {}
    for e in els:
        by_role.setdefault(e["role"], []).append(e)
    edge = set()
    for role, n in (("index", 8), ("signed", 4), ("strlen", 3)):
        lst = by_role.get(role, [])
        edge |= {id(e) for e in lst[:n] + lst[-n:]}
    out = []
    for i, e in enumerate(els):
        vs = nonzone_variants(fc, pl, e, specials)
        if mode != "full":
            top = i == 0 or (f.fid == 4 and i == 3)
            if e["role"] == "count" and top:
                pass
            elif e["role"] == "count":
                vs = [r for r in vs if r[0] == "nonminimal" or (r[0] == "drop" and r[3] == "00") or (r[0] == "value" and r[3] in ("00", M.enc_varint(e["value"] + 1).hex()))]
            elif id(e) in edge:
                pass
            elif e["role"] == "index" and i + 1 < len(els) and els[i + 1]["role"] == "count":
                vs = [r for r in vs if r[0] == "special"]
            else:
                vs = []
        out += [(f.index,) + r[1:] for r in vs]
    return out


def value_fault_to_stream(fc, j, a, b, hx):
    """payload splice -> (new payload, file-level fault with the field's length varint recomputed so the framing stays valid)"""
    f = fc.fields[j]
    pl = F.payload(fc.data, f)
    new = pl[:a] + bytes.fromhex(hx) + pl[b:]
    parts = [(f.payload_start + a, f.payload_start + b, hx)]
    if len(new) != len(pl):
        parts.append((f.len_start, f.payload_start, M.enc_varint(len(new)).hex()))
    return new, ("X", tuple(sorted(parts)))


TOKENS = ("UTC", "UTC+", "UTC-", "GMT", "Etc/", "+", "-", ":") + tuple("0123456789")


def idmap_faults(fc, tier):
    """value-level mutations of the id map (alias -> canonical id), as byte substitutions that keep every varint's length:
    re-point an alias to another alias's key, to its own key, to a pool string that is no id; 2-cycles and 3-cycles.
    Only mutations changing at most 4 bytes are kept.  -> [(subs, [aliases to fetch])]"""
    f = next((x for x in fc.fields if x.fid == 3), None)
    if f is None:
        return []
    pl = F.payload(fc.data, f)
    try:
        ents = M.idmap_entries(pl)
    except M.Bad:
        return []
    non_ids = {}
    for i, st in enumerate(fc.pool):
        if st not in fc.all_ids:
            non_ids.setdefault(len(M.enc_varint(i)), i)
    out = []
    seen = set()

    def add(changes):
        """changes: [(entry index, new value index)]"""
        subs = []
        for ei, t in changes:
            _ko, _kl, _k, vo, vl, v = ents[ei]
            enc = M.enc_varint(t)
            if len(enc) != vl:
                return
            for n in range(vl):
                if enc[n] != pl[vo + n]:
                    subs.append((f.payload_start + vo + n, enc[n]))
        subs = tuple(sorted(subs))
        if not 1 <= len(subs) <= 4 or subs in seen:
            return
        seen.add(subs)
        out.append((subs, [fc.pool[ents[ei][2]] for ei, _t in changes]))
    n = len(ents)
    gaps = (1, 2, 5) if tier == "quick" else tuple(range(1, 13))
    for i in range(n):
        k_i = ents[i][2]
        add([(i, ents[(i + 1) % n][2])])                 # chain: alias -> another alias
        add([(i, k_i)])                                  # self-loop
        for t in non_ids.values():
            add([(i, t)])                                # alias -> a string that is no id at all
        for g in gaps:
            j = (i + g) % n
            if j != i:
                add([(i, ents[j][2]), (j, k_i)])         # 2-cycle
        j, k = (i + 1) % n, (i + 2) % n
        if len({i, j, k}) == 3:
            add([(i, ents[j][2]), (j, ents[k][2]), (k, k_i)])   # 3-cycle
    return out


def poolstr_faults(fc, tier):
    """string-level faults on the pool strings that are ids: a meaningful token written over the first or the last
    characters (same length, at most 4 bytes changed).  quick: ids of fixed zones and of aliases to them; thorough: every id."""
    f = fc.fields[0]
    if f.fid != 0:
        return []
    pl = F.payload(fc.data, f)
    try:
        ents = M.pool_entries(pl)
    except M.Bad:
        return []
    fixed = set()
    for x in fc.fields:
        if x.fid == 1 and set(fc.roles.get(x.index, {}).values()) & {"fixed-offset"}:
            fixed.add(fc.zone_id[x.index])
    targets = set(fc.all_ids) if tier != "quick" else (fixed | {a for a, c in fc.idmap.items() if c in fixed})
    out = []
    seen = set()
    for idx, st in enumerate(fc.pool):
        if st not in targets:
            continue
        off, n = ents[idx]
        raw = pl[off:off + n]
        for tok in TOKENS:
            t = tok.encode()
            if len(t) > n:
                continue
            for mut in (t + raw[len(t):], raw[:n - len(t)] + t):
                subs = tuple((f.payload_start + off + i, mut[i]) for i in range(n) if mut[i] != raw[i])
                if 1 <= len(subs) <= 4 and subs not in seen:
                    seen.add(subs)
                    out.append((subs, None))
    return out


def value_plan(fc, fi, tier, whole, seam_ok):
    """shards of value-level faults for one file"""
    zf = [f for f in fc.fields if f.fid == 1]
    donor = None
    for f in zf:
        pl = F.payload(fc.data, f)
        try:
            els = M.zone_field_elements(pl, fc.pool)
        except M.Bad:
            continue
        fl = [e for e in els if e[2] == "tail-flag" and e[3] == 1]
        if fl:
            donor = pl[fl[0][1]:]
            break
    whole_idx = {f.index for f in whole}
    faults = []
    seen = set()
    for f in zf:
        modes = ["lite"] if tier == "quick" else ["mid", "markers"]
        if f.index in whole_idx:
            modes.append("full")
        for m in modes:
            for v in value_faults(fc, f, m, donor):
                if v not in seen:
                    seen.add(v)
                    faults.append(v)
    for f in fc.fields:
        if f.fid in (0, 2, 3, 4, 6, 7):
            # the string pool costs a full re-feed of all fields per execution: lite there in both tiers
            mode = "full" if (tier != "quick" and f.fid != 0) else "lite"
            for v in nonzone_value_faults(fc, f, mode):
                if v not in seen:
                    seen.add(v)
                    faults.append(v)
    per = 150 if seam_ok else 30
    if not seam_ok:
        faults = faults[::8]
    items = [("value", fi, faults[i:i + per], seam_ok) for i in range(0, len(faults), per)]
    if seam_ok:
        eq = []
        for f in zf[::16]:
            eq += [v for v in value_faults(fc, f, "lite", donor) if v[0] == f.index][:4]
        for f in fc.fields:
            if f.fid in (0, 2, 3, 4, 6, 7):
                eq += nonzone_value_faults(fc, f, "lite")[:6]
        items += [("vequiv", fi, eq[i:i + 12], True) for i in range(0, len(eq), 12)]
    return items, len(faults)


def _is_tailed(fc, f):
    try:
        _zid, kind, body = M.Dec(F.payload(fc.data, f), fc.pool).zone_field()
        return kind == "precalc" and body[2] is not None
    except M.Bad:
        return False


# ---------------------------------------------------------------------------------------------- driver

def run(ctx):
    global _FILES
    ctx.rule = ("an execution is non-trivial when the damage was observed: some call raised, or the id set differs from the "
                "undamaged file's; outcomes are (call, result class) pairs")
    ctx.assumptions = [
        "fault alphabet: Trunc, Del, Ins(0x80), Sub with {0x00, 0xFF, orig^1, orig^0x80}, Sub^k (k<=4) inside 6-byte framing windows, "
        "two maximal-length Sub^4 per field, role-aware Sub values on zone payloads (all month / flag / day-of-month codes of the "
        "tail rules; orig+-1, orig+-2, 0x7F, 0x80, 1..12; all 256 values on the tail bytes of chosen zones)",
        "a single substitution strictly inside one field's payload can only change that field's handler and zones decoded from "
        "that field (string pool: every handler) - checked on the seam-equivalence subset, which runs both seams",
        "string-pool strings are opaque to zone decoding: at most 6 (quick) / 24 (thorough) dependent zones are fetched per pool or id-map fault (cap reported)",
        "prompt = every call returns within %.0f s of CPU time (nominal load 25 ms; CPU time so that a busy machine cannot fake a hang; "
        "a time-out is reported only if it repeats) and within %d MiB above the worker's footprint" % (TIME_LIMIT_S, MEM_EXTRA >> 20),
    ]
    if _BIND_ERROR:
        ctx.degrade("loader not reachable (%s): nothing checked" % _BIND_ERROR)
        return
    files = nzd_files()
    if len(files) < 2:
        ctx.degrade("only %d of the 2 database files found" % len(files))
    _FILES = [FileCtx(n, p) for n, p in files]
    global MAX_DEP_IDS
    MAX_DEP_IDS = 6 if ctx.tier == "quick" else 24
    seam_ok = _SEAM_ERROR is None
    if seam_ok:
        try:
            for fc in _FILES:
                fc.prepare_seam()
                f0 = fc.fields[1]
                src = fc.seam_load(1, F.payload(fc.data, f0))
                pub = TzdbDateTimeZoneSource.from_stream(io.BytesIO(fc.data))
                if set(src.get_ids()) != set(pub.get_ids()) or src.version_id != pub.version_id or set(pub.get_ids()) != fc.all_ids:
                    raise RuntimeError("seam self-test: ids / version differ from the public load")
        except Exception as e:  # noqa: BLE001
            seam_ok = False
            ctx.degrade("field seam unusable (%s: %s): payload faults reduced and sent through from_stream" % (type(e).__name__, str(e)[:120]))
    else:
        ctx.degrade("field seam unusable (%s): payload faults reduced and sent through from_stream" % _SEAM_ERROR)
    # undamaged baseline must be clean, otherwise nothing below means anything
    base = Acc()
    _ORIG_AS = resource.getrlimit(resource.RLIMIT_AS)
    init_limits()
    for fc in _FILES:
        ex = run_public(base, fc, ("S", ()), lambda ids: ids)
        account(base, ex)
        if ex.observed:
            ctx.degrade("the undamaged file %s does not load cleanly" % fc.name)
    wd = watchdog_selftest()
    base.note("watchdog_selftest", {"spin_interrupted": wd[0], "3GiB_allocation_refused": wd[1]})
    if not wd[0]:
        ctx.degrade("watchdog timer did not interrupt a spinning call: hangs would stall the check instead of being reported")
    if not wd[1]:
        ctx.degrade("RLIMIT_AS not effective: memory exhaustion is not detected")
    ctx.merge_part("baseline", base)
    # the limit was armed in this (the driver) process for the baseline and the self-test only: lift it again, every worker
    # arms its own at its first shard (measured after the fork, so the enumeration plan held in memory does not count)
    global _LIMITS_SET
    try:
        resource.setrlimit(resource.RLIMIT_AS, _ORIG_AS)
    except (ValueError, OSError):
        pass
    _LIMITS_SET = False
    notes = {}
    items = plan(ctx.tier, ctx.seed, seam_ok, notes)
    only = getattr(ctx, "only", None)
    if only:
        items = [it for it in items if it[0] in only]
    rot = ctx.seed % max(1, len(items))
    items = items[rot:] + items[:rot]
    cpu = {}
    global ALL_HANGS
    import multiprocessing
    ALL_HANGS = multiprocessing.get_context("fork").Value("i", 0)
    for kind, acc in pmap(shard, items):
        cpu[kind] = cpu.get(kind, 0) + acc.notes.pop("cpu_s", 0)
        ctx.merge_part(kind, acc)
    ctx.note("cpu_seconds_by_operator", {k: round(v, 1) for k, v in cpu.items()})
    for k, v in notes.items():
        ctx.note(k, v)
    ctx.note("files", {fc.name: {"bytes": len(fc.data), "fields": len(fc.fields), "zone_fields": len(fc.zone_id)} for fc in _FILES})
    # the declared space (every prefix, every k<=4 corruption at every position) is far larger than what is enumerated
    ctx.exhaustive = False


def replay(rec):
    global _FILES
    case = rec.get("case") or {}
    if not _FILES:
        _FILES = [FileCtx(n, p) for n, p in nzd_files()]
    fc = next((f for f in _FILES if f.name == case.get("file")), None)
    if fc is None or "fault" not in case:
        return False
    fl = case["fault"]
    fault = (fl[0], tuple(tuple(x) for x in fl[1])) if fl[0] in ("S", "X") else tuple(fl)
    init_limits()
    acc = Acc()
    zid = case.get("id")
    run_public(acc, fc, fault, (lambda ids: [zid] if zid in ids else []) if zid else (lambda ids: ids))
    for k, v in acc.violations.items():
        print(k, v[0])
    call = "C20/%s/" % case.get("call")
    return rec.get("key") in acc.violations or any(k.startswith(call) for k in acc.violations)
