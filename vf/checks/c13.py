"""C13 - results do not depend on call history or on concurrent use.

Histories: explicit-state exploration of all query histories up to a depth over alphabets that force cache
collisions; oracle = the answer of the same query asked first on a fresh object/cache (and calref where available).
Schedules: preemption-bounded exploration of real threads colliding on shared caches / lazy singletons.
"""
from __future__ import annotations

import hashlib
import io
import itertools
import os

from vf.core import sched

sched.install_lock_factory()

from pyoda_time import CalendarSystem, DateTimeZone, DateTimeZoneProviders, Instant, LocalDate, Offset  # noqa: E402
from pyoda_time.calendars import HebrewMonthNumbering, IslamicEpoch, IslamicLeapYearPattern  # noqa: E402
from pyoda_time.time_zones import DateTimeZoneCache  # noqa: E402
from pyoda_time.time_zones._tzdb_date_time_zone_source import TzdbDateTimeZoneSource  # noqa: E402

from vf.core import impl  # noqa: E402
from vf.core.evidence import Acc, exc_origin  # noqa: E402
from vf.core.par import pmap  # noqa: E402
from vf.models import calref  # noqa: E402

LEVEL = "model_checking"
NS_DAY = 86_400 * 10**9
EPOCH = Instant.from_unix_time_ticks(0)


def mk_instant(ns):
    return EPOCH.plus_nanoseconds(ns)


def ins_ns(i):
    return (i - EPOCH).to_nanoseconds()


# =================================================================================================
# (a) year-start caches
# =================================================================================================

def _find_year_caches(calc):
    """dicts of 1024 cache entries reachable from the calculator instance and its classes (private layout, best effort)"""
    found = []
    seen = set()
    holders = [calc] + list(type(calc).__mro__)
    # process-global caches held by helper classes of the calendars package (the Hebrew scriptural calculator)
    import sys as _sys
    for mname, mod in list(_sys.modules.items()):
        if mname.startswith("pyoda_time.calendars.") and mod is not None:
            for v in list(vars(mod).values()):
                if isinstance(v, type) and v.__module__ == mname and v not in holders:
                    holders.append(v)
    for h in holders:
        try:
            items = list(vars(h).items())
        except TypeError:
            continue
        for k, v in items:
            if isinstance(v, dict) and len(v) == 1024 and id(v) not in seen and "cache" in k.lower():
                seen.add(id(v))
                found.append(v)
    return found


def _reset_year_caches(caches):
    from pyoda_time.calendars._year_start_cache_entry import _YearStartCacheEntry
    for c in caches:
        c.update(_YearStartCacheEntry._create_cache())


def _year_query(cal, kind, y):
    if kind == "poison":
        # PUBLIC operations that must be rejected because they leave the calendar's range by a multiple of 2^17 years (the
        # year-start cache entry validates 7 bits above its 10 index bits, so such a year is indistinguishable from year y
        # inside the cache).  Each is expected to raise; whatever happens, no later in-range answer may change.
        # (Calling the private calculator methods with such years is NOT a supported operation and is not done here:
        # they trust their callers, and doing so was a false alarm of an earlier version of this check.)
        miy = cal.get_months_in_year(y)
        probes = [lambda: LocalDate(y, 1, 1, cal).plus_years(131072), lambda: LocalDate(y, 1, 1, cal).plus_years(-131072),
                  lambda: LocalDate(y, 2, 1, cal).plus_months(miy * 131072), lambda: LocalDate(y, 3, 1, cal).plus_months(-miy * 131072),
                  lambda: cal.get_days_in_month(y + 131072, 2), lambda: cal.get_days_in_year(y + 131072), lambda: cal.is_leap_year(y - 131072),
                  lambda: LocalDate(y + 131072, 1, 1, cal)]
        if cal.id.startswith("Hebrew") and y - 9 >= cal.min_year:
            # 6899 Metonic cycles = 131081 years: from year y-9 this lands on year y + 2^17
            probes += [lambda: LocalDate(y - 9, 2, 1, cal).plus_months(235 * 6899), lambda: LocalDate(y - 9, 3, 1, cal).plus_months(235 * 6899),
                       lambda: LocalDate(y - 9, 8, 1, cal).plus_months(235 * 6899), lambda: LocalDate(y - 9, 9, 1, cal).plus_months(235 * 6899)]
        for f in probes:
            try:
                f()
            except Exception:  # noqa: BLE001
                pass
        return "poison"
    if kind == "start":
        order_first = min(LocalDate(y, m, 1, cal) for m in range(1, cal.get_months_in_year(y) + 1))
        return impl.days_of(order_first)
    if kind == "shape":
        return (cal.get_days_in_year(y), bool(cal.is_leap_year(y)), tuple(cal.get_days_in_month(y, m) for m in range(1, cal.get_months_in_year(y) + 1)))
    raise AssertionError(kind)


def _year_alphabet(cal, slot_seed):
    lo, hi = cal.min_year, cal.max_year
    span = hi - lo
    base = lo + 1 + (slot_seed * 37 + 11) % max(1, min(span - 2, 1000))
    aliases = [y for y in range(base, hi, 1024)]
    if len(aliases) >= 3:
        a = [aliases[0], aliases[len(aliases) // 2], aliases[-1]]
    else:
        a = aliases + [min(hi - 1, base + 3)]
    years = []
    for y in a + [a[0] + 1, a[-1] + 1, a[0] - 1]:
        if lo <= y <= hi and y not in years:
            years.append(y)
    return [(k, y) for y in years[:5] for k in ("start", "shape")] + [("poison", years[0]), ("poison", years[1])]


def _year_alphabet_boundary(cal):
    """years on both sides of a 1024-slot boundary and their aliases one cache size away: the validator of a cache entry is
    (year >> 10), so y and y+1 straddling a multiple of 1024 are the years where slot index and validator interact"""
    lo, hi = cal.min_year, cal.max_year
    for Y in (1023, 2047, 3071, 5119):
        years = [y for y in (Y, Y + 1024, Y + 1, Y + 1025, Y - 1) if lo <= y <= hi]
        if len(years) == 5:
            alpha = [(k, y) for y in years for k in ("start", "shape")]
            alpha += [("poison", years[0]), ("poison", years[2]), ("poison", years[1])]
            return alpha
    return []


def _years_histories(arg):
    cal_id, depth, seed, boundary = arg
    acc = Acc()
    cal = CalendarSystem.for_id(cal_id)
    try:
        caches = _find_year_caches(cal._year_month_day_calculator)
    except Exception:  # noqa: BLE001
        caches = []
    if not caches:
        acc.degrade("year-start cache of %s not reachable: histories run on top of whatever earlier queries left behind" % cal_id)
    alpha = _year_alphabet_boundary(cal) if boundary else _year_alphabet(cal, seed)
    if not alpha:
        return acc
    ref = calref.for_id(cal_id)
    fresh = {}
    for sym in alpha:
        if caches:
            _reset_year_caches(caches)
        fresh[sym] = _year_query(cal, *sym)
        if ref is not None and sym[0] == "start" and (ref.valid_from_year is None or sym[1] >= ref.valid_from_year):
            if fresh[sym] != ref.year_start(sym[1]):
                acc.violation("C13/years/%s/fresh-vs-published/y%d" % (cal_id, sym[1]), "fresh answer %r differs from the published algorithm %r" % (fresh[sym], ref.year_start(sym[1])), {"calendar": cal_id, "query": sym})
    states = set()
    core = [a for a in alpha if a[0] != "poison"]
    poison = [a for a in alpha if a[0] == "poison"]

    def histories():
        for d in range(1, depth + 1):
            yield from itertools.product(core, repeat=d)
        # rejected out-of-range operations interposed before / between in-range queries
        for pz in poison:
            for q in core:
                yield (pz, q)
            for q1 in core:
                for q2 in core:
                    yield (q1, pz, q2)
    for _d in (0,):
        for hist in histories():
            if caches:
                _reset_year_caches(caches)
            acc.count(evaluations=1)
            for i, sym in enumerate(hist):
                acc.count(transitions=1)
                try:
                    got = _year_query(cal, *sym)
                except Exception as e:  # noqa: BLE001
                    acc.lib_exception("C13/years/%s" % cal_id, e, {"calendar": cal_id, "history": hist[:i + 1]})
                    break
                if got != fresh[sym]:
                    acc.violation("C13/years/%s/history-dependent/%s" % (cal_id, sym[0]),
                                  "after %r the query %r answers %r; asked first it answers %r" % (hist[:i], sym, got, fresh[sym]),
                                  {"kind": "years", "calendar": cal_id, "history": hist[:i + 1]}, py=_py_years(cal_id, hist[:i + 1], fresh[sym]))
                    break
            states.add(hist)
    acc.count(states=len(states), nontrivial=len(states))
    acc.outcome("years:%s:all-equal-fresh" % cal_id)
    acc.sample({"calendar": cal_id, "alphabet": alpha})
    return acc


def _py_years(cal_id, hist, expected):
    return ("from pyoda_time import CalendarSystem, LocalDate, Period\n\ndef test_replay():\n    cal = CalendarSystem.for_id(%r)\n"
            "    # queries ('start', y) = day number of the first day of year y; ('shape', y) = (days, leap, month lengths)\n"
            "    history = %r\n    # expected answer of the LAST query when asked first in a fresh interpreter: %r\n" % (cal_id, list(hist), expected))


# =================================================================================================
# (b) caching zone interval map
# =================================================================================================

def _fresh_cached_zone(zone_id):
    src = TzdbDateTimeZoneSource.default
    return src.for_id(zone_id)


def _underlying(zone):
    try:
        return zone._time_zone
    except Exception:  # noqa: BLE001
        return None


def _zi_key(zi):
    return (zi.name, zi.wall_offset.seconds, zi.savings.seconds, ins_ns(zi.start) if zi.has_start else None, ins_ns(zi.end) if zi.has_end else None)


def _zone_alphabet(zone_id):
    z = _fresh_cached_zone(zone_id)
    u = _underlying(z) or z
    # find a period (32 days) with >= 2 transitions if the zone has one, and an ordinary transition
    t = mk_instant(-80 * 365 * NS_DAY)
    multi = None
    trans = []
    zi = u.get_zone_interval(t)
    guard = 0
    while zi.has_end and guard < 400:
        guard += 1
        e = zi.end
        trans.append(ins_ns(e))
        nxt = u.get_zone_interval(e)
        if nxt.has_end and (ins_ns(nxt.end) // NS_DAY) >> 5 == (ins_ns(e) // NS_DAY) >> 5 and multi is None:
            multi = (ins_ns(e), ins_ns(nxt.end))
        zi = nxt
    picks = []
    if trans:
        T = trans[len(trans) // 2]
        p = (T // NS_DAY) >> 5
        picks += [T - 1, T, T + 1, (p << 5) * NS_DAY, (p << 5) * NS_DAY - 1, ((p + 512) << 5) * NS_DAY + NS_DAY, ((p + 1024) << 5) * NS_DAY + 5,
                  ((p - 512) << 5) * NS_DAY + 7]
    if multi:
        a, b = multi
        picks += [a - 1, a, b - 1, b, b + 3600 * 10**9]
        p = (a // NS_DAY) >> 5
        picks += [((p + 512) << 5) * NS_DAY + 9]
    picks += [ins_ns(Instant.min_value), ins_ns(Instant.max_value), 0]
    lo, hi = ins_ns(Instant.min_value), ins_ns(Instant.max_value)
    out = []
    for x in picks:
        if lo <= x <= hi and x not in out:
            out.append(x)
    return out, bool(multi)


def _zones_histories(arg):
    zone_id, depth, maxalpha = arg
    acc = Acc()
    alpha, has_multi = _zone_alphabet(zone_id)
    alpha = alpha[:maxalpha]
    base = _fresh_cached_zone(zone_id)
    under = _underlying(base)
    if under is None:
        acc.degrade("underlying zone of the caching wrapper not reachable: oracle is the first answer of a fresh wrapper only")
    try:
        from pyoda_time.time_zones._cached_date_time_zone import _CachedDateTimeZone

        def fresh():
            return _CachedDateTimeZone._for_zone(under) if under is not None else _fresh_cached_zone(zone_id)
        fresh()
    except Exception:  # noqa: BLE001
        def fresh():
            return _fresh_cached_zone(zone_id)
    expect = {}
    for ns in alpha:
        first = _zi_key(fresh().get_zone_interval(mk_instant(ns)))
        if under is not None:
            raw = _zi_key(under.get_zone_interval(mk_instant(ns)))
            if raw != first:
                acc.violation("C13/zonecache/%s/cached-vs-underlying" % zone_id, "fresh caching zone answers %r at %d ns, underlying zone %r" % (first, ns, raw),
                              {"kind": "zonecache", "zone": zone_id, "history": [ns]})
            first = raw
        expect[ns] = first
        s, e = first[3], first[4]
        if not ((s is None or s <= ns) and (e is None or ns < e)):
            acc.violation("C13/zonecache/%s/not-containing" % zone_id, "interval %r does not contain %d" % (first, ns), {"zone": zone_id, "history": [ns]})
    n_hist = 0
    for d in range(1, depth + 1):
        for hist in itertools.product(alpha, repeat=d):
            z = fresh()
            n_hist += 1
            acc.count(evaluations=1)
            for i, ns in enumerate(hist):
                acc.count(transitions=1)
                try:
                    inst = mk_instant(ns)
                    got = _zi_key(z.get_zone_interval(inst))
                    off = z.get_utc_offset(inst).seconds
                except Exception as e:  # noqa: BLE001
                    acc.lib_exception("C13/zonecache/%s" % zone_id, e, {"zone": zone_id, "history": hist[:i + 1]})
                    break
                if got != expect[ns] or off != expect[ns][1]:
                    acc.violation("C13/zonecache/%s/history-dependent" % zone_id,
                                  "after lookups %r the caching zone answers %r (offset %d) at %d ns; the underlying zone says %r" % (hist[:i], got, off, ns, expect[ns]),
                                  {"kind": "zonecache", "zone": zone_id, "history": list(hist[:i + 1])}, py=_py_zone(zone_id, hist[:i + 1]))
                    break
    acc.count(states=n_hist, nontrivial=n_hist)
    acc.outcome("zonecache:%s:multi-transition-period=%s" % (zone_id, has_multi))
    acc.sample({"zone": zone_id, "instants_ns": alpha[:8], "period_with_two_transitions": has_multi})
    return acc


def _py_zone(zone_id, hist):
    return ("from pyoda_time import Instant\nfrom pyoda_time.time_zones import TzdbDateTimeZoneSource\n\ndef test_replay():\n"
            "    z = TzdbDateTimeZoneSource.default.for_id(%r)\n    epoch = Instant.from_unix_time_ticks(0)\n    hist = %r\n"
            "    for ns in hist[:-1]:\n        z.get_zone_interval(epoch.plus_nanoseconds(ns))\n"
            "    got = z.get_zone_interval(epoch.plus_nanoseconds(hist[-1]))\n"
            "    fresh = TzdbDateTimeZoneSource.default.for_id(%r).get_zone_interval(epoch.plus_nanoseconds(hist[-1]))\n    assert got == fresh\n" % (zone_id, list(hist), zone_id))


# =================================================================================================
# (c) _Cache and the format-info cache
# =================================================================================================

def _cache_histories(arg):
    size, depth = arg
    acc = Acc()
    try:
        from pyoda_time.utility._cache import _Cache
    except Exception:  # noqa: BLE001
        acc.degrade("utility._cache._Cache not importable")
        return acc
    keys = ["a", "b", "c", "d", "e"]
    n = 0
    for d in range(1, depth + 1):
        for hist in itertools.product(keys, repeat=d):
            calls = []

            def factory(k, calls=calls):
                calls.append(k)
                return ("value-of", k)
            c = _Cache(size, factory)
            n += 1
            acc.count(evaluations=1)
            for i, k in enumerate(hist):
                acc.count(transitions=1)
                try:
                    v = c.get_or_add(k)
                    cnt = c.count()
                    ks = c.keys()
                except Exception as e:  # noqa: BLE001
                    acc.lib_exception("C13/cache", e, {"size": size, "history": hist[:i + 1]})
                    break
                if v != ("value-of", k):
                    acc.violation("C13/cache/wrong-value", "get_or_add(%r) after %r returned %r" % (k, hist[:i], v), {"kind": "cache", "size": size, "history": list(hist[:i + 1])})
                    break
                if cnt > size or k not in ks or len(set(ks)) != len(ks):
                    acc.violation("C13/cache/incoherent", "after %r: count %d (size %d), keys %r" % (hist[:i + 1], cnt, size, ks), {"kind": "cache", "size": size, "history": list(hist[:i + 1])})
                    break
    acc.count(states=n, nontrivial=n)
    acc.outcome("cache:size%d" % size)
    return acc


def _format_info_history(acc: Acc, limit=None):
    try:
        from pyoda_time._compatibility._culture_info import CultureInfo
        from pyoda_time._compatibility._culture_types import CultureTypes
        from pyoda_time.globalization._pyoda_format_info import _PyodaFormatInfo
    except Exception:  # noqa: BLE001
        acc.degrade("format-info internals not importable")
        return
    cultures = list(CultureInfo.get_cultures(CultureTypes.ALL_CULTURES))
    if limit:
        cultures = cultures[:limit]

    def snap(fi):
        return (tuple(fi.long_month_names), tuple(fi.short_month_names), tuple(fi.long_day_names), tuple(fi.short_day_names),
                fi.am_designator, fi.pm_designator, fi.date_separator, fi.time_separator, fi.culture_info.name)
    first = {}
    for c in cultures:
        try:
            fi = _PyodaFormatInfo._get_format_info(c)
            first[c.name] = snap(fi)
            acc.count(states=1, transitions=1, evaluations=1)
        except Exception as e:  # noqa: BLE001
            acc.lib_exception("C13/formatinfo/first-pass", e, {"culture": c.name})
    # second pass in a different order: by now the 500-entry cache has evicted the early ones
    for c in list(reversed(cultures))[::3] + cultures[:120]:
        try:
            fi = _PyodaFormatInfo._get_format_info(c)
            acc.count(transitions=1, evaluations=1)
            if c.name in first and snap(fi) != first[c.name]:
                acc.violation("C13/formatinfo/history-dependent/%s" % c.name, "format info of culture %s differs after the cache was cycled" % c.name, {"culture": c.name})
            if fi.culture_info.name != c.name:
                acc.violation("C13/formatinfo/wrong-culture", "asked for %s, got the format info of %s" % (c.name, fi.culture_info.name), {"culture": c.name})
        except Exception as e:  # noqa: BLE001
            acc.lib_exception("C13/formatinfo/second-pass", e, {"culture": c.name})
    acc.count(nontrivial=len(first))
    acc.outcome("formatinfo:cultures=%d" % len(first))
    acc.sample({"cultures_touched": len(cultures), "cache_size": 500})


# =================================================================================================
# (d) provider lookups, (e) calendar singletons
# =================================================================================================

def _provider_histories(depth):
    acc = Acc()
    src = TzdbDateTimeZoneSource.default
    alpha = [("item", "Europe/London"), ("item", "GB"), ("get", "Europe/London"), ("get", "GB"), ("item", "UTC+01"), ("get", "UTC+01"),
             ("get", "Nowhere/Land"), ("item", "Nowhere/Land"), ("ids",), ("item", "UTC"), ("get", "Etc/UTC")]
    probes = [mk_instant(x) for x in (0, 1_616_893_200 * 10**9, 1_616_893_200 * 10**9 - 1, -10**18)]
    ref_cache = DateTimeZoneCache(src)
    ref_ids = list(ref_cache.ids)
    canon = ref_cache["Europe/London"]
    canon_data = [_zi_key(canon.get_zone_interval(p)) for p in probes]
    n = 0
    for d in range(1, depth + 1):
        for hist in itertools.product(alpha, repeat=d):
            cache = DateTimeZoneCache(src)
            seen = {}
            n += 1
            acc.count(evaluations=1)
            for i, op in enumerate(hist):
                acc.count(transitions=1)
                try:
                    if op[0] == "ids":
                        if list(cache.ids) != ref_ids:
                            acc.violation("C13/provider/ids-unstable", "ids changed after %r" % (hist[:i],), {"kind": "provider", "history": list(hist[:i + 1])})
                        continue
                    zid = op[1]
                    try:
                        z = cache[zid] if op[0] == "item" else cache.get_zone_or_none(zid)
                    except Exception as e:  # noqa: BLE001
                        if zid == "Nowhere/Land" and op[0] == "item" and type(e).__name__ == "DateTimeZoneNotFoundError":
                            continue
                        raise
                    if zid == "Nowhere/Land":
                        if z is not None:
                            acc.violation("C13/provider/unknown-id", "unknown id resolved to %r after %r" % (z, hist[:i]), {"kind": "provider", "history": list(hist[:i + 1])})
                        continue
                    if z is None:
                        acc.violation("C13/provider/known-id-none", "%r returned None after %r" % (op, hist[:i]), {"kind": "provider", "history": list(hist[:i + 1])})
                        break
                    if z.id != zid and not (zid == "Etc/UTC" and z.id in ("Etc/UTC", "UTC")):
                        acc.violation("C13/provider/wrong-id/%s" % zid, "lookup of %s after %r returned a zone with id %s" % (zid, hist[:i], z.id), {"kind": "provider", "history": list(hist[:i + 1])})
                        break
                    if zid in seen and not zid.startswith("UTC") and seen[zid] is not z:
                        acc.violation("C13/provider/not-same-object/%s" % zid, "repeated lookup of %s returned a different zone object (history %r)" % (zid, hist[:i + 1]), {"kind": "provider", "history": list(hist[:i + 1])})
                        break
                    seen[zid] = z
                    if zid in ("Europe/London", "GB"):
                        data = [_zi_key(z.get_zone_interval(p)) for p in probes]
                        if data != canon_data:
                            acc.violation("C13/provider/data/%s" % zid, "zone %s after %r does not carry Europe/London's data" % (zid, hist[:i]), {"kind": "provider", "history": list(hist[:i + 1])})
                            break
                    if zid == "UTC+01" and z.get_utc_offset(probes[0]).seconds != 3600:
                        acc.violation("C13/provider/fixed", "UTC+01 has offset %d" % z.get_utc_offset(probes[0]).seconds, {"kind": "provider", "history": list(hist[:i + 1])})
                except Exception as e:  # noqa: BLE001
                    acc.lib_exception("C13/provider", e, {"history": list(hist[:i + 1])})
                    break
    acc.count(states=n, nontrivial=n)
    acc.outcome("provider")
    acc.sample({"provider_alphabet": alpha})
    return acc


class _AliasingSource:
    """a conforming IDateTimeZoneSource whose for_id returns, for an alias, a zone carrying the canonical id (explicitly
    permitted by the interface) and a fresh object on every call (also permitted)"""

    def __init__(self):
        self.real = TzdbDateTimeZoneSource.default
        self.calls = []

    @property
    def version_id(self):
        return "vf-aliasing-source"

    def get_ids(self):
        return ["Canon/London", "Alias/London", "Canon/Paris"]

    def get_system_default_id(self):
        return None

    def for_id(self, id_):
        self.calls.append(id_)
        return self.real.for_id({"Canon/London": "Europe/London", "Alias/London": "Europe/London", "Canon/Paris": "Europe/Paris"}[id_])


def _provider_histories_custom(depth):
    """provider semantics over a source that makes use of the freedoms the interface grants"""
    acc = Acc()
    alpha = [("item", "Alias/London"), ("get", "Alias/London"), ("item", "Canon/London"), ("get", "Canon/London"), ("item", "Canon/Paris"),
             ("get", "Europe/London"), ("item", "UTC+02")]
    probes = [mk_instant(x) for x in (0, 1_616_893_200 * 10**9)]
    n = 0
    for d in range(1, depth + 1):
        for hist in itertools.product(alpha, repeat=d):
            src = _AliasingSource()
            cache = DateTimeZoneCache(src)
            seen = {}
            n += 1
            acc.count(evaluations=1)
            for i, (kind, zid) in enumerate(hist):
                acc.count(transitions=1)
                try:
                    z = cache[zid] if kind == "item" else cache.get_zone_or_none(zid)
                except Exception as e:  # noqa: BLE001
                    acc.lib_exception("C13/provider-custom", e, {"history": list(hist[:i + 1])})
                    break
                if zid == "Europe/London":
                    # not advertised by this source: must stay unknown whatever was asked before
                    if z is not None:
                        acc.violation("C13/provider-custom/unadvertised-id-resolved", "id Europe/London is not advertised by the source but resolved after %r" % (hist[:i],),
                                      {"kind": "provider-custom", "history": list(hist[:i + 1])})
                        break
                    continue
                if z is None:
                    acc.violation("C13/provider-custom/known-id-none", "%r returned None after %r" % ((kind, zid), hist[:i]), {"kind": "provider-custom", "history": list(hist[:i + 1])})
                    break
                if zid in seen and not zid.startswith("UTC") and seen[zid] is not z:
                    acc.violation("C13/provider-custom/not-same-object/%s" % zid, "repeated lookup of %s returned a different zone object (history %r); source calls %r" % (zid, hist[:i + 1], src.calls),
                                  {"kind": "provider-custom", "history": list(hist[:i + 1])})
                    break
                seen[zid] = z
                exp_off = 7200 if zid == "UTC+02" else None
                if exp_off is not None and z.get_utc_offset(probes[0]).seconds != exp_off:
                    acc.violation("C13/provider-custom/fixed", "UTC+02 has offset %d" % z.get_utc_offset(probes[0]).seconds, {"history": list(hist[:i + 1])})
            if len(src.calls) != len(set(src.calls)):
                acc.outcome("provider-custom:source-consulted-more-than-once")   # allowed; recorded only
    acc.count(states=n, nontrivial=n)
    acc.outcome("provider-custom")
    return acc


def _fixed_zone_histories(depth):
    """DateTimeZone.for_offset / utc / tzdb: lazily built fixed-zone table and singletons; any order of requests gives
    zones with exactly the requested offset and the documented id, equal to a freshly computed answer"""
    acc = Acc()
    import pyoda_time._date_time_zone as dtz
    secs = [0, 1800, -1800, 3600, -43200, -43200 - 1800, 54000, 54000 + 1800, 64800, -64800, 1, 3599, 45 * 60]
    probe = mk_instant(0)

    def reset():
        try:
            setattr(DateTimeZone, "_DateTimeZone__fixed_zone_cache", None)
            setattr(dtz._DateTimeZoneMeta, "_DateTimeZoneMeta__utc", None)
            return True
        except Exception:  # noqa: BLE001
            return False
    can_reset = reset()
    if not can_reset:
        acc.degrade("fixed-zone table not resettable: histories run on the already built table")
    def doc_id(sec):
        # documented id of a fixed zone: "UTC", else "UTC" + sign + hh[:mm[:ss]] (independent of any culture)
        if sec == 0:
            return "UTC"
        a = abs(sec)
        h, m, s_ = a // 3600, a // 60 % 60, a % 60
        return "UTC" + ("+" if sec > 0 else "-") + "%02d" % h + (":%02d" % m if (m or s_) else "") + (":%02d" % s_ if s_ else "")
    from pyoda_time._compatibility._culture_info import CultureInfo
    saved_culture = CultureInfo.current_culture
    n = 0
    # ambient answer: the process's current culture (invariant by default; fi-FI and da-DK write times with '.', ar-SA has its own signs)
    for cname in ("", "fi-FI", "da-DK", "ar-SA"):
        try:
            CultureInfo.current_culture = CultureInfo(cname) if cname else CultureInfo.invariant_culture
        except Exception:  # noqa: BLE001
            continue
        try:
            for d in range(1, (depth if not cname else min(depth, 2)) + 1):
                for hist in itertools.product(secs, repeat=d):
                    if can_reset:
                        reset()
                    n += 1
                    acc.count(evaluations=1)
                    for i, sec in enumerate(hist):
                        acc.count(transitions=1)
                        try:
                            off = Offset.from_seconds(sec)
                            z = DateTimeZone.for_offset(off)
                            back = DateTimeZoneProviders.tzdb.get_zone_or_none(z.id)
                            got = (z.get_utc_offset(probe).seconds, z.id, z.min_offset.seconds, z.max_offset.seconds, z == DateTimeZone.for_offset(off),
                                   (z == DateTimeZone.utc) == (sec == 0), back is not None and back == z)
                            exp = (sec, doc_id(sec), sec, sec, True, True, True)
                            if got != exp:
                                acc.violation("C13/fixed-zones/history-dependent%s" % ("/culture=" + cname if cname else ""),
                                              "%safter for_offset requests %r, for_offset(%d s) gives %r, expected %r (last field: the provider resolves the zone's own id back to it)" % (
                                                  ("[current culture %s] " % cname) if cname else "", hist[:i], sec, got, exp),
                                              {"kind": "fixed-zones", "history": list(hist[:i + 1]), "culture": cname})
                                break
                        except Exception as e:  # noqa: BLE001
                            acc.lib_exception("C13/fixed-zones", e, {"history": list(hist[:i + 1]), "culture": cname})
                            break
        finally:
            CultureInfo.current_culture = saved_culture
    acc.count(states=n, nontrivial=n)
    acc.outcome("fixed-zones")
    acc.sample({"for_offset_seconds_alphabet": secs, "depth": depth})
    return acc


def _pattern_lookup_histories(depth):
    """pattern creation through a cached (read-only) culture goes through the format-info cache and its per-type pattern
    cache: whatever sibling pattern texts were created before, a created pattern must behave like one created through a
    fresh, uncached culture object"""
    acc = Acc()
    try:
        from pyoda_time._compatibility._culture_info import CultureInfo
        from pyoda_time.globalization._pyoda_format_info import _PyodaFormatInfo
        from pyoda_time.text import LocalDatePattern, LocalTimePattern
        from pyoda_time import LocalTime
    except Exception:  # noqa: BLE001
        acc.degrade("culture / pattern internals not importable")
        return acc
    d, t = LocalDate(2024, 3, 7), LocalTime(13, 45, 7)
    alpha = [("date", "d"), ("date", " d"), ("date", "d "), ("date", "D"), ("date", "dd"), ("date", "yyyy-MM-dd"), ("date", "yyyy-MM-dd "),
             ("time", "HH:mm"), ("time", "HH:mm "), ("time", " HH:mm"), ("time", "t"), ("time", "T")]

    def create(kind, text, culture):
        return (LocalDatePattern if kind == "date" else LocalTimePattern).create(text, culture)

    def observe(kind, pat):
        v = d if kind == "date" else t
        txt = pat.format(v)
        r = pat.parse(txt)
        return (txt, r.success, repr(r.value) if r.success else None, pat.pattern_text)
    fresh = {}
    for kind, text in alpha:
        try:
            fresh[(kind, text)] = observe(kind, create(kind, text, CultureInfo("en-US")))
        except Exception as e:  # noqa: BLE001
            fresh[(kind, text)] = ("raises", type(e).__name__)

    def clear():
        try:
            _PyodaFormatInfo._PyodaFormatInfo__CACHE.clear()
            return True
        except Exception:  # noqa: BLE001
            return False
    if not clear():
        acc.degrade("format-info cache not clearable: pattern lookup histories run on top of earlier lookups")
    n = 0
    for dlen in range(1, depth + 1):
        for hist in itertools.product(alpha, repeat=dlen):
            clear()
            culture = CultureInfo.get_culture_info("en-US")
            n += 1
            acc.count(evaluations=1)
            for i, (kind, text) in enumerate(hist):
                acc.count(transitions=1)
                try:
                    got = observe(kind, create(kind, text, culture))
                except Exception as e:  # noqa: BLE001
                    got = ("raises", type(e).__name__)
                if got != fresh[(kind, text)]:
                    acc.violation("C13/pattern-lookup/history-dependent/%s" % kind,
                                  "after creating patterns %r through the cached culture, pattern %r behaves as %r; created through a fresh culture it behaves as %r" % (hist[:i], text, got, fresh[(kind, text)]),
                                  {"kind": "pattern-lookup", "history": [list(h) for h in hist[:i + 1]]})
                    break
    acc.count(states=n, nontrivial=n)
    acc.outcome("pattern-lookup")
    acc.sample({"pattern_lookup_alphabet": alpha, "depth": depth})
    return acc


# ---- the tzdb source object itself: read-only questions in every order ---------------------------------------------------

_SRC_DATA = {}


def _source_bytes():
    if "d" not in _SRC_DATA:
        import pyoda_time as _pt
        with open(os.path.join(os.path.dirname(_pt.__file__), "time_zones", "Tzdb.nzd"), "rb") as f:
            _SRC_DATA["d"] = f.read()
    return _SRC_DATA["d"]


def _source_alphabet():
    known, alias, unknown = "Europe/London", "Europe/Jersey", "Nowhere/Atlantis"
    ids = (known, alias, unknown)

    def h(it):
        return hashlib.sha1(repr(list(it)).encode()).hexdigest()[:12]
    ops = []
    for zid in ids:
        ops.append(("aliases[%s]" % zid, lambda s, zid=zid: list(s.aliases[zid])))
        ops.append(("aliases.get(%s)" % zid, lambda s, zid=zid: (lambda v: None if v is None else list(v))(s.aliases.get(zid))))
        ops.append(("%s in aliases" % zid, lambda s, zid=zid: zid in s.aliases))
        ops.append(("canonical_id_map[%s]" % zid, lambda s, zid=zid: s.canonical_id_map[zid]))
        ops.append(("canonical_id_map.get(%s)" % zid, lambda s, zid=zid: s.canonical_id_map.get(zid)))
        ops.append(("for_id(%s)" % zid, lambda s, zid=zid: (lambda z: (z.id, z.get_utc_offset(mk_instant(1_720_000_000 * 10**9)).seconds))(s.for_id(zid))))
        ops.append(("tzdb_to_windows_ids.get(%s)" % zid, lambda s, zid=zid: s.tzdb_to_windows_ids.get(zid)))
    ops.append(("len+keys(aliases)", lambda s: (len(s.aliases), h(s.aliases), h(sorted(map(repr, s.aliases.items()))))))
    ops.append(("len+keys(canonical_id_map)", lambda s: (len(s.canonical_id_map), h(s.canonical_id_map.items()))))
    ops.append(("get_ids", lambda s: h(s.get_ids())))
    ops.append(("validate", lambda s: s.validate()))
    ops.append(("version_id", lambda s: (s.version_id, s.tzdb_version)))
    ops.append(("windows_to_tzdb_ids", lambda s: (len(s.windows_to_tzdb_ids), h(sorted(s.windows_to_tzdb_ids.items())), s.windows_to_tzdb_ids.get("GMT Standard Time"))))
    ops.append(("zone_locations", lambda s: None if s.zone_locations is None else (len(s.zone_locations), s.zone_locations[0].zone_id, len(s.zone_1970_locations or ()))))
    return ops


def _source_answer(fn, src):
    try:
        return ("ok", fn(src))
    except Exception as e:  # noqa: BLE001
        # a missing key answers with KeyError raised at the subscript itself, i.e. in this file: every exception is an
        # answer here; the fresh answers are listed in the evidence outcomes so that a harness slip would be visible
        return ("raises", type(e).__name__)


def _source_histories(arg):
    """every history of <= depth read-only questions to ONE TzdbDateTimeZoneSource built from the bundled bytes; each answer
    must equal the answer a fresh source gives when asked that question first"""
    first_idx, depth = arg
    from pyoda_time.time_zones._tzdb_date_time_zone_source import TzdbDateTimeZoneSource as _Src
    acc = Acc()
    ops = _source_alphabet()
    data = _source_bytes()
    fresh = {}
    for name, fn in ops:
        fresh[name] = _source_answer(fn, _Src.from_stream(io.BytesIO(data)))
    n = 0
    for d in range(1, depth + 1):
        for rest in itertools.product(range(len(ops)), repeat=d - 1):
            hist = (first_idx,) + rest
            src = _Src.from_stream(io.BytesIO(data))
            n += 1
            acc.count(evaluations=1)
            for i, k in enumerate(hist):
                name, fn = ops[k]
                acc.count(transitions=1)
                got = _source_answer(fn, src)
                if got != fresh[name]:
                    acc.violation("C13/tzdb-source/history-dependent/%s" % name,
                                  "after %r the question %s is answered %r; a fresh source answers %r" % ([ops[j][0] for j in hist[:i]], name, got, fresh[name]),
                                  {"kind": "tzdb-source", "history": [ops[j][0] for j in hist[:i + 1]]},
                                  _py_source([ops[j][0] for j in hist[:i + 1]]))
                    break
    acc.count(states=n, nontrivial=n)
    acc.outcome("tzdb-source:%d questions" % len(ops))
    if first_idx == 0:
        for name, _ in ops:
            acc.outcome("tzdb-source fresh answer %s => %s" % (name, fresh[name][0] if fresh[name][0] == "ok" else fresh[name]))
        acc.sample({"tzdb_source_alphabet": [o[0] for o in ops], "depth": depth})
    return acc


def _py_source(names):
    return ("# history of read-only questions to one TzdbDateTimeZoneSource; the last answer differs from a fresh source's\n"
            "def test_source_history():\n    import vf.checks.c13 as c\n    assert not c.replay({'case': {'kind': 'tzdb-source', 'history': %r}})\n" % (names,))



# ---- culture lookups by name: spelling variants in every order -------------------------------------------------------------

def _culture_name_histories(depth):
    """CultureInfo(name) / CultureInfo.get_culture_info(name) for spelling variants of a few names (the caches are keyed by
    the lower-cased name): every history up to the depth, both process-wide caches emptied before each history; the answer
    (name, month names, long date pattern) must equal the answer to the same question asked first"""
    from pyoda_time._compatibility._culture_data import _CultureData
    from pyoda_time._compatibility._culture_info import CultureInfo
    acc = Acc()
    names = ["cs-CZ", "Cs-CZ", "CS-CZ", "en-US", "EN-us", "fr-FR", "Fr-fr", "ca-ES", "Ca-ES", "C", "zh-Hans", "ZH-hans"]
    ops = [(k, n) for n in names for k in ("ctor", "get")]

    def reset():
        ok = True
        try:
            _CultureData._CultureData__s_cachedCultures = None
        except Exception:  # noqa: BLE001
            ok = False
        try:
            CultureInfo._CultureInfo__CACHED_CULTURES_BY_NAME.clear()
        except Exception:  # noqa: BLE001
            ok = False
        return ok

    def ask(op):
        kind, n = op
        try:
            c = CultureInfo(n) if kind == "ctor" else CultureInfo.get_culture_info(n)
            dtf = c.date_time_format
            return ("ok", c.name, tuple(dtf.month_names[:3]), dtf.long_date_pattern)
        except Exception as e:  # noqa: BLE001
            if exc_origin(e) == "harness":
                raise
            return ("raises", type(e).__name__)
    saved_data = getattr(_CultureData, "_CultureData__s_cachedCultures", None)
    saved_info = dict(getattr(CultureInfo, "_CultureInfo__CACHED_CULTURES_BY_NAME", {}))
    if not reset():
        acc.degrade("culture caches not reachable: culture-name histories not run")
        return acc
    fresh = {}
    for op in ops:
        reset()
        fresh[op] = ask(op)
    n = 0
    try:
        for d in range(2, depth + 1):
            for hist in itertools.product(ops, repeat=d):
                reset()
                n += 1
                acc.count(evaluations=1)
                for i, op in enumerate(hist):
                    acc.count(transitions=1)
                    got = ask(op)
                    if got != fresh[op]:
                        acc.violation("C13/culture-names/history-dependent/%s:%s" % op,
                                      "after %r, %s(%r) answers %r; asked first it answers %r" % (list(hist[:i]), op[0], op[1], got, fresh[op]),
                                      {"kind": "culture-names", "history": [list(h) for h in hist[:i + 1]]})
                        break
    finally:
        _CultureData._CultureData__s_cachedCultures = saved_data
        CultureInfo._CultureInfo__CACHED_CULTURES_BY_NAME.clear()
        CultureInfo._CultureInfo__CACHED_CULTURES_BY_NAME.update(saved_info)
    acc.count(states=n, nontrivial=n)
    acc.outcome("culture-names:%d questions" % len(ops))
    for op in ops:
        acc.outcome("culture-names fresh %s(%s) => %s" % (op[0], op[1], fresh[op][1] if fresh[op][0] == "ok" else fresh[op]))
    acc.sample({"culture_name_alphabet": [list(o) for o in ops], "depth": depth})
    return acc



# ---- a mutable culture: reads interleaved with writes ---------------------------------------------------------------------------

def _mutable_culture_ops():
    from pyoda_time import LocalDateTime, LocalTime
    from pyoda_time.text import LocalDatePattern, LocalDateTimePattern, LocalTimePattern
    ldt = LocalDateTime(2024, 3, 9, 17, 5, 42)
    gets = []
    for attr in ("full_date_time_pattern", "long_date_pattern", "long_time_pattern", "short_date_pattern", "short_time_pattern", "month_day_pattern",
                 "am_designator", "pm_designator"):
        gets.append(("get:" + attr, lambda c, attr=attr: getattr(c.date_time_format, attr)))
    for letter in "FfGg":
        gets.append(("ldt-pattern:" + letter, lambda c, letter=letter: LocalDateTimePattern.create(letter, c).format(ldt)))
    for letter in "Dd":
        gets.append(("date-pattern:" + letter, lambda c, letter=letter: LocalDatePattern.create(letter, c).format(ldt.date)))
    for letter in "Tt":
        gets.append(("time-pattern:" + letter, lambda c, letter=letter: LocalTimePattern.create(letter, c).format(LocalTime(17, 5, 42))))
    sets = []
    for attr, val in (("long_time_pattern", "HH'h'mm'm'ss"), ("short_time_pattern", "H'h'mm"), ("long_date_pattern", "yyyy MMMM dd"), ("short_date_pattern", "yy/M/d"),
                      ("am_designator", "a.m."), ("pm_designator", "p.m.")):
        sets.append(("set:" + attr, lambda c, attr=attr, val=val: setattr(c.date_time_format, attr, val)))
    return gets, sets


def _mutable_culture_histories(arg):
    """one mutable CultureInfo per history; reads (properties and standard patterns) interleaved with property writes; afterwards
    every read must answer as on a culture that received the same writes in the same order and was never read before"""
    first, depth, cname = arg
    from pyoda_time._compatibility._culture_info import CultureInfo
    acc = Acc()
    gets, sets = _mutable_culture_ops()
    ops = gets + sets
    nset = {n for n, _ in sets}

    def observe(c):
        out = []
        for n, fn in gets:
            try:
                out.append((n, fn(c)))
            except Exception as e:  # noqa: BLE001
                if exc_origin(e) == "harness":
                    raise
                out.append((n, "raises " + type(e).__name__))
        return out
    oracle = {}
    n = 0
    for d in range(1, depth + 1):
        for rest in itertools.product(range(len(ops)), repeat=d - 1):
            hist = (first,) + rest
            writes = tuple(k for k in hist if ops[k][0] in nset)
            if not writes or all(ops[k][0] in nset for k in hist):
                continue    # no write, or no read before a write: nothing a stale cached value could come from
            n += 1
            acc.count(evaluations=1, transitions=len(hist))
            c = CultureInfo(cname)
            try:
                for k in hist:
                    ops[k][1](c)
                got = observe(c)
                if writes not in oracle:
                    r = CultureInfo(cname)
                    for k in writes:
                        ops[k][1](r)
                    oracle[writes] = observe(r)
            except Exception as e:  # noqa: BLE001
                acc.lib_exception("C13/mutable-culture/%s" % cname, e, {"history": [ops[k][0] for k in hist]})
                continue
            if got != oracle[writes]:
                diff = [(a[0], a[1], b[1]) for a, b in zip(got, oracle[writes]) if a != b]
                acc.violation("C13/mutable-culture/stale-after-write/%s" % diff[0][0],
                              "culture %s after %r: %s answers %r; a culture that received only the writes %r answers %r" % (
                                  cname, [ops[k][0] for k in hist], diff[0][0], diff[0][1], [ops[k][0] for k in writes], diff[0][2]),
                              {"kind": "mutable-culture", "culture": cname, "history": [ops[k][0] for k in hist]})
    acc.count(states=n, nontrivial=n)
    acc.outcome("mutable-culture:%s" % cname)
    if first == 0:
        acc.sample({"mutable_culture_alphabet": [o[0] for o in ops], "depth": depth, "culture": cname})
    return acc



# ---- week-year rules: different rule objects asked one directly after the other ----------------------------------------

def _weekyear_cross_rule_histories(depth):
    """rule objects that agree in some parameters (same min-days / first day, regular vs BCL-style irregular weeks; equal but
    separately built rules), asked the same question about the same calendar and week-year one directly after the other: every
    sequence up to the depth; each answer must equal the answer given right after an unrelated question (a 'flush')"""
    from pyoda_time import IsoDayOfWeek
    from pyoda_time.calendars import CalendarWeekRule, WeekYearRules
    acc = Acc()
    rules = [("iso", WeekYearRules.iso),
             ("min4-monday", WeekYearRules.for_min_days_in_first_week(4, IsoDayOfWeek.MONDAY)),
             ("bcl-four-day-monday", WeekYearRules.from_calendar_week_rule(CalendarWeekRule.FIRST_FOUR_DAY_WEEK, IsoDayOfWeek.MONDAY)),
             ("min1-sunday", WeekYearRules.for_min_days_in_first_week(1, IsoDayOfWeek.SUNDAY)),
             ("bcl-first-day-sunday", WeekYearRules.from_calendar_week_rule(CalendarWeekRule.FIRST_DAY, IsoDayOfWeek.SUNDAY)),
             ("bcl-first-day-monday", WeekYearRules.from_calendar_week_rule(CalendarWeekRule.FIRST_DAY, IsoDayOfWeek.MONDAY))]
    cals = [CalendarSystem.iso, CalendarSystem.coptic]
    qs = []
    for rn, r in rules:
        for cal in cals:
            for y in ((2024, 2020) if cal is CalendarSystem.iso else (1740,)):
                last = LocalDate(y, cal.get_months_in_year(y), cal.get_days_in_month(y, cal.get_months_in_year(y)), cal).plus_days(-1)
                qs.append(("%s.weeks_in(%d,%s)" % (rn, y, cal.id), lambda r=r, y=y, cal=cal: r.get_weeks_in_week_year(y, cal)))
                qs.append(("%s.week_year+week(%s)" % (rn, last), lambda r=r, last=last: (r.get_week_year(last), r.get_week_of_week_year(last))))
                qs.append(("%s.get_local_date(%d,1,MONDAY,%s)" % (rn, y, cal.id),
                           lambda r=r, y=y, cal=cal: impl.days_of(r.get_local_date(y, 1, IsoDayOfWeek.MONDAY, cal))))
    flush_rule = WeekYearRules.for_min_days_in_first_week(7, IsoDayOfWeek.WEDNESDAY)

    def flush():
        flush_rule.get_weeks_in_week_year(1000, CalendarSystem.julian)
        flush_rule.get_week_year(LocalDate(1001, 6, 1, CalendarSystem.julian))

    def ask(fn):
        try:
            return ("ok", fn())
        except Exception as e:  # noqa: BLE001
            if exc_origin(e) == "harness":
                raise
            return ("raises", type(e).__name__)
    fresh = []
    for _, fn in qs:
        flush()
        fresh.append(ask(fn))
    n = 0
    for d in range(2, depth + 1):
        for hist in itertools.product(range(len(qs)), repeat=d):
            if len(set(hist)) == 1:
                continue
            flush()
            n += 1
            acc.count(evaluations=1, transitions=d)
            for i, k in enumerate(hist):
                got = ask(qs[k][1])
                if got != fresh[k]:
                    acc.violation("C13/weekyear-rules/depends-on-previous-question/%s" % qs[k][0].split("(")[0],
                                  "after %r, %s answers %r; after an unrelated question it answers %r" % ([qs[j][0] for j in hist[:i]], qs[k][0], got, fresh[k]),
                                  {"kind": "weekyear-cross-rule", "history": [qs[j][0] for j in hist[:i + 1]]})
                    break
    acc.count(states=n, nontrivial=n)
    acc.outcome("weekyear-cross-rule:%d questions" % len(qs))
    acc.sample({"weekyear_cross_rule_questions": [q[0] for q in qs][:10], "depth": depth})
    return acc



# ---- every year asked COLD (all caches just emptied) against the same year asked in a warm ascending pass ----------------------

def _cold_years_shard(arg):
    """differential oracle without a hand-written expected value: the year/month structure of year y read right after every
    reachable cache of the calendar was emptied must equal the one read during an ascending pass over the whole block
    (an entry type whose 'never written' marker is mistaken for a valid entry only shows on a cold slot)"""
    cal_id, y0, y1 = arg
    acc = Acc()
    cal = CalendarSystem.for_id(cal_id)
    caches = _find_year_caches(cal._year_month_day_calculator)
    if not caches:
        acc.degrade("calendar %s: no year caches reachable - cold/warm comparison not run" % cal_id)
        return acc

    def probe(y):
        try:
            miy = cal.get_months_in_year(y)
            start = impl.days_of(LocalDate(y, 1, 1, cal))
            return (cal.get_days_in_year(y), miy, tuple((impl.days_of(LocalDate(y, m, 1, cal)) - start, cal.get_days_in_month(y, m)) for m in range(1, miy + 1)),
                    impl.days_of(LocalDate(y, miy, cal.get_days_in_month(y, miy), cal)) - start)
        except Exception as e:  # noqa: BLE001
            if exc_origin(e) == "harness":
                raise
            return ("raises", type(e).__name__)
    _reset_year_caches(caches)
    warm = {y: probe(y) for y in range(y0, y1)}
    for y in range(y0, y1):
        _reset_year_caches(caches)
        cold = probe(y)
        acc.count(states=1, evaluations=1, transitions=2, nontrivial=1)
        if cold != warm[y]:
            acc.violation("C13/cold-years/%s" % cal_id, "year %d of %s read right after the caches were emptied gives %r; read during an ascending pass it gives %r" % (y, cal_id, cold, warm[y]),
                          {"kind": "cold-year", "calendar": cal_id, "year": y})
            break
    _reset_year_caches(caches)
    acc.outcome("cold-years:%s" % cal_id)
    return acc



def _calendar_routes():
    routes = []
    for cid in CalendarSystem.ids:
        routes.append((cid, "for_id", lambda cid=cid: CalendarSystem.for_id(cid)))
    for name in ("badi", "coptic", "gregorian", "islamic_bcl", "hebrew_civil", "hebrew_scriptural", "iso", "julian", "persian_arithmetic",
                 "persian_astronomical", "persian_simple", "um_al_qura"):
        try:
            cid = getattr(CalendarSystem, name).id
        except Exception:  # noqa: BLE001
            continue
        routes.append((cid, "prop:" + name, lambda name=name: getattr(CalendarSystem, name)))
    for num in HebrewMonthNumbering:
        cid = CalendarSystem.get_hebrew_calendar(num).id
        routes.append((cid, "hebrew:%s" % num.name, lambda num=num: CalendarSystem.get_hebrew_calendar(num)))
        # the factory range-checks int(month_numbering): plain ints are a working input on the unchanged tree
        try:
            # (a tree that refuses ints is not held to this route; one that accepts them must give the same calendar
            # as for the enum member - a different id is reported as wrong-id by the histories below)
            CalendarSystem.get_hebrew_calendar(int(num))
            routes.append((cid, "hebrew-int:%d" % int(num), lambda num=num: CalendarSystem.get_hebrew_calendar(int(num))))
        except (TypeError, ValueError):
            pass
    for pat in IslamicLeapYearPattern:
        for ep in IslamicEpoch:
            cid = CalendarSystem.get_islamic_calendar(pat, ep).id
            routes.append((cid, "islamic:%s:%s" % (pat.name, ep.name), lambda pat=pat, ep=ep: CalendarSystem.get_islamic_calendar(pat, ep)))
            try:
                CalendarSystem.get_islamic_calendar(int(pat), int(ep))
                routes.append((cid, "islamic-int:%d:%d" % (int(pat), int(ep)), lambda pat=pat, ep=ep: CalendarSystem.get_islamic_calendar(int(pat), int(ep))))
            except (TypeError, ValueError):
                pass
    return routes


def _calendar_registry():
    try:
        reg = CalendarSystem._CalendarSystem__CALENDAR_BY_ORDINAL
        return reg if isinstance(reg, dict) else None
    except Exception:  # noqa: BLE001
        return None


def _calendar_histories(acc: Acc):
    routes = _calendar_routes()
    by_id = {}
    for cid, name, fn in routes:
        by_id.setdefault(cid, []).append((name, fn))
    reg = _calendar_registry()
    if reg is None:
        acc.degrade("calendar registry not reachable: singleton check runs on the already initialised registry only")
    def probe(cal):
        y = max(cal.min_year, min(cal.max_year, 5783 if cal.id.startswith("Hebrew") else 1400))
        miy = cal.get_months_in_year(y)
        return tuple(impl.days_of(LocalDate(y, m, 1, cal)) for m in sorted({1, 2, min(7, miy), miy})) + (cal.get_days_in_month(y, 1), cal.get_days_in_month(y, miy))
    baseline = {cid: probe(CalendarSystem.for_id(cid)) for cid in by_id}
    n = 0
    for cid, rs in by_id.items():
        for perm in itertools.permutations(rs, min(len(rs), 3)):
            saved = None
            if reg is not None:
                saved = dict(reg)
                for k in [k for k, v in reg.items() if v.id == cid]:
                    del reg[k]
            try:
                objs = []
                for name, fn in perm:
                    acc.count(transitions=1)
                    objs.append((name, fn()))
                n += 1
                acc.count(evaluations=1)
                for name, o in objs:
                    if o.id != cid:
                        acc.violation("C13/calendars/wrong-id/%s" % cid, "route %s returned calendar %s" % (name, o.id), {"calendar": cid, "routes": [p[0] for p in perm]})
                    if o.id == cid and probe(o) != baseline[cid]:
                        acc.violation("C13/calendars/behaves-differently/%s" % cid, "calendar %s obtained first through %r maps dates differently from the one obtained at start-up: %r vs %r" % (cid, [p[0] for p in perm], probe(o), baseline[cid]),
                                      {"calendar": cid, "routes": [p[0] for p in perm]})
                    if o is not objs[0][1]:
                        acc.violation("C13/calendars/not-singleton/%s" % cid, "routes %r returned distinct objects for %s" % ([p[0] for p in perm], cid), {"calendar": cid, "routes": [p[0] for p in perm]})
            except Exception as e:  # noqa: BLE001
                acc.lib_exception("C13/calendars/%s" % cid, e, {"calendar": cid})
            finally:
                if saved is not None:
                    reg.clear()
                    reg.update(saved)
    acc.count(states=n, nontrivial=n)
    acc.outcome("calendars:ids=%d" % len(by_id))
    acc.sample({"calendar_routes": [r[1] for r in routes][:12]})


# =================================================================================================
# schedules
# =================================================================================================

def _outcome_errors(s):
    for e in s.errors:
        if e is not None and not isinstance(e, sched.Abort):
            if exc_origin(e) == "harness":
                raise e
            return e
    return None


def H_years(cal_id):
    cal = CalendarSystem.for_id(cal_id)
    calc = cal._year_month_day_calculator
    caches = _find_year_caches(calc)
    alpha = _year_alphabet(cal, 5)
    y1 = alpha[0][1]
    al = [y for k, y in alpha if k == "start" and y != y1 and (y - y1) % 1024 == 0]
    y2 = al[0] if al else y1 + 1
    hebrew = cal_id.startswith("Hebrew")

    def q(y):
        r = (calc._get_start_of_year_in_days(y), cal.get_days_in_year(y))
        if hebrew:
            r += (cal.get_days_in_month(y, 2), cal.get_days_in_month(y, 3), cal.get_days_in_month(y, 8), cal.get_days_in_month(y, 9))
        return r
    _reset_year_caches(caches)
    exp1 = q(y1)
    _reset_year_caches(caches)
    exp2 = q(y2)

    def make():
        _reset_year_caches(caches)
        return [lambda: q(y1), lambda: (q(y2), q(y1))], {}

    def check(s, c):
        if s.status != "OK":
            return (s.status,), "execution does not complete: %s" % s.status
        e = _outcome_errors(s)
        if e is not None:
            return ("error", type(e).__name__), "thread raised %r" % (e,)
        ok = (s.results[0] == exp1, s.results[1] == (exp2, exp1))
        return ok, (None if all(ok) else "threads querying aliasing years %d and %d got %r / %r, sequential answers %r / %r" % (y1, y2, s.results[0], s.results[1], exp1, exp2))
    # the molad arithmetic of the Hebrew calculator is pure (arguments only); scheduling points are the cache accessors
    files = ("_year_month_day_calculator.py::_get_start_of_year_in_days", "_year_start_cache_entry.py",
             "_hebrew_scriptural_calculator.py::__get_or_populate_cache|__compute_cache_entry")
    return make, check, files


def H_zonecache(zone_id):
    alpha, _ = _zone_alphabet(zone_id)
    base = _fresh_cached_zone(zone_id)
    under = _underlying(base) or base
    from pyoda_time.time_zones._cached_date_time_zone import _CachedDateTimeZone
    a, b = alpha[1], alpha[5]     # T and an instant 512 periods later (same slot)
    ea, eb = _zi_key(under.get_zone_interval(mk_instant(a))), _zi_key(under.get_zone_interval(mk_instant(b)))

    def make():
        z = _CachedDateTimeZone._for_zone(under)
        return [lambda: (_zi_key(z.get_zone_interval(mk_instant(a))), _zi_key(z.get_zone_interval(mk_instant(b)))),
                lambda: (_zi_key(z.get_zone_interval(mk_instant(b))), _zi_key(z.get_zone_interval(mk_instant(a))))], {}

    def check(s, c):
        if s.status != "OK":
            return (s.status,), "execution does not complete: %s" % s.status
        e = _outcome_errors(s)
        if e is not None:
            return ("error", type(e).__name__), "thread raised %r" % (e,)
        ok = (s.results[0] == (ea, eb), s.results[1] == (eb, ea))
        return ok, (None if all(ok) else "concurrent lookups on one caching zone returned %r / %r, underlying zone says %r, %r" % (s.results[0], s.results[1], ea, eb))
    return make, check, ("_caching_zone_interval_map.py", "_cached_date_time_zone.py")


def H_provider(nthreads=2):
    src = TzdbDateTimeZoneSource.default

    def make():
        cache = DateTimeZoneCache(src)
        bodies = [lambda: cache["Europe/Paris"], lambda: cache.get_zone_or_none("Europe/Paris"), lambda: cache["Europe/Paris"]]
        return bodies[:nthreads], {"cache": cache}

    def check(s, c):
        if s.status != "OK":
            return (s.status,), "execution does not complete: %s" % s.status
        e = _outcome_errors(s)
        if e is not None:
            return ("error", type(e).__name__), "thread raised %r" % (e,)
        a, b = s.results[0], s.results[1]
        later = c["cache"]["Europe/Paris"]
        same = (all(r is a for r in s.results), later is a, later is b)
        return same, (None if all(same) else "two threads fetching one id from a fresh provider got different zone objects (a is b: %s, later lookup is a: %s, is b: %s)" % same)
    return make, check, ("_date_time_zone_cache.py",)


def H_provider_warm():
    """a provider that has just served ANOTHER id (whatever 'most recent answer' it may remember is warm for that id): two threads
    fetch one new id, a third question re-reads the first id afterwards"""
    src = TzdbDateTimeZoneSource.default

    def make():
        cache = DateTimeZoneCache(src)
        first = cache["Asia/Tokyo"]
        return [lambda: cache["Europe/London"], lambda: (cache.get_zone_or_none("Europe/London"), cache["Asia/Tokyo"])], {"cache": cache, "first": first}

    def check(s, c):
        if s.status != "OK":
            return (s.status,), "execution does not complete: %s" % s.status
        e = _outcome_errors(s)
        if e is not None:
            return ("error", type(e).__name__), "thread raised %r" % (e,)
        a, (b, tk) = s.results[0], s.results[1]
        later = c["cache"]["Europe/London"]
        ok = (getattr(a, "id", None) == "Europe/London", getattr(b, "id", None) == "Europe/London", a is b, later is a, tk is c["first"], getattr(tk, "id", None) == "Asia/Tokyo")
        return ok, (None if all(ok) else "after serving Asia/Tokyo, two threads fetching Europe/London got zones with ids %r / %r (same object: %s, later lookup same: %s; Tokyo re-read same object: %s)" % (
            getattr(a, "id", None), getattr(b, "id", None), ok[2], ok[3], ok[4]))
    return make, check, ("_date_time_zone_cache.py",)


def H_calendar(prop, ordinal_name):
    reg = _calendar_registry()
    from pyoda_time._calendar_ordinal import _CalendarOrdinal
    ordinal = getattr(_CalendarOrdinal, ordinal_name)

    def make():
        reg.pop(ordinal, None)
        return [lambda: getattr(CalendarSystem, prop), lambda: getattr(CalendarSystem, prop)], {}

    def check(s, c):
        if s.status != "OK":
            return (s.status,), "execution does not complete: %s" % s.status
        e = _outcome_errors(s)
        if e is not None:
            return ("error", type(e).__name__), "thread raised %r" % (e,)
        a, b = s.results
        later = getattr(CalendarSystem, prop)
        same = (a is b, later is a and later is b)
        return same, (None if all(same) else "first use of CalendarSystem.%s from two threads produced distinct calendar objects (a is b: %s, later is both: %s)" % ((prop,) + same))
    return make, check, ("_calendar_system.py",)


def H_singletons(which):
    import pyoda_time._date_time_zone as dtz
    import pyoda_time._date_time_zone_providers as prov

    def reset():
        if which == "utc":
            setattr(dtz._DateTimeZoneMeta, "_DateTimeZoneMeta__utc", None)
        elif which == "for_offset":
            setattr(DateTimeZone, "_DateTimeZone__fixed_zone_cache", None)
        elif which == "tzdb":
            meta = type(DateTimeZoneProviders)
            setattr(meta, "_%s__tzdb" % meta.__name__.lstrip("_"), None)

    def get():
        if which == "utc":
            return DateTimeZone.utc
        if which == "for_offset":
            return DateTimeZone.for_offset(Offset.from_hours(2))
        return DateTimeZoneProviders.tzdb

    def make():
        reset()
        return [get, get], {}

    def check(s, c):
        if s.status != "OK":
            return (s.status,), "execution does not complete: %s" % s.status
        e = _outcome_errors(s)
        if e is not None:
            return ("error", type(e).__name__), "thread raised %r" % (e,)
        a, b = s.results
        later = get()
        if which == "for_offset":
            ok = (a == b and a.id == "UTC+02" and later == a,)   # documented: equal, not necessarily identical
        else:
            ok = (a is b, later is a)
        return ok, (None if all(ok) else "first use of %s from two threads: results %r / %r, later %r" % (which, a, b, later))
    files = {"utc": ("_date_time_zone.py",), "for_offset": ("_date_time_zone.py",), "tzdb": ("_date_time_zone_providers.py",)}[which]
    return make, check, files


def H_cache():
    from pyoda_time.utility._cache import _Cache

    def make():
        calls = []

        def factory(k):
            calls.append(k)
            return ("value-of", k)
        c = _Cache(2, factory)
        return [lambda: (c.get_or_add("a"), c.get_or_add("b"), c.get_or_add("c")), lambda: (c.get_or_add("c"), c.get_or_add("a"))], {"cache": c}

    def check(s, c):
        if s.status != "OK":
            return (s.status,), "execution does not complete: %s" % s.status
        e = _outcome_errors(s)
        if e is not None:
            return ("error", type(e).__name__), "thread raised %r" % (e,)
        exp = ((("value-of", "a"), ("value-of", "b"), ("value-of", "c")), (("value-of", "c"), ("value-of", "a")))
        cache = c["cache"]
        coherent = cache.count() <= 2 and len(set(cache.keys())) == len(cache.keys())
        # after the race the cache must keep working sequentially: fill it with exactly `size` (and size+1) new keys, then
        # ask for every earlier key again (a duplicate left in the eviction queue only bites at this point)
        tail_ok = True
        try:
            for k in ("x1", "x2", "c", "a", "b", "x3", "x4", "x5", "c", "a"):
                if cache.get_or_add(k) != ("value-of", k):
                    tail_ok = False
            tail_ok = tail_ok and cache.count() <= 2
        except Exception as e:  # noqa: BLE001
            if exc_origin(e) == "harness":
                raise
            return ("tail-error", type(e).__name__), "after a concurrent get_or_add the cache fails in later sequential use: %r" % (e,)
        ok = (tuple(s.results) == exp, coherent, tail_ok)
        return ok, (None if all(ok) else "concurrent get_or_add: results %r, count %d, keys %r, later sequential use ok=%s" % (s.results, cache.count(), cache.keys(), tail_ok))
    return make, check, ("_cache.py",)


def H_formatinfo(kind):
    from pyoda_time._compatibility._culture_info import CultureInfo
    from pyoda_time.globalization._pyoda_format_info import _PyodaFormatInfo
    fr = CultureInfo("fr-FR")
    ref = _PyodaFormatInfo(fr)
    exp = {"long_day": list(ref.long_day_names), "short_day": list(ref.short_day_names), "long_month": list(ref.long_month_names),
           "short_month": list(ref.short_month_names), "long_gen": list(ref.long_month_genitive_names), "short_gen": list(ref.short_month_genitive_names)}
    pairs = {"days": ("long_day", "short_day"), "months": ("long_month", "short_month"), "genitive": ("long_month", "short_gen"), "months2": ("long_month", "long_gen")}[kind]
    attr = {"long_day": "long_day_names", "short_day": "short_day_names", "long_month": "long_month_names", "short_month": "short_month_names",
            "long_gen": "long_month_genitive_names", "short_gen": "short_month_genitive_names"}

    def make():
        fi = _PyodaFormatInfo(fr)

        def rd(which):
            def f():
                v = getattr(fi, attr[which])
                return None if v is None else list(v)
            return f
        return [rd(pairs[0]), rd(pairs[1])], {}

    def check(s, c):
        if s.status != "OK":
            return (s.status,), "execution does not complete: %s" % s.status
        e = _outcome_errors(s)
        if e is not None:
            return ("error", type(e).__name__), "thread reading %s names of a fresh format info raised %r" % (kind, e)
        ok = (s.results[0] == exp[pairs[0]], s.results[1] == exp[pairs[1]])
        return ok, (None if all(ok) else "concurrent first reads of %s/%s returned %r / %r" % (pairs[0], pairs[1], s.results[0], s.results[1]))
    return make, check, ("_pyoda_format_info.py",)


def H_pattern_cache():
    from pyoda_time._compatibility._culture_info import CultureInfo
    from pyoda_time.globalization._pyoda_format_info import _PyodaFormatInfo
    from pyoda_time import LocalTime
    fr = CultureInfo("fr-FR")
    t = LocalTime(13, 45, 7)
    ref = _PyodaFormatInfo(fr)
    e1 = ref._local_time_pattern_parser._parse_pattern("HH:mm").format(t)
    e2 = ref._local_time_pattern_parser._parse_pattern("HH:mm:ss").format(t)

    def make():
        fi = _PyodaFormatInfo(fr)
        return [lambda: fi._local_time_pattern_parser._parse_pattern("HH:mm").format(t),
                lambda: (fi._local_time_pattern_parser._parse_pattern("HH:mm:ss").format(t), fi._local_time_pattern_parser._parse_pattern("HH:mm").format(t))], {}

    def check(s, c):
        if s.status != "OK":
            return (s.status,), "execution does not complete: %s" % s.status
        e = _outcome_errors(s)
        if e is not None:
            return ("error", type(e).__name__), "thread raised %r" % (e,)
        ok = (s.results[0] == e1, s.results[1] == (e2, e1))
        return ok, (None if all(ok) else "concurrent pattern lookups returned %r / %r" % (s.results[0], s.results[1]))
    return make, check, ("_pyoda_format_info.py", "_fixed_format_info_pattern_parser.py")


def H_pattern_cache_full(nwarm=600):
    """the per-format-info pattern cache after MANY distinct patterns (any bound a cache may have is far below nwarm, so an
    eviction path - if one exists - runs in both threads): two threads create two new patterns and re-read an old one"""
    from pyoda_time._compatibility._culture_info import CultureInfo
    from pyoda_time.globalization._pyoda_format_info import _PyodaFormatInfo
    from pyoda_time import LocalTime
    fr = CultureInfo("fr-FR")
    t = LocalTime(13, 45, 7)
    texts = ["HH':'mm' #%d'" % i for i in range(nwarm)]
    new_a, new_b = "HH':'mm':'ss' A'", "HH':'mm':'ss' B'"
    ref = _PyodaFormatInfo(fr)
    exp_a = ref._local_time_pattern_parser._parse_pattern(new_a).format(t)
    exp_b = ref._local_time_pattern_parser._parse_pattern(new_b).format(t)
    exp_old = ref._local_time_pattern_parser._parse_pattern(texts[0]).format(t)

    def make():
        fi = _PyodaFormatInfo(fr)
        pp = fi._local_time_pattern_parser
        for x in texts:
            pp._parse_pattern(x)
        return [lambda: pp._parse_pattern(new_a).format(t),
                lambda: (pp._parse_pattern(new_b).format(t), pp._parse_pattern(texts[0]).format(t))], {}

    def check(s, c):
        if s.status != "OK":
            return (s.status,), "execution does not complete: %s" % s.status
        e = _outcome_errors(s)
        if e is not None:
            return ("error", type(e).__name__), "thread creating a new pattern on a format info that has already cached %d patterns raised %r" % (nwarm, e)
        ok = (s.results[0] == exp_a, s.results[1] == (exp_b, exp_old))
        return ok, (None if all(ok) else "concurrent pattern lookups after %d cached patterns returned %r / %r" % (nwarm, s.results[0], s.results[1]))
    return make, check, ("_fixed_format_info_pattern_parser.py", "_cache.py")


def H_current_culture():
    from pyoda_time._compatibility._culture_info import CultureInfo
    from pyoda_time import LocalDate as LD
    from pyoda_time.text import LocalDatePattern
    fr, de = CultureInfo("fr-FR"), CultureInfo("de-DE")
    d = LD(2024, 3, 5)
    efr = LocalDatePattern.create("MMMM", fr).format(d)
    ede = LocalDatePattern.create("MMMM", de).format(d)

    def body(cul):
        def f():
            old = CultureInfo.current_culture
            CultureInfo.current_culture = cul
            try:
                a = LocalDatePattern.create_with_current_culture("MMMM").format(d)
                b = CultureInfo.current_culture.name
                return (a, b)
            finally:
                CultureInfo.current_culture = old
        return f

    def make():
        return [body(fr), body(de)], {}

    def check(s, c):
        if s.status != "OK":
            return (s.status,), "execution does not complete: %s" % s.status
        e = _outcome_errors(s)
        if e is not None:
            return ("error", type(e).__name__), "thread raised %r" % (e,)
        ok = (s.results[0] == (efr, "fr-FR"), s.results[1] == (ede, "de-DE"))
        return ok, (None if all(ok) else "threads formatting under their own current culture got %r / %r" % (s.results[0], s.results[1]))
    return make, check, ("_culture_info.py", "_pyoda_format_info.py")


# ---- generic pairs of pure operations on shared objects --------------------------------------------------------------
# Any public query is documented to be a pure function of its arguments "whether or not other threads are using the same
# objects".  Each entry below builds fresh shared objects, optionally warms them with a DIFFERENT query, and runs two
# queries in two threads with EVERY line of EVERY pyoda_time file as a scheduling point; the answers must equal the
# answers computed sequentially on fresh objects.  This is what catches an unsynchronised memo added anywhere.

_WARM_SIZES = (255, 256, 511, 512, 1022, 1023, 1024, 2047, 2048)


def _generic_catalogue():
    from pyoda_time import IsoDayOfWeek, LocalDateTime, LocalTime, OffsetDateTime, Period, PeriodUnits
    from pyoda_time import DateInterval
    from pyoda_time.calendars import WeekYearRules
    from pyoda_time.text import LocalDateTimePattern, LocalDatePattern
    cat = {}

    def entry(name, build, warm, op_a, op_b, render):
        cat[name] = (build, warm, op_a, op_b, render)
    iso = CalendarSystem.iso
    jul = CalendarSystem.julian
    hc = CalendarSystem.hebrew_civil
    d1, d2, d3 = LocalDate(2020, 12, 31), LocalDate(2016, 1, 2), LocalDate(2024, 2, 29)
    entry("weekyear-rule", lambda: WeekYearRules.iso, lambda r: r.get_week_year(d3),
          lambda r: (r.get_week_year(d1), r.get_week_of_week_year(d1)), lambda r: (r.get_week_year(d2), r.get_week_of_week_year(d2), r.get_weeks_in_week_year(2020)), repr)
    entry("weekyear-rule-regular", lambda: WeekYearRules.for_min_days_in_first_week(1, IsoDayOfWeek.SUNDAY), None,
          lambda r: r.get_local_date(2021, 1, IsoDayOfWeek.MONDAY).day, lambda r: (r.get_week_year(d1.with_calendar(hc)), r.get_week_of_week_year(d2)), repr)
    # a rule object that has already answered N distinct week-years (N around powers of two: any bounded memo such an object
    # might carry is then exactly at / just below / just above capacity): thread A asks remembered years, thread B a new one
    for n_warm in _WARM_SIZES:
        def _warm_rule(r, n_warm=n_warm):
            for y in range(1000, 1000 + n_warm):
                r.get_weeks_in_week_year(y)
        entry("weekyear-rule-after-%d" % n_warm, lambda: WeekYearRules.for_min_days_in_first_week(4, IsoDayOfWeek.MONDAY), _warm_rule,
              lambda r: (r.get_weeks_in_week_year(1005), r.get_week_year(LocalDate(1010, 6, 1)), r.get_week_of_week_year(LocalDate(1003, 12, 31))),
              lambda r: (r.get_weeks_in_week_year(5000), r.get_week_year(LocalDate(5003, 1, 1))), repr)
    o1 = OffsetDateTime(LocalDateTime(2024, 3, 10, 1, 2, 3), Offset.from_hours(2))
    o2 = OffsetDateTime(LocalDateTime(2024, 3, 10, 22, 0, 0), Offset.from_hours(-5))
    o0 = OffsetDateTime(LocalDateTime(1999, 12, 31, 23, 59, 59), Offset.zero)

    def rodt(v):
        return (v.calendar.id, v.year, v.month, v.day, v.nanosecond_of_day, v.offset.seconds)
    entry("odt-with-calendar", lambda: None, lambda _: o0.with_calendar(jul), lambda _: rodt(o1.with_calendar(jul)), lambda _: rodt(o2.with_calendar(jul)), repr)
    entry("odt-with-offset", lambda: None, lambda _: o0.with_offset(Offset.from_hours(9)), lambda _: rodt(o1.with_offset(Offset.from_hours(-18))), lambda _: rodt(o2.with_offset(Offset.from_hours(18))), repr)
    entry("dateinterval-len", lambda: (DateInterval(LocalDate(2024, 2, 27), LocalDate(2024, 3, 4)), DateInterval(LocalDate(2024, 3, 5), LocalDate(2024, 3, 9))), None,
          lambda t: (len(t[0]), len(list(t[0]))), lambda t: (len(t[0]), None if (t[0] | t[1]) is None else len(t[0] | t[1])), repr)
    # ABA shape: thread A asks x; thread B asks ANOTHER object y and then x again (a class-level "last answer" memo whose
    # owner is re-checked after the read is fooled only by this order, and only with three preemptions)
    entry("dateinterval-len-aba", lambda: (DateInterval(LocalDate(2024, 2, 27), LocalDate(2024, 3, 4)), DateInterval(LocalDate(2024, 3, 5), LocalDate(2024, 3, 9))),
          lambda t: len(t[0]), lambda t: len(t[0]), lambda t: (len(t[1]), len(t[0])), repr)
    from pyoda_time import Interval as _Interval
    entry("interval-duration-aba", lambda: (_Interval(mk_instant(0), mk_instant(5 * NS_DAY)), _Interval(mk_instant(NS_DAY), mk_instant(3 * NS_DAY + 7))),
          lambda t: t[0].duration, lambda t: (t[0].duration.to_nanoseconds() if hasattr(t[0].duration, "to_nanoseconds") else repr(t[0].duration), t[0].contains(mk_instant(NS_DAY))),
          lambda t: (repr(t[1].duration), repr(t[0].duration), t[1].contains(mk_instant(NS_DAY - 1))), repr)
    entry("dateinterval-iter", lambda: DateInterval(LocalDate(2024, 2, 27), LocalDate(2024, 3, 2)), None,
          lambda di: [x.day for x in di], lambda di: [x.day for x in di], repr)
    entry("period-between-hebrew", lambda: None, lambda _: Period.between(LocalDate(5784, 1, 1, hc), LocalDate(5785, 1, 1, hc), PeriodUnits.MONTHS).months,
          lambda _: Period.between(LocalDate(5783, 6, 29, hc), LocalDate(5790, 2, 1, hc), PeriodUnits.YEARS | PeriodUnits.MONTHS | PeriodUnits.DAYS).__repr__(),
          lambda _: LocalDate(6807, 2, 1, hc).plus_months(13).__repr__(), repr)
    ldt1, ldt2 = LocalDateTime(2024, 5, 17, 0, 0, 0).plus_nanoseconds(2432), LocalDateTime(2024, 5, 18, 0, 0, 0)
    entry("pattern-format", lambda: LocalDateTimePattern.extended_iso, lambda p: p.format(LocalDateTime(2001, 1, 1, 1, 1, 1)),
          lambda p: p.format(ldt1), lambda p: p.format(ldt2), repr)
    from pyoda_time.text import LocalTimePattern as _LTP
    entry("pattern-create-concurrently", lambda: None, None,
          lambda _: LocalDatePattern.create_with_invariant_culture("uuuu'-'MM'-'dd").format(d3),
          lambda _: (_LTP.create_with_invariant_culture("HH'h'mm'm'ss").format(LocalTime(13, 45, 7)), LocalDatePattern.iso.format(d1)), repr)
    entry("pattern-parse", lambda: LocalDatePattern.iso, None,
          lambda p: repr(p.parse("2024-02-29").value), lambda p: (p.parse("2023-02-29").success, repr(p.parse("1999-12-31").value)), repr)
    src = TzdbDateTimeZoneSource.default
    i2050, i2060, i2024 = mk_instant(2_539_000_000 * 10**9), mk_instant(2_855_000_000 * 10**9), mk_instant(1_720_000_000 * 10**9)
    entry("zone-tail-lookups", lambda: src.for_id("Europe/London"), None, lambda z: _zi_key(z.get_zone_interval(i2050)), lambda z: _zi_key(z.get_zone_interval(i2060)), repr)
    alias = mk_instant(1_720_000_000 * 10**9 + 16384 * NS_DAY)
    entry("zone-warm-hit-vs-alias", lambda: src.for_id("America/New_York"), lambda z: z.get_zone_interval(i2024),
          lambda z: (_zi_key(z.get_zone_interval(i2024)), z.get_utc_offset(i2024).seconds), lambda z: _zi_key(z.get_zone_interval(alias)), repr)
    # two INDEPENDENT writers (own output streams) encoding at the same time: nothing may be shared between them
    import io as _io

    def _encode(values):
        from pyoda_time.time_zones.io._date_time_zone_writer import _DateTimeZoneWriter
        out = _io.BytesIO()
        w = _DateTimeZoneWriter._ctor(out, None)
        for v in values:
            w.write_count(v)
        w.write_string("Zone/A")
        w.write_signed_count(-values[0])
        return out.getvalue().hex()
    entry("codec-independent-writers", lambda: None, None, lambda _: _encode([300, 5, 70000, 2**21 + 5]), lambda _: _encode([1, 16384, 127, 128, 2**28]), repr)
    lt = LocalDateTime(2021, 3, 28, 1, 30, 0)
    entry("zone-map-local", lambda: src.for_id("Europe/London"), None, lambda z: (z.map_local(lt).count, z.at_leniently(lt).offset.seconds),
          lambda z: (z.map_local(LocalDateTime(2021, 10, 31, 1, 30, 0)).count, repr(z.at_start_of_day(LocalDate(2021, 3, 28)).to_instant())), repr)
    return cat


_GENERIC_FILES = {
    **{"weekyear-rule-after-%d" % n: ("_simple_week_year_rule.py", "_week_year_rules.py") for n in _WARM_SIZES},
    "weekyear-rule": ("_simple_week_year_rule.py", "_week_year_rules.py"),
    "weekyear-rule-regular": ("_simple_week_year_rule.py", "_week_year_rules.py"),
    "odt-with-calendar": ("_offset_date_time.py", "_offset_time.py"),
    "odt-with-offset": ("_offset_date_time.py", "_offset_time.py"),
    "dateinterval-len": ("_date_interval.py",),
    "dateinterval-iter": ("_date_interval.py",),
    "dateinterval-len-aba": ("_date_interval.py",),
    "interval-duration-aba": ("_interval.py",),
    "period-between-hebrew": ("_hebrew_year_month_day_calculator.py::_add_months|_months_between|_get_days_in_month", "_year_start_cache_entry.py",
                              "_hebrew_scriptural_calculator.py::__get_or_populate_cache|__compute_cache_entry"),
    "pattern-format": ("_stepped_pattern_builder.py::format|append_format|parse|parse_partial", "_local_date_time_pattern.py", "_local_date_pattern.py"),
    "pattern-create-concurrently": ("_pattern_cursor.py", "_stepped_pattern_builder.py::_parse_custom_pattern|_add_literal|__handle_quote|handle_quote|_handle_quote"),
    "pattern-parse": ("_stepped_pattern_builder.py::format|append_format|parse|parse_partial", "_local_date_time_pattern.py", "_local_date_pattern.py",
                      "_local_date_pattern_parser.py::calculate_value|_calculate_value"),
    "zone-tail-lookups": ("_caching_zone_interval_map.py", "_cached_date_time_zone.py", "_precalculated_date_time_zone.py", "_standard_daylight_alternating_map.py",
                          "_zone_recurrence.py", "_zone_year_offset.py"),
    "zone-warm-hit-vs-alias": ("_caching_zone_interval_map.py", "_cached_date_time_zone.py"),
    "codec-independent-writers": ("_date_time_zone_writer.py",),
    "zone-map-local": ("_caching_zone_interval_map.py", "_cached_date_time_zone.py", "_zone_local_mapping.py", "_date_time_zone.py::map_local|at_start_of_day"),
}


def H_generic(name, whole_library=False):
    build, warm, op_a, op_b, _ = _generic_catalogue()[name]

    def fresh():
        obj = build()
        if warm is not None:
            warm(obj)
        return obj
    exp_a = op_a(fresh())
    exp_b = op_b(fresh())

    def make():
        obj = fresh()
        return [lambda: op_a(obj), lambda: op_b(obj)], {}

    def check(s, c):
        if s.status != "OK":
            return (s.status,), "execution does not complete: %s" % s.status
        e = _outcome_errors(s)
        if e is not None:
            return ("error", type(e).__name__), "thread raised %r" % (e,)
        ok = (s.results[0] == exp_a, s.results[1] == exp_b)
        return ok, (None if all(ok) else "two threads querying shared objects (%s) got %r / %r, sequential answers on fresh objects are %r / %r" % (name, s.results[0], s.results[1], exp_a, exp_b))
    return make, check, (("*pyoda_time*",) if whole_library else _GENERIC_FILES[name])


def H_hebrew_warm(numbering):
    """the process-global Hebrew cache with the NEXT year already cached: thread A computes year y (reads y+1's slot),
    thread B stores an alias of y+1 into that slot"""
    cal = CalendarSystem.hebrew_civil if numbering == "civil" else CalendarSystem.hebrew_scriptural
    caches = _find_year_caches(cal._year_month_day_calculator)
    y = 5784

    def q(yy):
        return (cal.get_days_in_year(yy), tuple(cal.get_days_in_month(yy, m) for m in range(1, cal.get_months_in_year(yy) + 1)), impl.days_of(LocalDate(yy, 1, 1, cal)))
    _reset_year_caches(caches)
    exp_y = q(y)
    _reset_year_caches(caches)
    exp_alias = q(y + 1 + 1024)

    def make():
        _reset_year_caches(caches)
        q(y + 1)
        return [lambda: q(y), lambda: q(y + 1 + 1024)], {}

    def check(s, c):
        if s.status != "OK":
            return (s.status,), "execution does not complete: %s" % s.status
        e = _outcome_errors(s)
        if e is not None:
            return ("error", type(e).__name__), "thread raised %r" % (e,)
        later = q(y)
        ok = (s.results[0] == exp_y, s.results[1] == exp_alias, later == exp_y)
        return ok, (None if all(ok) else "Hebrew year %d computed while another thread caches year %d: got %r (later %r), sequential answer %r" % (y, y + 1025, s.results[0], later, exp_y))
    return make, check, ("_year_start_cache_entry.py", "_hebrew_scriptural_calculator.py::__get_or_populate_cache|__compute_cache_entry")


def _harness_table(tier):
    hs = []
    years_cals = ("ISO", "Hijri Civil-Base15", "Hebrew Civil", "Hebrew Scriptural", "Badi")
    if tier != "quick":
        years_cals += ("Julian", "Coptic", "Persian Simple", "Persian Algorithmic", "Um Al Qura")
    for cid in years_cals:
        hs.append(("H1-years:%s" % cid, lambda cid=cid: H_years(cid)))
    for zid in ("Europe/London", "Europe/Vienna"):
        hs.append(("H3-zonecache:%s" % zid, lambda zid=zid: H_zonecache(zid)))
    hs.append(("H4-provider", H_provider))
    hs.append(("H4-provider-warm-other-id", H_provider_warm))
    if tier != "quick":
        hs.append(("H4-provider-3threads", lambda: H_provider(3)))
    hs.append(("H5-calendar:coptic", lambda: H_calendar("coptic", "COPTIC")))
    hs.append(("H5-calendar:julian", lambda: H_calendar("julian", "JULIAN")))
    for w in ("utc", "for_offset", "tzdb"):
        hs.append(("H6-singleton:%s" % w, lambda w=w: H_singletons(w)))
    hs.append(("H7-cache", H_cache))
    for k in ("days", "months", "genitive", "months2"):
        hs.append(("H8-formatinfo:%s" % k, lambda k=k: H_formatinfo(k)))
    hs.append(("H2-hebrew-warm:civil", lambda: H_hebrew_warm("civil")))
    hs.append(("H2-hebrew-warm:scriptural", lambda: H_hebrew_warm("scriptural")))
    for g in ("weekyear-rule", "weekyear-rule-regular", "odt-with-calendar", "odt-with-offset", "dateinterval-len", "dateinterval-iter", "dateinterval-len-aba",
              "interval-duration-aba", "period-between-hebrew",
              "pattern-format", "pattern-parse", "pattern-create-concurrently", "zone-tail-lookups", "zone-warm-hit-vs-alias", "zone-map-local", "codec-independent-writers"):
        hs.append(("H20-generic:%s" % g, lambda g=g: H_generic(g)))
        if tier != "quick":
            hs.append(("H21-generic-whole-library:%s" % g, lambda g=g: H_generic(g, True)))
    for n_warm in ((1023, 1024) if tier == "quick" else _WARM_SIZES):
        hs.append(("H20-generic:weekyear-rule-after-%d" % n_warm, lambda n_warm=n_warm: H_generic("weekyear-rule-after-%d" % n_warm)))
    hs.append(("H9-pattern-cache", H_pattern_cache))
    hs.append(("H9-pattern-cache-after-600", H_pattern_cache_full))
    hs.append(("H10-current-culture", H_current_culture))
    return hs


# ---- first use in a fresh interpreter -------------------------------------------------------------------------------------

_FRESH_EXTRA = {}


def _fresh_run(name, gran, prefix, sequential=False):
    import json as _json
    import subprocess
    import sys as _sys
    args = [_sys.executable, "-m", "vf.core.firstuse", name, gran, _json.dumps(prefix)] + (["sequential"] if sequential else ["parallel"]) + [",".join(_FRESH_EXTRA.get(name, ()))]
    r = subprocess.run(args, capture_output=True, text=True, timeout=300)
    line = [ln for ln in r.stdout.splitlines() if ln.startswith("{")]
    if not line:
        raise RuntimeError("first-use child failed: %s" % (r.stderr[-400:],))
    return _json.loads(line[-1])


def explore_fresh(name, gran, bound, max_runs):
    """the sched.explore loop with every execution in a new interpreter; executions of one wave run in parallel"""
    from concurrent.futures import ThreadPoolExecutor
    acc = Acc()
    # discovery (not a verdict): module/class-level containers that get filled when the entry runs for the first time; the files
    # that own them become scheduling points in addition to the entry's own list
    lazy = _fresh_run(name, "discover", [], sequential=True).get("lazy_containers", {})
    _FRESH_EXTRA[name] = tuple(sorted(set(lazy.values())))
    acc.note("first-use %s: lazily filled containers" % name, sorted(lazy)[:40])
    expected = _fresh_run(name, gran, [], sequential=True)["expected"]
    d1 = _fresh_run(name, gran, [])
    d2 = _fresh_run(name, gran, [])
    if d1.get("trace") != d2.get("trace") or d1.get("results") != d2.get("results"):
        acc.degrade("first-use harness %s (%s): default schedule not reproducible across interpreters - not explored" % (name, gran))
        return acc
    frontier = [[]]
    runs = 0
    outcomes = {}
    capped = False
    pmax = 0
    with ThreadPoolExecutor(max_workers=max(2, min(8, (os.cpu_count() or 4) // 2))) as pool:
        while frontier:
            if runs >= max_runs:
                capped = True
                break
            batch, frontier = frontier[:max_runs - runs], frontier[max_runs - runs:]
            results = list(pool.map(lambda pre: (pre, _fresh_run(name, gran, pre)), batch))
            for prefix, d in results:
                runs += 1
                if "divergence" in d:
                    acc.degrade("first-use harness %s: replay divergence (%s)" % (name, d["divergence"][:80]))
                    continue
                trace = d["trace"]
                pmax = max(pmax, len(trace))
                errs = [e for e in d["errors"] if e]
                if d["status"] != "OK":
                    label = (d["status"],)
                    what = "first use from two threads does not complete: %s" % d["status"]
                elif errs:
                    label = ("error", errs[0].split(":")[0])
                    what = "first use from two threads raised %s" % errs[0]
                elif d["results"] != expected:
                    label = ("wrong",)
                    what = "first use from two threads returned %r, sequential first use returns %r" % (d["results"], expected)
                else:
                    label, what = ("ok",), None
                outcomes[label] = outcomes.get(label, 0) + 1
                if what is not None:
                    acc.violation("C13/first-use/%s/%s" % (name, "-".join(label)), "%s [fresh interpreter, preemption bound %d, %s granularity]" % (what, bound, gran),
                                  {"kind": "first-use", "entry": name, "granularity": gran, "schedule": [t[0] for t in trace]})
                cost = 0
                costs = []
                for (k, nopt, running_enabled) in trace:
                    costs.append(cost)
                    if k > 0 and running_enabled:
                        cost += 1
                for i in range(len(prefix), len(trace)):
                    k, nopt, running_enabled = trace[i]
                    if costs[i] + (1 if running_enabled else 0) > bound:
                        continue
                    for alt in range(1, nopt):
                        frontier.append([t[0] for t in trace[:i]] + [alt])
    acc.count(states=runs, evaluations=runs, transitions=runs * max(1, pmax), nontrivial=len(outcomes))
    for o, n in outcomes.items():
        acc.outcome("first-use:%s => %r" % (name, o), n)
    if capped:
        acc.cap("first-use %s (%s) bound %d capped at %d fresh-interpreter executions" % (name, gran, bound, max_runs))
    acc.sample({"first_use_entry": name, "granularity": gran, "bound": bound, "fresh_interpreter_executions": runs, "max_points": pmax})
    return acc


def _first_use_shard(arg):
    name, gran, bound, max_runs = arg
    try:
        return explore_fresh(name, gran, bound, max_runs)
    except Exception as e:  # noqa: BLE001
        acc = Acc()
        acc.degrade("first-use harness %s could not run (%s: %s)" % (name, type(e).__name__, str(e)[:100]))
        return acc


_HCFG = {}


def _run_harness(idx):
    tier = _HCFG["tier"]
    name, builder = _harness_table(tier)[idx]
    acc = Acc()
    try:
        make, check, files = builder()
    except Exception as e:  # noqa: BLE001
        if exc_origin(e) == "lib":
            acc.lib_exception("C13/sched/%s/setup" % name, e, {"harness": name})
        else:
            acc.degrade("harness %s could not be built (%s: %s)" % (name, type(e).__name__, str(e)[:80]))
        return acc
    # choose what is affordable: cost of a plan ~ executions x points; executions ~ P (bound 1) or P^2/2 (bound 2)
    budget = 24_000 if tier == "quick" else 400_000
    plans = []
    for opcodes in ((False,) if name.startswith(("H21-generic", "H2-hebrew-warm")) else (True, False)):
        try:
            sched.run_schedule(make, [], files, opcodes)
            s0, _ = sched.run_schedule(make, [], files, opcodes)
        except Exception as e:  # noqa: BLE001
            acc.degrade("harness %s: probe run failed (%s)" % (name, type(e).__name__))
            return acc
        P = max(1, len(s0.trace))
        if name.startswith(("H21-generic", "H2-hebrew-warm")):
            # whole-library tracing: always the complete single-preemption space at this granularity (about P executions);
            # the CPU-time cap of explore() bounds the cost and is reported if it bites
            plans.append((1, opcodes, 4 * P + 50))
            if opcodes is False and tier != "quick" and P * P * P // 2 <= budget * 8:
                plans.append((2, opcodes, max(200, (budget * 8) // P)))
            break
        if P ** 4 // 6 <= budget * 4:
            # small enough for three preemptions (ABA-shaped races need them)
            plans.append((3, opcodes, max(200, (budget * 4) // P)))
        elif P * P * P // 2 <= budget * 4:
            plans.append((2, opcodes, max(200, (budget * 4) // P)))
        elif P * P <= budget * 6:
            plans.append((1, opcodes, max(200, (budget * 6) // P)))
        else:
            acc.cap("%s: %s granularity has %d scheduling points per execution - too many for this tier, not explored" % (name, "opcode" if opcodes else "line", P))
    if not plans:
        plans = [(1, False, max(50, budget // max(1, P)))]
    for bound, opcodes, max_runs in plans:
        try:
            r = sched.explore(make, files, bound, opcodes, check, max_runs, max_seconds=(30 if tier == "quick" else 300))
        except sched.ReplayDivergence as e:
            acc.degrade("harness %s (%s granularity): schedule replay diverged (%s) - harness fault, not counted" % (name, "opcode" if opcodes else "line", str(e)[:100]))
            continue
        acc.count(states=r["runs"], evaluations=r["runs"], transitions=r["runs"] * max(1, r["points_max"]), nontrivial=len(r["outcomes"]))
        for o, n in r["outcomes"].items():
            acc.outcome("%s => %r" % (name, o), n)
        if r["capped"]:
            acc.cap("%s bound %d %s capped at %d executions" % (name, bound, "opcode" if opcodes else "line", max_runs))
        for label, what, schedule in r["violations"]:
            acc.violation("C13/sched/%s/%s" % (name, "-".join(str(x) for x in label)), "%s [preemption bound %d, %s granularity]" % (what, bound, "opcode" if opcodes else "line"),
                          {"kind": "sched", "harness": name, "schedule": schedule, "opcodes": opcodes, "bound": bound})
        acc.sample({"harness": name, "bound": bound, "granularity": "opcode" if opcodes else "line", "executions": r["runs"], "outcomes": len(r["outcomes"]), "max_points": r["points_max"]})
    return acc


# =================================================================================================

def run(ctx):
    tier = ctx.tier
    ctx.rule = ("histories: every query history up to the stated depth over alphabets built to collide in the caches, each replayed on a fresh cache/object, "
                "oracle = the same query asked first (non-trivial = distinct histories); schedules: every schedule of each 2-thread harness within the preemption "
                "bound at line and opcode granularity (non-trivial = distinct outcome vectors)")
    ctx.assumptions = ["CPython 3.12 GIL semantics: thread switches only between bytecodes; explored at every bytecode of the traced library files",
                       "global caches are reset through private attributes before each history when reachable (else listed under degraded)"]
    for d in impl.DEGRADED:
        ctx.degrade(d)
    only = getattr(ctx, "only", None)
    _HCFG["tier"] = tier
    if only and any(o.startswith("H") for o in only):
        table = _harness_table(tier)
        idx = [i for i, (n, _) in enumerate(table) if any(n.startswith(o) for o in only)]
        for acc in pmap(_run_harness, idx):
            ctx.merge_part("schedules", acc)
        return
    import time as _t
    t0 = _t.time()
    phase = {}

    def mark(name):
        nonlocal t0
        phase[name] = round(_t.time() - t0, 1)
        t0 = _t.time()
    ydepth = 3 if tier == "quick" else 4
    jobs = [(cid, ydepth, ctx.seed, b) for cid in CalendarSystem.ids for b in (False, True)]
    for acc in pmap(_years_histories, jobs):
        ctx.merge_part("hist_year_caches", acc)
    cjobs = []
    for cid in CalendarSystem.ids:
        cal = CalendarSystem.for_id(cid)
        full = tier != "quick" or cid.startswith("Hebrew")
        lo, hi = cal.min_year, cal.max_year + 1
        if not full:
            # quick: the first 2200 years (two laps of the 1024 slots), and the last 1100
            blocks = [(lo, min(hi, lo + 2200)), (max(lo, hi - 1100), hi)]
        else:
            blocks = [(lo, hi)]
        for a, b in blocks:
            for x in range(a, b, 550):
                cjobs.append((cid, x, min(b, x + 550)))
    for acc in pmap(_cold_years_shard, cjobs):
        ctx.merge_part("cold_years", acc)
    if tier == "quick":
        ctx.cap("cold-years: non-Hebrew calendars ask only their first 2200 and last 1100 years cold (Hebrew: every year)")
    mark("hist_year_caches")
    zdepth = 3 if tier == "quick" else 4
    zjobs = [(z, zdepth, 12 if tier == "quick" else 14) for z in ("Europe/London", "Europe/Vienna", "Pacific/Apia", "Asia/Gaza", "America/Sao_Paulo", "Australia/Lord_Howe")]
    for acc in pmap(_zones_histories, zjobs):
        ctx.merge_part("hist_zone_cache", acc)
    mark("hist_zone_cache")
    for acc in pmap(_cache_histories, [(2, 5 if tier == "quick" else 7), (3, 5 if tier == "quick" else 7)]):
        ctx.merge_part("hist_lru_cache", acc)
    acc = Acc()
    _format_info_history(acc)
    ctx.merge_part("hist_format_info", acc)
    mark("hist_lru_and_format_info")
    ctx.merge_part("hist_provider", _provider_histories(3 if tier == "quick" else 4))
    ctx.merge_part("hist_provider_custom_source", _provider_histories_custom(3 if tier == "quick" else 4))
    ctx.merge_part("hist_fixed_zones", _fixed_zone_histories(2 if tier == "quick" else 3))
    ctx.merge_part("hist_culture_names", _culture_name_histories(2 if tier == "quick" else 3))
    ctx.merge_part("hist_weekyear_cross_rule", _weekyear_cross_rule_histories(2 if tier == "quick" else 3))
    g_, s_ = _mutable_culture_ops()
    mjobs = [(k, 3, cn) for cn in (("en-US",) if tier == "quick" else ("en-US", "fr-FR", "de-DE")) for k in range(len(g_) + len(s_))]
    for acc in pmap(_mutable_culture_histories, mjobs):
        ctx.merge_part("hist_mutable_culture", acc)
    nops = len(_source_alphabet())
    for acc in pmap(_source_histories, [(k, 2 if tier == "quick" else 3) for k in range(nops)]):
        ctx.merge_part("hist_tzdb_source", acc)
    ctx.merge_part("hist_pattern_lookup", _pattern_lookup_histories(2 if tier == "quick" else 3))
    acc = Acc()
    _calendar_histories(acc)
    ctx.merge_part("hist_calendars", acc)
    mark("hist_provider_calendars")
    _HCFG["tier"] = tier
    n = len(_harness_table(tier))
    for acc in pmap(_run_harness, range(n)):
        ctx.merge_part("schedules", acc)
    mark("schedules")
    # first use of lazily initialised state, each execution in a fresh interpreter (0.6 s each): single-preemption space
    small = ["offset-patterns", "instant-repr", "iso-patterns", "calendar-hebrew"]
    fu = [(n, "line", 1, 60) for n in small[:2]] + [("date-adjusters", "line", 2, 120), ("time-unit-arithmetic", "line", 2, 120), ("stdlib-bridges", "line", 2, 120), ("text-format-parse", "line", 2, 160), ("weekyear-rules", "line", 1, 100)]
    if tier != "quick":
        fu = [(n, "line", 1, 2500) for n in small + ["calendar-islamic", "weekyear-rules", "tzdb-provider", "fixed-zones"]] + [("date-adjusters", "line", 2, 2500), ("time-unit-arithmetic", "line", 2, 2500), ("stdlib-bridges", "line", 2, 2500), ("text-format-parse", "line", 2, 2500)]
    for acc in pmap(_first_use_shard, fu, procs=4):
        ctx.merge_part("first_use_fresh_interpreter", acc)
    mark("first_use")
    ctx.note("phase_wall_s", phase)
    ctx.exhaustive = not ctx.caps


def replay(rec):
    case = rec.get("case") or {}
    acc = Acc()
    k = case.get("kind")
    if k == "sched":
        _HCFG["tier"] = "quick"
        names = [n for n, _ in _harness_table("quick")]
        if case["harness"] in names:
            acc.merge(_run_harness(names.index(case["harness"])))
    if k == "tzdb-source":
        from pyoda_time.time_zones._tzdb_date_time_zone_source import TzdbDateTimeZoneSource as _Src
        ops = dict(_source_alphabet())
        src = _Src.from_stream(io.BytesIO(_source_bytes()))
        got = None
        for name in case["history"]:
            got = _source_answer(ops[name], src)
        last = case["history"][-1]
        fresh = _source_answer(ops[last], _Src.from_stream(io.BytesIO(_source_bytes())))
        if got != fresh:
            acc.violation("C13/tzdb-source/history-dependent/%s" % last, "after %r: %r, fresh source: %r" % (case["history"][:-1], got, fresh))
    for kk, v in acc.violations.items():
        print(kk, v[0])
    return bool(acc.violations)
